(* ControlProofs.v - direct facts about Compiler.v for property C11 ("stop and volgende act on the
   innermost enclosing loop only; antwoord leaves only the current function"):
   what compile_statement does with the stack of loop contexts for SBreak / SContinue / SReturn,
   that a function literal compiles its body with an empty stack of loop contexts and restores
   the outer one, and what the jump patches at the end of a `zolang` write. *)
From Coq Require Import ZArith Lia Bool List.
From NL.Model Require Import Compiler.
Open Scope Z_scope.

Lemma rev_eq_cons : forall A (l : list A) x r, rev l = x :: r -> l = rev r ++ [x].
Proof. intros A l x r H. rewrite <- (rev_involutive l), H. reflexivity. Qed.

Lemma code_len_emit_opcode' : forall op st, code_len (emit_opcode op st) = code_len st + 1.
Proof.
  intros. unfold code_len, emit_opcode, zlength. cbn [c_code]. rewrite app_length. cbn [length]. lia.
Qed.

(** * stop *)

Definition break_code : list Z :=
  [byte_of_opcode ONull; byte_of_opcode OJump; JUMP_PLACEHOLDER mod 256; (JUMP_PLACEHOLDER / 256) mod 256].

(* `stop` emits Null; Jump <placeholder> and records the position of that Jump in the LAST
   (innermost) loop context; the outer contexts are untouched *)
Theorem break_innermost : forall st st', compile_statement SBreak st = Ok st' ->
  exists outer ctx,
    c_loops st = outer ++ [ctx] /\
    c_loops st' = outer ++ [mkLoop (l_start ctx) (l_breaks ctx ++ [code_len st + 1])] /\
    c_code st' = c_code st ++ break_code /\
    c_symbols st' = c_symbols st /\ c_constants st' = c_constants st.
Proof.
  intros st st' H. cbn [compile_statement] in H.
  cbn [emit_u16 emit_opcode c_loops] in H.
  destruct (rev (c_loops st)) as [|ctx rest] eqn:E; [discriminate H|].
  inversion H; subst st'; clear H. apply rev_eq_cons in E.
  exists (rev rest), ctx. split; [exact E|].
  cbn [set_loops c_loops c_code c_symbols c_constants rev].
  split.
  - rewrite code_len_emit_opcode'. reflexivity.
  - cbn [emit_u16 emit_opcode c_code c_symbols c_constants]. split; [|split; reflexivity].
    rewrite <- !app_assoc. reflexivity.
Qed.

Theorem break_outside_loop : forall st, c_loops st = [] -> compile_statement SBreak st = Err ESyntaxError.
Proof.
  intros st H. cbn [compile_statement]. cbn [emit_u16 emit_opcode c_loops]. rewrite H. reflexivity.
Qed.

(** * volgende *)

(* `volgende` emits Null; Jump <start of the LAST (innermost) loop context>; the contexts are unchanged *)
Theorem continue_innermost : forall st st', compile_statement SContinue st = Ok st' ->
  exists outer ctx,
    c_loops st = outer ++ [ctx] /\ c_loops st' = c_loops st /\ l_start ctx < 2 ^ 16 /\
    c_code st' = c_code st ++ [byte_of_opcode ONull; byte_of_opcode OJump;
                                l_start ctx mod 256; (l_start ctx / 256) mod 256] /\
    c_symbols st' = c_symbols st /\ c_constants st' = c_constants st.
Proof.
  intros st st' H. cbn [compile_statement] in H. cbn [emit_opcode c_loops] in H.
  destruct (rev (c_loops st)) as [|ctx rest] eqn:E; [discriminate H|].
  apply rev_eq_cons in E. unfold operand in H.
  destruct (l_start ctx <? 2 ^ 16) eqn:El; [|discriminate H]. cbn [bind] in H.
  inversion H; subst st'; clear H. exists (rev rest), ctx. split; [exact E|].
  cbn [emit_u16 c_loops c_code c_symbols c_constants]. split; [reflexivity|].
  split; [apply Z.ltb_lt; exact El|]. cbn [emit_opcode c_code c_symbols c_constants].
  split; [|split; reflexivity]. rewrite <- !app_assoc. reflexivity.
Qed.

Theorem continue_outside_loop : forall st, c_loops st = [] -> compile_statement SContinue st = Err ESyntaxError.
Proof.
  intros st H. cbn [compile_statement]. cbn [emit_opcode c_loops]. rewrite H. reflexivity.
Qed.

(** * antwoord *)

Theorem return_outside_function : forall e st, in_global_context (c_symbols st) = true ->
  compile_statement (SReturn e) st = Err ESyntaxError.
Proof. intros e st H. cbn [compile_statement]. rewrite H. reflexivity. Qed.

Theorem return_inside_function : forall e st st', in_global_context (c_symbols st) = false ->
  compile_statement (SReturn e) st = Ok st' ->
  exists st1, compile_expression e st = Ok st1 /\ st' = emit_opcode OReturnValue st1.
Proof.
  intros e st st' Hg H. cbn [compile_statement] in H. rewrite Hg in H.
  destruct (compile_expression e st) as [st1| | |]; try discriminate H. cbn [bind] in H.
  inversion H; subst. exists st1. auto.
Qed.

(** * Blocks, `als`, `zolang`, function literals: unfolding equations with named helpers *)

Definition c_block_statement (b : list stmt) (st : cstate) : outcome cstate :=
  if is_nil b then Ok (emit_opcode ONull st)
  else do st1 <- compile_statements b (set_symbols st (enter_scope (c_symbols st)));
       Ok (set_symbols st1 (leave_scope (c_symbols st1))).

Definition c_block_value (b : list stmt) (st : cstate) : outcome cstate :=
  do st1 <- c_block_statement b st;
  if is_nil b then Ok st1
  else if last_instruction_is OPop st1 then Ok (remove_last_instruction st1)
  else Ok (emit_opcode ONull st1).

Definition patch_breaks (breaks : list Z) (st : cstate) : outcome cstate :=
  fold_left (fun acc ip => do s <- acc;
                           do tg <- operand 16 (code_len s);
                           change_jump_operand_at ip tg s)
            breaks (Ok st).

Lemma cs_block : forall b st,
  compile_statement (SBlock b) st =
  if is_nil b then Ok (emit_opcode OPop (emit_opcode ONull st))
  else do st1 <- compile_statements b (set_symbols st (enter_scope (c_symbols st)));
       Ok (set_symbols st1 (leave_scope (c_symbols st1))).
Proof. reflexivity. Qed.

Lemma ce_if : forall c t alt st,
  compile_expression (EIf c t alt) st =
  do st1 <- compile_expression c st;
  let pos_jif := code_len st1 in
  let st2 := emit_u16 JUMP_PLACEHOLDER (emit_opcode OJumpIfFalse st1) in
  do st3 <- c_block_value t st2;
  let pos_jump := code_len st3 in
  let st4 := emit_u16 JUMP_PLACEHOLDER (emit_opcode OJump st3) in
  do target <- operand 16 (code_len st4);
  do st5 <- change_jump_operand_at pos_jif target st4;
  do st6 <- match alt with
            | Some b => c_block_value b st5
            | None => Ok (emit_opcode ONull st5)
            end;
  do target2 <- operand 16 (code_len st6);
  change_jump_operand_at pos_jump target2 st6.
Proof. reflexivity. Qed.

Lemma ce_while : forall c body st,
  compile_expression (EWhile c body) st =
  let st1 := emit_opcode ONull st in
  let start := code_len st1 in
  let st2 := set_loops st1 (c_loops st1 ++ [mkLoop start []]) in
  do st3 <- compile_expression c st2;
  let pos_jif := code_len st3 in
  let st4 := emit_opcode OPop (emit_u16 JUMP_PLACEHOLDER (emit_opcode OJumpIfFalse st3)) in
  do st5 <- c_block_value body st4;
  let st6 := emit_opcode OJump st5 in
  do back <- operand 16 start;
  let st7 := emit_u16 back st6 in
  do target <- operand 16 (code_len st7);
  do st8 <- change_jump_operand_at pos_jif target st7;
  match rev (c_loops st8) with
  | [] => Fault FUnwrap
  | ctx :: rest => patch_breaks (l_breaks ctx) (set_loops st8 (rev rest))
  end.
Proof. reflexivity. Qed.

Lemma ce_function : forall name params body st,
  compile_expression (EFunction name params body) st =
  let '(st1, sym) :=
    if is_nil name then (st, None)
    else let '(t, s) := define (c_symbols st) name in (set_symbols st t, Some s) in
  let pos_jump := code_len st1 in
  let st2 := emit_u16 JUMP_PLACEHOLDER (emit_opcode OJump st1) in
  let t3 := fold_left (fun t p => fst (define t p)) params (new_context (c_symbols st2)) in
  let st3 := set_symbols st2 t3 in
  let pos_start := code_len st3 in
  let outer_loops := c_loops st3 in
  do st4 <- c_block_statement body (set_loops st3 []);
  let st5 := set_loops st4 outer_loops in
  let st6 := if last_instruction_is OPop st5 then emit_opcode OReturnValue (remove_last_instruction st5)
             else if last_instruction_is OReturnValue st5 then st5
             else emit_opcode OReturn st5 in
  do target <- operand 16 (code_len st6);
  do st7 <- change_jump_operand_at pos_jump target st6;
  let '(t8, num_locals) := leave_context (c_symbols st7) in
  let st8 := set_symbols st7 t8 in
  do ip <- operand 32 pos_start;
  do nl <- operand 16 (Z.of_nat num_locals);
  let '(st9, r) := add_constant (KFun ip nl) st8 in
  do idx <- r;
  let st10 := emit_u16 idx (emit_opcode OConst st9) in
  match sym with
  | Some s =>
      do st11 <- emit_sym (scoped s OSetGlobal OSetLocal) s st10;
      Ok (emit_u16 idx (emit_opcode OConst st11))
  | None => Ok st10
  end.
Proof. reflexivity. Qed.

(** * Jump patches *)

Lemma bind_inv : forall A B (e : outcome A) (k : A -> outcome B) r,
  bind e k = Ok r -> exists a, e = Ok a /\ k a = Ok r.
Proof. intros A B e k r H. destruct e; try discriminate H. eexists; split; [reflexivity|exact H]. Qed.

Lemma length_replace_nth' : forall A n (v : A) l, length (replace_nth n v l) = length l.
Proof.
  intros A n v l. revert n. induction l as [|y l IH]; intros [|n]; cbn [replace_nth length]; auto.
Qed.

Lemma nth_error_replace_nth_same : forall A n (v : A) l, (n < length l)%nat ->
  nth_error (replace_nth n v l) n = Some v.
Proof.
  intros A n v l. revert n. induction l as [|y l IH]; intros [|n] H; cbn [length] in H; try lia;
    cbn [replace_nth nth_error]; [reflexivity|]. apply IH. lia.
Qed.

Lemma nth_error_replace_nth_other : forall A i j (v : A) l, i <> j ->
  nth_error (replace_nth i v l) j = nth_error l j.
Proof.
  intros A i j v l. revert i j. induction l as [|y l IH]; intros [|i] [|j] H; cbn [replace_nth nth_error];
    try reflexivity; try lia. apply IH. lia.
Qed.

(* what one patch does: only the two operand bytes after position idx change *)
Lemma change_jump_spec : forall idx v st st', 0 <= idx -> change_jump_operand_at idx v st = Ok st' ->
  c_symbols st' = c_symbols st /\ c_constants st' = c_constants st /\ c_loops st' = c_loops st /\
  c_last st' = c_last st /\ c_lit_allocs st' = c_lit_allocs st /\
  length (c_code st') = length (c_code st) /\
  (exists b, nth_error (c_code st) (Z.to_nat idx) = Some b /\
             (b = byte_of_opcode OJump \/ b = byte_of_opcode OJumpIfFalse)) /\
  c_code st' = replace_nth (Z.to_nat idx + 2) ((v / 256) mod 256)
                 (replace_nth (Z.to_nat idx + 1) (v mod 256) (c_code st)).
Proof.
  intros idx v st st' Hi H. unfold change_jump_operand_at in H.
  destruct (nth_error (c_code st) (Z.to_nat idx)) as [b|] eqn:Eb; [|discriminate H].
  destruct ((b =? byte_of_opcode OJump) || (b =? byte_of_opcode OJumpIfFalse)) eqn:E; [|discriminate H].
  inversion H; subst st'; clear H. cbn [c_symbols c_constants c_loops c_last c_lit_allocs c_code].
  repeat (split; [reflexivity|]). split; [rewrite !length_replace_nth'; reflexivity|].
  split.
  - exists b. split; [reflexivity|]. apply orb_prop in E. destruct E as [E|E]; apply Z.eqb_eq in E; auto.
  - replace (Z.to_nat (idx + 2)) with (Z.to_nat idx + 2)%nat by lia.
    replace (Z.to_nat (idx + 1)) with (Z.to_nat idx + 1)%nat by lia. reflexivity.
Qed.

Lemma code_len_length : forall st st', length (c_code st') = length (c_code st) -> code_len st' = code_len st.
Proof. intros st st' H. unfold code_len, zlength. rewrite H. reflexivity. Qed.

Definition patch_step (s : outcome cstate) (ip : Z) : outcome cstate :=
  do s <- s; do tg <- operand 16 (code_len s); change_jump_operand_at ip tg s.

Lemma patch_fold_stuck : forall l (x : outcome cstate), (forall s, x <> Ok s) -> fold_left patch_step l x = x.
Proof.
  induction l as [|ip l IH]; intros x Hx; cbn [fold_left]; [reflexivity|].
  assert (patch_step x ip = x) as ->.
  { destruct x; try reflexivity. exfalso. apply (Hx a). reflexivity. }
  apply IH; exact Hx.
Qed.

(* writing the 16-bit target T after each of the positions ips *)
Definition write_targets (T : Z) (ips : list Z) (code : list Z) : list Z :=
  fold_left (fun code ip => replace_nth (Z.to_nat ip + 2) ((T / 256) mod 256)
                               (replace_nth (Z.to_nat ip + 1) (T mod 256) code)) ips code.

(* the patches at the end of a loop: every recorded `stop` jump gets the SAME target, the code
   length at that point (= the exit of the loop); nothing but those operand bytes changes *)
Lemma patch_breaks_spec : forall breaks st st', Forall (fun ip => 0 <= ip) breaks ->
  patch_breaks breaks st = Ok st' ->
  c_symbols st' = c_symbols st /\ c_constants st' = c_constants st /\ c_loops st' = c_loops st /\
  c_last st' = c_last st /\ length (c_code st') = length (c_code st) /\
  (breaks <> [] -> code_len st < 2 ^ 16) /\
  c_code st' = write_targets (code_len st) breaks (c_code st).
Proof.
  intros breaks. unfold patch_breaks. change (fun acc ip => do s <- acc; do tg <- operand 16 (code_len s);
                                              change_jump_operand_at ip tg s) with patch_step.
  induction breaks as [|ip breaks IH]; intros st st' Hpos H; cbn [fold_left] in H.
  - inversion H; subst. repeat (split; [reflexivity|]). split; [intros N; contradiction|reflexivity].
  - inversion Hpos as [|? ? Hip Hrest]; subst.
    destruct (patch_step (Ok st) ip) as [s1| | |] eqn:E1;
      try (rewrite patch_fold_stuck in H by (intros s; discriminate); discriminate H).
    unfold patch_step in E1. cbn [bind] in E1. apply bind_inv in E1. destruct E1 as [tg [Etg E1]].
    unfold operand in Etg. destruct (code_len st <? 2 ^ 16) eqn:Elt; [|discriminate Etg].
    inversion Etg; subst tg. apply Z.ltb_lt in Elt.
    destruct (change_jump_spec ip (code_len st) st s1 Hip E1) as [A1 [A2 [A3 [A4 [_ [A6 [_ A8]]]]]]].
    destruct (IH s1 st' Hrest H) as [B1 [B2 [B3 [B4 [B5 [_ B7]]]]]].
    split; [congruence|]. split; [congruence|]. split; [congruence|]. split; [congruence|].
    split; [congruence|]. split; [intros _; exact Elt|].
    rewrite B7. unfold write_targets. cbn [fold_left]. rewrite (code_len_length st s1 A6), A8. reflexivity.
Qed.

(** * Function literals reset the loop contexts *)

Lemma add_constant_loops : forall k st st1 r, add_constant k st = (st1, r) -> c_loops st1 = c_loops st.
Proof.
  intros k st st1 r H. unfold add_constant in H.
  destruct (const_position k (c_constants st)); inversion H; subst; reflexivity.
Qed.

Lemma emit_sym_loops : forall op s st st', emit_sym op s st = Ok st' -> c_loops st' = c_loops st.
Proof.
  intros op s st st' H. unfold emit_sym in H. apply bind_inv in H. destruct H as [idx [_ H]].
  inversion H; subst. reflexivity.
Qed.

Lemma code_len_nonneg : forall st, 0 <= code_len st.
Proof. intros. unfold code_len, zlength. lia. Qed.

(* the tail of compile_expression (EFunction ..) after the body has been compiled *)
Lemma function_tail_loops : forall st1 (sym : option symbol) outer st4 st' pos_start,
  c_loops st1 = outer ->
  (let st5 := set_loops st4 outer in
   let st6 := if last_instruction_is OPop st5 then emit_opcode OReturnValue (remove_last_instruction st5)
              else if last_instruction_is OReturnValue st5 then st5
              else emit_opcode OReturn st5 in
   do target <- operand 16 (code_len st6);
   do st7 <- change_jump_operand_at (code_len st1) target st6;
   let '(t8, num_locals) := leave_context (c_symbols st7) in
   let st8 := set_symbols st7 t8 in
   do ip <- operand 32 pos_start;
   do nl <- operand 16 (Z.of_nat num_locals);
   let '(st9, r) := add_constant (KFun ip nl) st8 in
   do idx <- r;
   let st10 := emit_u16 idx (emit_opcode OConst st9) in
   match sym with
   | Some s =>
       do st11 <- emit_sym (scoped s OSetGlobal OSetLocal) s st10;
       Ok (emit_u16 idx (emit_opcode OConst st11))
   | None => Ok st10
   end) = Ok st' ->
  c_loops st' = outer.
Proof.
  intros st1 sym outer st4 st' pos_start Ho H. cbv zeta in H.
  apply bind_inv in H. destruct H as [target [_ H]].
  apply bind_inv in H. destruct H as [st7 [H7 H]].
  destruct (change_jump_spec _ _ _ _ (code_len_nonneg st1) H7) as [_ [_ [L7 _]]].
  assert (c_loops st7 = outer) as L7'.
  { rewrite L7. destruct (last_instruction_is OPop (set_loops st4 outer)); [reflexivity|].
    destruct (last_instruction_is OReturnValue (set_loops st4 outer)); reflexivity. }
  clear H7 L7. unfold leave_context in H. cbv beta iota zeta in H.
  apply bind_inv in H. destruct H as [ip [_ H]].
  apply bind_inv in H. destruct H as [nl [_ H]].
  destruct (add_constant (KFun ip nl) (set_symbols st7 (removelast (c_symbols st7)))) as [st9 r] eqn:E9.
  pose proof (add_constant_loops _ _ _ _ E9) as L9. cbn [set_symbols c_loops] in L9.
  apply bind_inv in H. destruct H as [idx [_ H]].
  destruct sym as [s|].
  - apply bind_inv in H. destruct H as [st11 [H11 H]]. apply emit_sym_loops in H11.
    inversion H; subst st'. cbn [emit_u16 emit_opcode c_loops] in *. congruence.
  - inversion H; subst st'. cbn [emit_u16 emit_opcode c_loops]. congruence.
Qed.

(* (b) whatever the body does to the loop contexts, a function literal leaves them as they were *)
Theorem function_resets_loops : forall name ps body st st',
  compile_expression (EFunction name ps body) st = Ok st' -> c_loops st' = c_loops st.
Proof.
  intros name ps body st st' H. rewrite ce_function in H.
  destruct (is_nil name).
  - cbv beta iota zeta in H. apply bind_inv in H. destruct H as [st4 [_ H]].
    exact (function_tail_loops st None (c_loops st) st4 st' _ eq_refl H).
  - destruct (define (c_symbols st) name) as [t s]. cbv beta iota zeta in H.
    apply bind_inv in H. destruct H as [st4 [_ H]].
    exact (function_tail_loops (set_symbols st t) (Some s) (c_loops st) st4 st' _ eq_refl H).
Qed.

(* ... and the body is compiled with NO enclosing loop: stop / volgende directly in a function body
   are rejected even when the function literal is written inside a loop *)
Theorem function_body_break : forall name ps st,
  compile_expression (EFunction name ps [SBreak]) st = Err ESyntaxError.
Proof.
  intros name ps st. rewrite ce_function.
  destruct (is_nil name); [|destruct (define (c_symbols st) name) as [t s]]; reflexivity.
Qed.

Theorem function_body_continue : forall name ps st,
  compile_expression (EFunction name ps [SContinue]) st = Err ESyntaxError.
Proof.
  intros name ps st. rewrite ce_function.
  destruct (is_nil name); [|destruct (define (c_symbols st) name) as [t s]]; reflexivity.
Qed.

(* more generally: the body starts with an empty stack of loop contexts *)
Theorem function_body_compiled_without_loops : forall name ps body st st',
  compile_expression (EFunction name ps body) st = Ok st' ->
  exists st3 st4, c_loops st3 = [] /\ c_block_statement body st3 = Ok st4.
Proof.
  intros name ps body st st' H. rewrite ce_function in H.
  destruct (is_nil name); [|destruct (define (c_symbols st) name) as [t s]];
    cbv beta iota zeta in H; apply bind_inv in H; destruct H as [st4 [H4 _]];
    eexists; exists st4; (split; [|exact H4]); reflexivity.
Qed.

(** * `zolang`: the exit patches *)

(* (d) The shape of a compiled loop.  With exit := the code length after the back jump:
   the JumpIfFalse after the condition is patched to exit; the innermost loop context is popped;
   every `stop` position recorded in it is patched to the same exit; nothing is emitted after. *)
Theorem while_patches_breaks : forall c body st st',
  compile_expression (EWhile c body) st = Ok st' ->
  let start := code_len st + 1 in
  exists st3 st5 st8 ctx rest,
    compile_expression c (set_loops (emit_opcode ONull st) (c_loops st ++ [mkLoop start []])) = Ok st3 /\
    c_block_value body (emit_opcode OPop (emit_u16 JUMP_PLACEHOLDER (emit_opcode OJumpIfFalse st3))) = Ok st5 /\
    let exit := code_len st5 + 3 in
    start < 2 ^ 16 /\ exit < 2 ^ 16 /\
    change_jump_operand_at (code_len st3) exit (emit_u16 start (emit_opcode OJump st5)) = Ok st8 /\
    c_code st8 = replace_nth (Z.to_nat (code_len st3) + 2) ((exit / 256) mod 256)
                   (replace_nth (Z.to_nat (code_len st3) + 1) (exit mod 256)
                      (c_code st5 ++ [byte_of_opcode OJump; start mod 256; (start / 256) mod 256])) /\
    c_loops st8 = rev rest ++ [ctx] /\
    patch_breaks (l_breaks ctx) (set_loops st8 (rev rest)) = Ok st' /\
    (Forall (fun ip => 0 <= ip) (l_breaks ctx) ->
       c_loops st' = rev rest /\ code_len st' = exit /\
       c_code st' = write_targets exit (l_breaks ctx) (c_code st8)).
Proof.
  intros c body st st' H start. rewrite ce_while in H. cbv zeta in H.
  rewrite code_len_emit_opcode' in H. fold start in H.
  apply bind_inv in H. destruct H as [st3 [H3 H]].
  apply bind_inv in H. destruct H as [st5 [H5 H]].
  apply bind_inv in H. destruct H as [back [Hb H]].
  apply bind_inv in H. destruct H as [target [Ht H]].
  apply bind_inv in H. destruct H as [st8 [H8 H]].
  unfold operand in Hb. destruct (start <? 2 ^ 16) eqn:Es; [|discriminate Hb].
  inversion Hb; subst back; clear Hb. apply Z.ltb_lt in Es.
  assert (code_len (emit_u16 start (emit_opcode OJump st5)) = code_len st5 + 3) as Lx.
  { unfold code_len, zlength, emit_u16, emit_opcode. cbn [c_code]. rewrite !app_length. cbn [length]. lia. }
  rewrite Lx in Ht. unfold operand in Ht. destruct (code_len st5 + 3 <? 2 ^ 16) eqn:Et; [|discriminate Ht].
  inversion Ht; subst target; clear Ht. apply Z.ltb_lt in Et.
  destruct (change_jump_spec _ _ _ _ (code_len_nonneg st3) H8) as [_ [_ [_ [_ [_ [Len8 [_ C8]]]]]]].
  destruct (rev (c_loops st8)) as [|ctx rest] eqn:Er; [discriminate H|]. apply rev_eq_cons in Er.
  exists st3, st5, st8, ctx, rest.
  cbn [emit_opcode c_loops] in H3. split; [exact H3|]. split; [exact H5|]. cbv zeta.
  split; [exact Es|]. split; [exact Et|]. split; [exact H8|].
  split. { rewrite C8. cbn [emit_u16 emit_opcode c_code]. rewrite <- app_assoc. reflexivity. }
  split; [exact Er|]. split; [exact H|].
  intros Hpos. destruct (patch_breaks_spec _ _ _ Hpos H) as [_ [_ [P3 [_ [P5 [_ P7]]]]]].
  cbn [set_loops c_loops c_code] in P3, P5, P7.
  assert (code_len (set_loops st8 (rev rest)) = code_len st5 + 3) as L8.
  { unfold code_len, zlength. cbn [set_loops c_code]. rewrite Len8.
    unfold code_len, zlength in Lx. exact Lx. }
  split; [exact P3|]. split.
  - rewrite <- L8. apply code_len_length. exact P5.
  - rewrite P7, L8. reflexivity.
Qed.

Print Assumptions break_innermost.
Print Assumptions continue_innermost.
Print Assumptions function_resets_loops.
Print Assumptions function_body_break.
Print Assumptions return_outside_function.
Print Assumptions while_patches_breaks.
