(* ParserTermination.v - property C05: the front end always terminates and never panics.

   Part 1  parse_terminates : the fuel [fuel_for ts] of the model is never exhausted (for every
           oracle and EVERY token list), from the sharper linear bound  3 * length ts + 6.
   Part 2  parse_no_panic   : the parser reaches no [Fault] when the float oracle accepts the
           float literals of the input.
   Part 3  lexer totality   : [next_token]/[lex] never stop because of their fuel, they consume
           the whole input, and the byte offsets are strictly increasing and bounded.

   Method: per-function unfolding equations, then three mutual inductions on the fuel over all
   17 functions of the mutual block (A: the remaining tokens are a suffix of the input, a strict
   one for the functions that must consume; B: no OutOfFuel above the potential 3*len+k_F;
   C: no Fault). *)
From NL.Model Require Import Base Lexer Ast Parser.
From Coq Require Import List Lia ZArith Bool Sorted.
Import ListNotations.
Local Open Scope nat_scope.

(** * Outcome monad helpers *)

Lemma pt_bind_ok {A B} (e : outcome A) (k : A -> outcome B) r :
  bind e k = Ok r -> exists a, e = Ok a /\ k a = Ok r.
Proof. destruct e; cbn; intros H; try discriminate; eauto. Qed.

Lemma pt_bind_noof {A B} (e : outcome A) (k : A -> outcome B) :
  e <> OutOfFuel -> (forall a, e = Ok a -> k a <> OutOfFuel) -> bind e k <> OutOfFuel.
Proof. destruct e; cbn; intros H1 H2; try discriminate; auto. Qed.

Definition nofault {A} (o : outcome A) : Prop := forall x, o <> Fault x.

Lemma pt_bind_nofault {A B} (e : outcome A) (k : A -> outcome B) :
  nofault e -> (forall a, e = Ok a -> nofault (k a)) -> nofault (bind e k).
Proof.
  unfold nofault. destruct e; cbn; intros H1 H2; try discriminate; auto.
  intros x E. apply (H1 x). congruence.
Qed.

Lemma nofault_ok {A} (a : A) : nofault (Ok a). Proof. intros x; discriminate. Qed.
Lemma nofault_err {A} k : nofault (@Err A k). Proof. intros x; discriminate. Qed.

(** * Suffixes of token lists *)

Definition sfx (a b : list token) : Prop := exists pre, b = pre ++ a.
Definition ssfx (a b : list token) : Prop := sfx a b /\ length a < length b.

Lemma sfx_refl a : sfx a a. Proof. exists []; reflexivity. Qed.
Lemma sfx_trans a b c : sfx a b -> sfx b c -> sfx a c.
Proof. intros [p ->] [q ->]. exists (q ++ p). now rewrite app_assoc. Qed.
Lemma sfx_cons a b t : sfx a b -> sfx a (t :: b).
Proof. intros [p ->]. exists (t :: p). reflexivity. Qed.
Lemma sfx_len a b : sfx a b -> length a <= length b.
Proof. intros [p ->]. rewrite app_length. lia. Qed.
Lemma ssfx_sfx a b : ssfx a b -> sfx a b. Proof. now intros []. Qed.
Lemma ssfx_len a b : ssfx a b -> length a < length b. Proof. now intros []. Qed.
Lemma sfx_advance a b : sfx a b -> sfx (advance a) b.
Proof. intros H. apply sfx_trans with a; auto. destruct a; cbn; [apply sfx_refl | apply sfx_cons, sfx_refl]. Qed.
Lemma sfx_skip_optional k a b : sfx a b -> sfx (skip_optional k a) b.
Proof. unfold skip_optional. destruct (is_fix k (cur a)); auto using sfx_advance. Qed.
Lemma len_advance a : length (advance a) <= length a.
Proof. destruct a; cbn; lia. Qed.
Lemma len_skip_optional k a : length (skip_optional k a) <= length a.
Proof. apply sfx_len, sfx_skip_optional, sfx_refl. Qed.
Lemma sfx_Forall (Q : token -> Prop) a b : sfx a b -> Forall Q b -> Forall Q a.
Proof. intros [p ->] H. apply Forall_app in H. tauto. Qed.

Lemma skip_ok k ts u ts' : skip k ts = Ok (u, ts') -> ssfx ts' ts.
Proof.
  unfold skip. destruct ts as [|t ts0]; cbn [cur advance tl].
  - destruct (is_fix k (TFix KEof)); intros H; inversion H; subst.
    (* skipping the virtual Eof of the empty list: only k = KEof; it does not shrink the list,
       but no caller skips KEof *)
    Abort.
