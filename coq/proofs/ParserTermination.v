(* ParserTermination.v - property C05: the front end always terminates and never panics.

   Part 1  parse_terminates : the fuel [fuel_for ts] of the model is never exhausted (for every
           oracle and EVERY token list), from the sharper linear bound  3 * length ts + 6.
   Part 2  parse_no_panic   : the parser reaches no [Fault] when the float oracle accepts the
           float literals of the input.
   Part 3  lexer totality   : [next_token]/[lex] never stop because of their fuel, they consume
           the whole input, and the byte offsets are strictly increasing and bounded.

   Method: per-function unfolding equations, then three mutual inductions on the fuel over all
   17 functions of the mutual block (A: the remaining tokens are a suffix of the input, a strict
   one for the functions that must consume; B: no OutOfFuel above the potential 3*len+k_F;
   C: no Fault). *)
From NL.Model Require Import Base Lexer Ast Parser.
From Coq Require Import List Lia ZArith Bool Sorted.
Import ListNotations.
Local Open Scope nat_scope.

(** * Outcome monad helpers *)

Lemma pt_bind_ok {A B} (e : outcome A) (k : A -> outcome B) r :
  bind e k = Ok r -> exists a, e = Ok a /\ k a = Ok r.
Proof. destruct e; cbn; intros H; try discriminate; eauto. Qed.

Lemma pt_bind_noof {A B} (e : outcome A) (k : A -> outcome B) :
  e <> OutOfFuel -> (forall a, e = Ok a -> k a <> OutOfFuel) -> bind e k <> OutOfFuel.
Proof. destruct e; cbn; intros H1 H2; try discriminate; auto. Qed.

Definition nofault {A} (o : outcome A) : Prop := forall x, o <> Fault x.

Lemma pt_bind_nofault {A B} (e : outcome A) (k : A -> outcome B) :
  nofault e -> (forall a, e = Ok a -> nofault (k a)) -> nofault (bind e k).
Proof.
  unfold nofault. destruct e; cbn; intros H1 H2; try discriminate; auto.
  intros x E. apply (H1 x). congruence.
Qed.

Lemma nofault_ok {A} (a : A) : nofault (Ok a). Proof. intros x; discriminate. Qed.
Lemma nofault_err {A} k : nofault (@Err A k). Proof. intros x; discriminate. Qed.

(** * Suffixes of token lists *)

Definition sfx (a b : list token) : Prop := exists pre, b = pre ++ a.
Definition ssfx (a b : list token) : Prop := sfx a b /\ length a < length b.

Lemma sfx_refl a : sfx a a. Proof. exists []; reflexivity. Qed.
Lemma sfx_trans a b c : sfx a b -> sfx b c -> sfx a c.
Proof. intros [p ->] [q ->]. exists (q ++ p). now rewrite app_assoc. Qed.
Lemma sfx_cons a b t : sfx a b -> sfx a (t :: b).
Proof. intros [p ->]. exists (t :: p). reflexivity. Qed.
Lemma sfx_len a b : sfx a b -> length a <= length b.
Proof. intros [p ->]. rewrite app_length. lia. Qed.
Lemma ssfx_sfx a b : ssfx a b -> sfx a b. Proof. now intros []. Qed.
Lemma ssfx_len a b : ssfx a b -> length a < length b. Proof. now intros []. Qed.
Lemma sfx_advance a b : sfx a b -> sfx (advance a) b.
Proof. intros H. apply sfx_trans with a; auto. destruct a; cbn; [apply sfx_refl | apply sfx_cons, sfx_refl]. Qed.
Lemma sfx_skip_optional k a b : sfx a b -> sfx (skip_optional k a) b.
Proof. unfold skip_optional. destruct (is_fix k (cur a)); auto using sfx_advance. Qed.
Lemma len_advance a : length (advance a) <= length a.
Proof. destruct a; cbn; lia. Qed.
Lemma len_skip_optional k a : length (skip_optional k a) <= length a.
Proof. apply sfx_len, sfx_skip_optional, sfx_refl. Qed.
Lemma sfx_Forall (Q : token -> Prop) a b : sfx a b -> Forall Q b -> Forall Q a.
Proof. intros [p ->] H. apply Forall_app in H. tauto. Qed.

Lemma skip_ok k ts u ts' : ftoken_eqb k KEof = false -> skip k ts = Ok (u, ts') -> ssfx ts' ts.
Proof.
  unfold skip. intros Hk. destruct ts as [|t ts0]; cbn [cur advance tl].
  - cbn [is_fix]. rewrite Hk. discriminate.
  - destruct (is_fix k t); intros H; inversion H; subst.
    split; [apply sfx_cons, sfx_refl | cbn; lia].
Qed.

Lemma skip_noof k ts : skip k ts <> OutOfFuel.
Proof. unfold skip. destruct (is_fix k (cur ts)); discriminate. Qed.
Lemma skip_nofault k ts : nofault (skip k ts).
Proof. unfold skip. destruct (is_fix k (cur ts)); intros x; discriminate. Qed.

(** * Unfolding equations of the mutual block *)

Section PT.
  Variable pf : text -> option float.

  (* the prefix ("nud") part of parse_expr and the dispatch of parse_statement, named so that they
     can be treated like two more functions of the block *)
  Definition parse_head (f : nat) (ts : list token) : P expr :=
    match cur ts with
    | TIntLit s => do e <- int_literal s; Ok (e, advance ts)
    | TFloatLit s => do e <- float_literal pf s; Ok (e, advance ts)
    | TFix KTrue => Ok (EBool true, advance ts)
    | TFix KFalse => Ok (EBool false, advance ts)
    | TStringLit s => Ok (EString (decode_string s), advance ts)
    | TFix KOpenParen =>
        do (e, ts') <- parse_expr pf f PLowest (advance ts);
        do (_, ts'') <- skip KCloseParen ts';
        Ok (e, ts'')
    | TFix KIf => parse_if_expr pf f ts
    | TFix KBang | TFix KMinus => parse_prefix_expr pf f ts
    | TIdent name => Ok (EIdent name, advance ts)
    | TFix KFunc => parse_function_expr pf f ts
    | TFix KWhile => parse_while_expr pf f ts
    | TFix KOpenBracket => parse_array_expr pf f ts
    | _ => Err ESyntaxError
    end.

  Definition stmt_head (f : nat) (ts : list token) : P stmt :=
    match cur ts with
    | TFix KDeclare =>
        let ts1 := advance ts in
        match cur ts1 with
        | TIdent n =>
            do (_, ts2) <- skip KAssign (advance ts1);
            do (v, ts3) <- parse_expr pf f PLowest ts2;
            Ok (SLet n v, ts3)
        | _ => Err ESyntaxError
        end
    | TFix KOpenBrace => do (b, ts1) <- parse_block_statement pf f ts; Ok (SBlock b, ts1)
    | TFix KReturn => do (e, ts1) <- parse_expr pf f PLowest (advance ts); Ok (SReturn e, ts1)
    | TFix KContinue => Ok (SContinue, advance ts)
    | TFix KBreak => Ok (SBreak, advance ts)
    | _ => do (e, ts1) <- parse_expr pf f PLowest ts; Ok (SExpr e, ts1)
    end.

  Lemma parse_expr_S f p ts :
    parse_expr pf (S f) p ts = do (lhs, ts1) <- parse_head f ts; parse_loop pf f p lhs ts1.
  Proof. reflexivity. Qed.

  Lemma parse_loop_S f p lhs ts :
    parse_loop pf (S f) p lhs ts =
      if negb (is_fix KSemi (cur ts)) && prec_lt p (token_precedence (cur ts)) then
        if is_infix_token (cur ts) then
          do (e, ts') <- parse_infix_expr pf f lhs ts; parse_loop pf f p e ts'
        else if is_fix KAssign (cur ts) then
          do (e, ts') <- parse_assign_expr pf f lhs ts; parse_loop pf f p e ts'
        else if is_fix KOpenParen (cur ts) then
          do (e, ts') <- parse_call_expr pf f lhs ts; parse_loop pf f p e ts'
        else if is_fix KOpenBracket (cur ts) then
          do (e, ts') <- parse_index_expr pf f lhs ts; parse_loop pf f p e ts'
        else Ok (lhs, ts)
      else Ok (lhs, ts).
  Proof. reflexivity. Qed.

  (* the body of parse_infix_expr once the left operand is known not to be a function literal *)
  Definition infix_body (f : nat) (lhs : expr) (ts : list token) : P expr :=
    match operator_of (cur ts) with
    | None => Fault FUnwrap
    | Some op =>
        let p := token_precedence (cur ts) in
        let ts1 := advance ts in
        if is_fix KAssign (cur ts1) && match lhs with EIdent _ => true | _ => false end then
          do (rhs, ts2) <- parse_expr pf f PLowest (advance ts1);
          Ok (EAssign lhs (EInfix lhs op rhs), ts2)
        else
          do (rhs, ts2) <- parse_expr pf f p ts1;
          Ok (EInfix lhs op rhs, ts2)
    end.

  Lemma parse_infix_expr_S f lhs ts :
    parse_infix_expr pf (S f) lhs ts =
      match lhs with
      | EFunction _ _ _ => Err ETypeError
      | _ => infix_body f lhs ts
      end.
  Proof. destruct lhs; reflexivity. Qed.

  Lemma parse_prefix_expr_S f ts :
    parse_prefix_expr pf (S f) ts =
      match operator_of (cur ts) with
      | None => Fault FUnwrap
      | Some op =>
          let p := token_precedence (cur ts) in
          do (rhs, ts') <- parse_expr pf f p (advance ts);
          Ok (EPrefix op rhs, ts')
      end.
  Proof. reflexivity. Qed.

  Lemma parse_if_expr_S f ts :
    parse_if_expr pf (S f) ts =
      do (c, ts1) <- parse_expr pf f PLowest (advance ts);
      do (t, ts2) <- parse_block_statement pf f ts1;
      if is_fix KElse (cur ts2) then
        let ts3 := advance ts2 in
        if is_fix KIf (cur ts3) then
          do (s, ts4) <- parse_statement pf f ts3;
          Ok (EIf c t (Some [s]), ts4)
        else
          do (e, ts4) <- parse_block_statement pf f ts3;
          Ok (EIf c t (Some e), ts4)
      else Ok (EIf c t None, ts2).
  Proof. reflexivity. Qed.

  Definition assign_body (f : nat) (lhs : expr) (ts : list token) : P expr :=
    do (rhs, ts') <- parse_expr pf f PAssign (advance ts);
    Ok (EAssign lhs rhs, ts').

  Lemma parse_assign_expr_S f lhs ts :
    parse_assign_expr pf (S f) lhs ts =
      match lhs with
      | EIdent _ | EIndex _ _ => assign_body f lhs ts
      | _ => Err ETypeError
      end.
  Proof. destruct lhs; reflexivity. Qed.

  Lemma parse_function_expr_S f ts :
    parse_function_expr pf (S f) ts =
      let ts1 := advance ts in
      let '(name, ts2) := match cur ts1 with TIdent n => (n, advance ts1) | _ => ([], ts1) end in
      do (_, ts3) <- skip KOpenParen ts2;
      do (params, ts4) <- parse_params pf f ts3;
      do (_, ts5) <- skip KCloseParen ts4;
      do (body, ts6) <- parse_block_statement pf f ts5;
      Ok (EFunction name params body, ts6).
  Proof. reflexivity. Qed.

  Lemma parse_params_S f ts :
    parse_params pf (S f) ts =
      if is_fix KCloseParen (cur ts) then Ok ([], ts)
      else match cur ts with
           | TIdent n =>
               do (rest, ts') <- parse_params pf f (skip_optional KComma (advance ts));
               Ok (n :: rest, ts')
           | _ => Err ESyntaxError
           end.
  Proof. reflexivity. Qed.

  Definition call_body (f : nat) (lhs : expr) (ts : list token) : P expr :=
    do (args, ts') <- parse_list pf f KCloseParen (advance ts);
    Ok (ECall lhs args, advance ts').

  Lemma parse_call_expr_S f lhs ts :
    parse_call_expr pf (S f) lhs ts =
      match lhs with
      | EIdent _ | EFunction _ _ _ => call_body f lhs ts
      | _ => Err ETypeError
      end.
  Proof. destruct lhs; reflexivity. Qed.

  Lemma parse_list_S f close ts :
    parse_list pf (S f) close ts =
      if is_fix close (cur ts) then Ok ([], ts)
      else
        do (e, ts1) <- parse_expr pf f PLowest ts;
        do (rest, ts2) <- parse_list pf f close (skip_optional KComma ts1);
        Ok (e :: rest, ts2).
  Proof. reflexivity. Qed.

  Lemma parse_while_expr_S f ts :
    parse_while_expr pf (S f) ts =
      do (c, ts1) <- parse_expr pf f PLowest (advance ts);
      do (b, ts2) <- parse_block_statement pf f ts1;
      Ok (EWhile c b, ts2).
  Proof. reflexivity. Qed.

  Lemma parse_array_expr_S f ts :
    parse_array_expr pf (S f) ts =
      do (vs, ts1) <- parse_list pf f KCloseBracket (advance ts);
      do (_, ts2) <- skip KCloseBracket ts1;
      Ok (EArray vs, ts2).
  Proof. reflexivity. Qed.

  Definition index_body (f : nat) (lhs : expr) (ts : list token) : P expr :=
    do (i, ts1) <- parse_expr pf f PLowest (advance ts);
    do (_, ts2) <- skip KCloseBracket ts1;
    Ok (EIndex lhs i, ts2).

  Lemma parse_index_expr_S f lhs ts :
    parse_index_expr pf (S f) lhs ts =
      match lhs with
      | EIdent _ | EArray _ | EString _ => index_body f lhs ts
      | _ => Err ETypeError
      end.
  Proof. destruct lhs; reflexivity. Qed.

  Lemma parse_statement_S f ts :
    parse_statement pf (S f) ts = do (s, ts') <- stmt_head f ts; Ok (s, skip_optional KSemi ts').
  Proof. reflexivity. Qed.

  Lemma parse_block_statement_S f ts :
    parse_block_statement pf (S f) ts =
      do (_, ts1) <- skip KOpenBrace ts;
      do (b, ts2) <- parse_block_items pf f ts1;
      do (_, ts3) <- skip KCloseBrace ts2;
      Ok (b, ts3).
  Proof. reflexivity. Qed.

  Lemma parse_block_items_S f ts :
    parse_block_items pf (S f) ts =
      if is_fix KEof (cur ts) || is_fix KCloseBrace (cur ts) then Ok ([], ts)
      else
        do (s, ts1) <- parse_statement pf f ts;
        do (rest, ts2) <- parse_block_items pf f ts1;
        Ok (s :: rest, ts2).
  Proof. reflexivity. Qed.

  Lemma parse_program_S f ts :
    parse_program pf (S f) ts =
      if is_fix KEof (cur ts) then Ok []
      else
        do (s, ts1) <- parse_statement pf f ts;
        do rest <- parse_program pf f ts1;
        Ok (s :: rest).
  Proof. reflexivity. Qed.

  #[local] Arguments parse_expr : simpl never.
  #[local] Arguments parse_loop : simpl never.
  #[local] Arguments parse_infix_expr : simpl never.
  #[local] Arguments parse_prefix_expr : simpl never.
  #[local] Arguments parse_if_expr : simpl never.
  #[local] Arguments parse_assign_expr : simpl never.
  #[local] Arguments parse_function_expr : simpl never.
  #[local] Arguments parse_params : simpl never.
  #[local] Arguments parse_call_expr : simpl never.
  #[local] Arguments parse_list : simpl never.
  #[local] Arguments parse_while_expr : simpl never.
  #[local] Arguments parse_array_expr : simpl never.
  #[local] Arguments parse_index_expr : simpl never.
  #[local] Arguments parse_statement : simpl never.
  #[local] Arguments parse_block_statement : simpl never.
  #[local] Arguments parse_block_items : simpl never.
  #[local] Arguments parse_program : simpl never.

  (** * A: the remaining tokens are a suffix of the input *)

  Record A_all (f : nat) : Prop := {
    A_expr : forall p ts r ts', parse_expr pf f p ts = Ok (r, ts') -> ssfx ts' ts;
    A_loop : forall p l ts r ts', parse_loop pf f p l ts = Ok (r, ts') -> sfx ts' ts;
    A_infix : forall l ts r ts', parse_infix_expr pf f l ts = Ok (r, ts') -> ssfx ts' ts;
    A_prefix : forall ts r ts', parse_prefix_expr pf f ts = Ok (r, ts') -> ssfx ts' ts;
    A_if : forall ts r ts', parse_if_expr pf f ts = Ok (r, ts') -> ssfx ts' ts;
    A_assign : forall l ts r ts', parse_assign_expr pf f l ts = Ok (r, ts') -> ssfx ts' ts;
    A_function : forall ts r ts', parse_function_expr pf f ts = Ok (r, ts') -> ssfx ts' ts;
    A_params : forall ts r ts', parse_params pf f ts = Ok (r, ts') -> sfx ts' ts;
    A_call : forall l ts r ts', parse_call_expr pf f l ts = Ok (r, ts') -> ssfx ts' ts;
    A_list : forall c ts r ts', parse_list pf f c ts = Ok (r, ts') -> sfx ts' ts;
    A_while : forall ts r ts', parse_while_expr pf f ts = Ok (r, ts') -> ssfx ts' ts;
    A_array : forall ts r ts', parse_array_expr pf f ts = Ok (r, ts') -> ssfx ts' ts;
    A_index : forall l ts r ts', parse_index_expr pf f l ts = Ok (r, ts') -> ssfx ts' ts;
    A_statement : forall ts r ts', parse_statement pf f ts = Ok (r, ts') -> ssfx ts' ts;
    A_block_statement : forall ts r ts', parse_block_statement pf f ts = Ok (r, ts') -> ssfx ts' ts;
    A_block_items : forall ts r ts', parse_block_items pf f ts = Ok (r, ts') -> sfx ts' ts
  }.

  (* take apart a hypothesis [body = Ok _] *)
  Ltac okstep :=
    match goal with
    | H : Ok _ = Ok _ |- _ => inversion H; subst; clear H
    | H : Err _ = Ok _ |- _ => discriminate H
    | H : Fault _ = Ok _ |- _ => discriminate H
    | H : OutOfFuel = Ok _ |- _ => discriminate H
    | H : bind ?e _ = Ok _ |- _ =>
        let a := fresh "a" in let E := fresh "E" in
        apply pt_bind_ok in H; destruct H as [a [E H]]; try (destruct a as [? ?])
    | H : context [match ?x with _ => _ end] |- _ =>
        lazymatch x with context [match _ with _ => _ end] => fail | _ => idtac end;
        first [ is_var x; destruct x | destruct x eqn:? ]
    end.

  Ltac lens :=
    repeat match goal with
    | H : ssfx _ _ |- _ => let L := fresh "L" in destruct H as [H L]
    end;
    repeat match goal with
    | H : sfx ?a ?b |- _ =>
        lazymatch goal with
        | _ : length a <= length b |- _ => fail
        | _ => pose proof (sfx_len _ _ H)
        end
    end;
    repeat match goal with
    | |- context [length (skip_optional ?k ?a)] =>
        lazymatch goal with
        | _ : length (skip_optional k a) <= length a |- _ => fail
        | _ => pose proof (len_skip_optional k a)
        end
    | _ : context [length (skip_optional ?k ?a)] |- _ =>
        lazymatch goal with
        | _ : length (skip_optional k a) <= length a |- _ => fail
        | _ => pose proof (len_skip_optional k a)
        end
    | |- context [length (advance ?a)] =>
        lazymatch goal with
        | _ : length (advance a) <= length a |- _ => fail
        | _ => pose proof (len_advance a)
        end
    | _ : context [length (advance ?a)] |- _ =>
        lazymatch goal with
        | _ : length (advance a) <= length a |- _ => fail
        | _ => pose proof (len_advance a)
        end
    end;
    cbn [length] in *.

  Ltac chain :=
    first [ apply sfx_refl
          | assumption
          | apply sfx_cons; chain
          | apply sfx_advance; chain
          | apply sfx_skip_optional; chain
          | match goal with
            | H : sfx ?a ?b |- sfx ?a _ => apply (sfx_trans _ _ _ H); chain
            end ].

  Ltac fin := lens; solve [ chain | split; [ chain | lens; lia ] ].

  Ltac useA IH :=
    repeat match goal with
    | H : skip _ _ = Ok _ |- _ => apply skip_ok in H; [ | reflexivity ]
    | H : parse_expr pf _ _ _ = Ok _ |- _ => apply (A_expr _ IH) in H
    | H : parse_loop pf _ _ _ _ = Ok _ |- _ => apply (A_loop _ IH) in H
    | H : parse_infix_expr pf _ _ _ = Ok _ |- _ => apply (A_infix _ IH) in H
    | H : parse_prefix_expr pf _ _ = Ok _ |- _ => apply (A_prefix _ IH) in H
    | H : parse_if_expr pf _ _ = Ok _ |- _ => apply (A_if _ IH) in H
    | H : parse_assign_expr pf _ _ _ = Ok _ |- _ => apply (A_assign _ IH) in H
    | H : parse_function_expr pf _ _ = Ok _ |- _ => apply (A_function _ IH) in H
    | H : parse_params pf _ _ = Ok _ |- _ => apply (A_params _ IH) in H
    | H : parse_call_expr pf _ _ _ = Ok _ |- _ => apply (A_call _ IH) in H
    | H : parse_list pf _ _ _ = Ok _ |- _ => apply (A_list _ IH) in H
    | H : parse_while_expr pf _ _ = Ok _ |- _ => apply (A_while _ IH) in H
    | H : parse_array_expr pf _ _ = Ok _ |- _ => apply (A_array _ IH) in H
    | H : parse_index_expr pf _ _ _ = Ok _ |- _ => apply (A_index _ IH) in H
    | H : parse_statement pf _ _ = Ok _ |- _ => apply (A_statement _ IH) in H
    | H : parse_block_statement pf _ _ = Ok _ |- _ => apply (A_block_statement _ IH) in H
    | H : parse_block_items pf _ _ = Ok _ |- _ => apply (A_block_items _ IH) in H
    end.

  Ltac solveA IH := repeat okstep; useA IH; fin.

  Lemma A_head f (IH : A_all f) ts r ts' : parse_head f ts = Ok (r, ts') -> ssfx ts' ts.
  Proof.
    unfold parse_head. intros H. destruct ts as [|t ts0]; cbn [cur advance tl] in H; [discriminate|].
    solveA IH.
  Qed.

  Lemma A_stmt_head f (IH : A_all f) ts r ts' : stmt_head f ts = Ok (r, ts') -> ssfx ts' ts.
  Proof.
    unfold stmt_head. intros H. destruct ts as [|t ts0]; cbn [cur advance tl] in H; cbv zeta in H.
    - okstep. apply (A_expr _ IH) in E. lens. lia.
    - solveA IH.
  Qed.

  Lemma operator_of_nil : operator_of (cur []) = None.
  Proof. reflexivity. Qed.

  Lemma A_infix_body f (IH : A_all f) l ts r ts' : infix_body f l ts = Ok (r, ts') -> ssfx ts' ts.
  Proof.
    unfold infix_body. intros H. destruct ts as [|t ts0].
    - rewrite operator_of_nil in H. discriminate.
    - cbn [cur advance tl] in H; cbv zeta in H.
      destruct (operator_of t); [|discriminate].
      destruct (is_fix KAssign (cur ts0) && _); solveA IH.
  Qed.

  Lemma A_assign_body f (IH : A_all f) l ts r ts' : assign_body f l ts = Ok (r, ts') -> ssfx ts' ts.
  Proof. unfold assign_body. intros H. solveA IH. Qed.

  Lemma A_index_body f (IH : A_all f) l ts r ts' : index_body f l ts = Ok (r, ts') -> ssfx ts' ts.
  Proof. unfold index_body. intros H. solveA IH. Qed.

  Lemma parse_head_nil f : parse_head f [] = Err ESyntaxError.
  Proof. reflexivity. Qed.

  Lemma parse_expr_nil f p : parse_expr pf (S f) p [] = Err ESyntaxError.
  Proof. rewrite parse_expr_S, parse_head_nil. reflexivity. Qed.

  Lemma parse_list_nil f c :
    ftoken_eqb c KEof = false -> parse_list pf (S (S f)) c [] = Err ESyntaxError.
  Proof.
    intros Hc. rewrite parse_list_S. cbn [cur is_fix]. rewrite Hc, parse_expr_nil. reflexivity.
  Qed.

  Lemma A_call_body f (IH : A_all f) l ts r ts' : call_body f l ts = Ok (r, ts') -> ssfx ts' ts.
  Proof.
    unfold call_body. intros H. destruct ts as [|t ts0]; cbn [advance tl] in H.
    - destruct f as [|[|f]]; discriminate.
    - solveA IH.
  Qed.

  Lemma A_zero : A_all 0.
  Proof. split; intros; discriminate. Qed.

  Lemma A_step f : A_all f -> A_all (S f).
  Proof.
    intros IH. split.
    - intros p ts r ts'. rewrite parse_expr_S. intros H.
      okstep. apply A_head in E; auto. solveA IH.
    - intros p l ts r ts'. rewrite parse_loop_S. intros H. solveA IH.
    - intros l ts r ts'. rewrite parse_infix_expr_S. intros H.
      destruct l; try discriminate; eapply A_infix_body; eauto.
    - intros ts r ts'. rewrite parse_prefix_expr_S. intros H. cbv zeta in H. solveA IH.
    - intros ts r ts'. rewrite parse_if_expr_S. intros H. cbv zeta in H. solveA IH.
    - intros l ts r ts'. rewrite parse_assign_expr_S. intros H.
      destruct l; try discriminate; eapply A_assign_body; eauto.
    - intros ts r ts'. rewrite parse_function_expr_S. intros H. cbv zeta in H. solveA IH.
    - intros ts r ts'. rewrite parse_params_S. intros H. solveA IH.
    - intros l ts r ts'. rewrite parse_call_expr_S. intros H.
      destruct l; try discriminate; eapply A_call_body; eauto.
    - intros c ts r ts'. rewrite parse_list_S. intros H. solveA IH.
    - intros ts r ts'. rewrite parse_while_expr_S. intros H. solveA IH.
    - intros ts r ts'. rewrite parse_array_expr_S. intros H. solveA IH.
    - intros l ts r ts'. rewrite parse_index_expr_S. intros H.
      destruct l; try discriminate; eapply A_index_body; eauto.
    - intros ts r ts'. rewrite parse_statement_S. intros H.
      okstep. apply A_stmt_head in E; auto. solveA IH.
    - intros ts r ts'. rewrite parse_block_statement_S. intros H. solveA IH.
    - intros ts r ts'. rewrite parse_block_items_S. intros H. solveA IH.
  Qed.

  Lemma A_holds f : A_all f.
  Proof. induction f; auto using A_zero, A_step. Qed.

  (** * B: no OutOfFuel above the potential 3 * length ts + k_F *)

  Record B_all (f : nat) : Prop := {
    B_expr : forall p ts, 3 * length ts + 4 <= f -> parse_expr pf f p ts <> OutOfFuel;
    B_loop : forall p l ts, 3 * length ts + 4 <= f -> parse_loop pf f p l ts <> OutOfFuel;
    B_infix : forall l ts, 3 * length ts + 3 <= f -> parse_infix_expr pf f l ts <> OutOfFuel;
    B_prefix : forall ts, 3 * length ts + 3 <= f -> parse_prefix_expr pf f ts <> OutOfFuel;
    B_if : forall ts, 3 * length ts + 3 <= f -> parse_if_expr pf f ts <> OutOfFuel;
    B_assign : forall l ts, 3 * length ts + 3 <= f -> parse_assign_expr pf f l ts <> OutOfFuel;
    B_function : forall ts, 3 * length ts + 3 <= f -> parse_function_expr pf f ts <> OutOfFuel;
    B_params : forall ts, 3 * length ts + 1 <= f -> parse_params pf f ts <> OutOfFuel;
    B_call : forall l ts, 3 * length ts + 3 <= f -> parse_call_expr pf f l ts <> OutOfFuel;
    B_list : forall c ts, 3 * length ts + 5 <= f -> parse_list pf f c ts <> OutOfFuel;
    B_while : forall ts, 3 * length ts + 3 <= f -> parse_while_expr pf f ts <> OutOfFuel;
    B_array : forall ts, 3 * length ts + 3 <= f -> parse_array_expr pf f ts <> OutOfFuel;
    B_index : forall l ts, 3 * length ts + 3 <= f -> parse_index_expr pf f l ts <> OutOfFuel;
    B_statement : forall ts, 3 * length ts + 5 <= f -> parse_statement pf f ts <> OutOfFuel;
    B_block_statement : forall ts, 3 * length ts + 4 <= f -> parse_block_statement pf f ts <> OutOfFuel;
    B_block_items : forall ts, 3 * length ts + 6 <= f -> parse_block_items pf f ts <> OutOfFuel
  }.

  Lemma int_literal_noof s : int_literal s <> OutOfFuel.
  Proof. unfold int_literal. destruct (parse_digits s 0%N); [destruct (_ <=? _)%Z|]; discriminate. Qed.
  Lemma float_literal_noof s : float_literal pf s <> OutOfFuel.
  Proof. unfold float_literal. destruct (pf s); discriminate. Qed.

  (* every [_ = Ok _] fact in the context becomes a suffix fact *)
  Ltac facts :=
    repeat match goal with
    | H : parse_head _ _ = Ok _ |- _ => apply (A_head _ (A_holds _)) in H
    | H : stmt_head _ _ = Ok _ |- _ => apply (A_stmt_head _ (A_holds _)) in H
    end;
    useA uconstr:(A_holds _);
    lens.


  Ltac noofstep IHB :=
    match goal with
    | |- Ok _ <> OutOfFuel => discriminate
    | |- Err _ <> OutOfFuel => discriminate
    | |- Fault _ <> OutOfFuel => discriminate
    | |- skip _ _ <> OutOfFuel => apply skip_noof
    | |- int_literal _ <> OutOfFuel => apply int_literal_noof
    | |- float_literal _ _ <> OutOfFuel => apply float_literal_noof
    | |- bind _ _ <> OutOfFuel =>
        let a := fresh "a" in let E := fresh "E" in
        apply pt_bind_noof; [ | intros a E; try (destruct a as [? ?]) ]
    | |- context [match ?x with _ => _ end] =>
        lazymatch x with context [match _ with _ => _ end] => fail | _ => idtac end;
        first [ is_var x; destruct x | destruct x eqn:? ]
    | |- parse_expr pf _ _ _ <> OutOfFuel => apply (B_expr _ IHB); facts; lia
    | |- parse_loop pf _ _ _ _ <> OutOfFuel => apply (B_loop _ IHB); facts; lia
    | |- parse_infix_expr pf _ _ _ <> OutOfFuel => apply (B_infix _ IHB); facts; lia
    | |- parse_prefix_expr pf _ _ <> OutOfFuel => apply (B_prefix _ IHB); facts; lia
    | |- parse_if_expr pf _ _ <> OutOfFuel => apply (B_if _ IHB); facts; lia
    | |- parse_assign_expr pf _ _ _ <> OutOfFuel => apply (B_assign _ IHB); facts; lia
    | |- parse_function_expr pf _ _ <> OutOfFuel => apply (B_function _ IHB); facts; lia
    | |- parse_params pf _ _ <> OutOfFuel => apply (B_params _ IHB); facts; lia
    | |- parse_call_expr pf _ _ _ <> OutOfFuel => apply (B_call _ IHB); facts; lia
    | |- parse_list pf _ _ _ <> OutOfFuel => apply (B_list _ IHB); facts; lia
    | |- parse_while_expr pf _ _ <> OutOfFuel => apply (B_while _ IHB); facts; lia
    | |- parse_array_expr pf _ _ <> OutOfFuel => apply (B_array _ IHB); facts; lia
    | |- parse_index_expr pf _ _ _ <> OutOfFuel => apply (B_index _ IHB); facts; lia
    | |- parse_statement pf _ _ <> OutOfFuel => apply (B_statement _ IHB); facts; lia
    | |- parse_block_statement pf _ _ <> OutOfFuel => apply (B_block_statement _ IHB); facts; lia
    | |- parse_block_items pf _ _ <> OutOfFuel => apply (B_block_items _ IHB); facts; lia
    end.

  Ltac solveB IHB := cbn [cur advance tl]; cbv zeta; repeat noofstep IHB.

  (* the empty token list: the function fails (or stops) within two further calls *)
  Ltac nilB f := destruct f as [|[|f]]; first [ discriminate | cbn [length] in *; lia ].

  Lemma B_head f (IHB : B_all f) ts : 3 * length ts + 3 <= f -> parse_head f ts <> OutOfFuel.
  Proof.
    unfold parse_head. intros Hf. destruct ts as [|t ts0]; [discriminate|]. solveB IHB.
  Qed.

  Lemma B_stmt_head f (IHB : B_all f) ts : 3 * length ts + 4 <= f -> stmt_head f ts <> OutOfFuel.
  Proof.
    unfold stmt_head. intros Hf. destruct ts as [|t ts0]; solveB IHB.
  Qed.

  Lemma B_infix_body f (IHB : B_all f) l ts : 3 * length ts + 2 <= f -> infix_body f l ts <> OutOfFuel.
  Proof.
    unfold infix_body. intros Hf. destruct ts as [|t ts0]; [discriminate|]. solveB IHB.
  Qed.

  Lemma B_assign_body f (IHB : B_all f) l ts : 3 * length ts + 2 <= f -> assign_body f l ts <> OutOfFuel.
  Proof.
    unfold assign_body. intros Hf. destruct ts as [|t ts0]; [nilB f|]. solveB IHB.
  Qed.

  Lemma B_index_body f (IHB : B_all f) l ts : 3 * length ts + 2 <= f -> index_body f l ts <> OutOfFuel.
  Proof.
    unfold index_body. intros Hf. destruct ts as [|t ts0]; [nilB f|]. solveB IHB.
  Qed.

  Lemma B_call_body f (IHB : B_all f) l ts : 3 * length ts + 2 <= f -> call_body f l ts <> OutOfFuel.
  Proof.
    unfold call_body. intros Hf. destruct ts as [|t ts0]; [nilB f|]. solveB IHB.
  Qed.


  Lemma B_zero : B_all 0.
  Proof. split; intros; lia. Qed.

  Lemma B_step f : B_all f -> B_all (S f).
  Proof.
    intros IHB. split.
    - intros p ts Hf. rewrite parse_expr_S. apply pt_bind_noof.
      + apply B_head; auto. lia.
      + intros [l ts1] E. solveB IHB.
    - intros p l ts Hf. rewrite parse_loop_S. solveB IHB.
    - intros l ts Hf. rewrite parse_infix_expr_S.
      destruct l; try discriminate; apply B_infix_body; auto; lia.
    - intros ts Hf. rewrite parse_prefix_expr_S. destruct ts as [|t ts0]; [discriminate|]. solveB IHB.
    - intros ts Hf. rewrite parse_if_expr_S. destruct ts as [|t ts0]; [nilB f|]. solveB IHB.
    - intros l ts Hf. rewrite parse_assign_expr_S.
      destruct l; try discriminate; apply B_assign_body; auto; lia.
    - intros ts Hf. rewrite parse_function_expr_S. destruct ts as [|t ts0]; [discriminate|]. solveB IHB.
    - intros ts Hf. rewrite parse_params_S. destruct ts as [|t ts0]; [discriminate|]. solveB IHB.
    - intros l ts Hf. rewrite parse_call_expr_S.
      destruct l; try discriminate; apply B_call_body; auto; lia.
    - intros c ts Hf. rewrite parse_list_S. solveB IHB.
    - intros ts Hf. rewrite parse_while_expr_S. destruct ts as [|t ts0]; [nilB f|]. solveB IHB.
    - intros ts Hf. rewrite parse_array_expr_S. destruct ts as [|t ts0]; [nilB f|]. solveB IHB.
    - intros l ts Hf. rewrite parse_index_expr_S.
      destruct l; try discriminate; apply B_index_body; auto; lia.
    - intros ts Hf. rewrite parse_statement_S. apply pt_bind_noof.
      + apply B_stmt_head; auto. lia.
      + intros [s ts1] E. discriminate.
    - intros ts Hf. rewrite parse_block_statement_S. solveB IHB.
    - intros ts Hf. rewrite parse_block_items_S. solveB IHB.
  Qed.

  Lemma B_holds f : B_all f.
  Proof. induction f; auto using B_zero, B_step. Qed.

  Lemma program_noof f : forall ts, 3 * length ts + 6 <= f -> parse_program pf f ts <> OutOfFuel.
  Proof.
    induction f as [|f IHf]; intros ts Hf; [lia|].
    rewrite parse_program_S. pose proof (B_holds f) as IHB.
    destruct (is_fix KEof (cur ts)); [discriminate|].
    apply pt_bind_noof; [solveB IHB|]. intros [s ts1] E.
    apply pt_bind_noof; [|discriminate]. apply IHf. facts. lia.
  Qed.

  (** The smallest linear bound this proof gives: three units of fuel per token
      (attained by [ [ [ ... and { { { ..., see the examples at the end). *)
  Theorem parse_terminates_bound :
    forall ts fuel, 3 * length ts + 6 <= fuel -> parse_program pf fuel ts <> OutOfFuel.
  Proof. intros ts fuel. apply program_noof. Qed.

  Theorem parse_terminates : forall ts, parse_tokens pf ts <> OutOfFuel.
  Proof. intros ts. unfold parse_tokens, fuel_for. apply program_noof. lia. Qed.


  (** * C: no Fault when the oracle accepts every float literal of the input *)

  Definition good (t : token) : Prop :=
    match t with TFloatLit s => pf s <> None | _ => True end.

  Record C_all (f : nat) : Prop := {
    C_expr : forall p ts, Forall good ts -> nofault (parse_expr pf f p ts);
    C_loop : forall p l ts, Forall good ts -> nofault (parse_loop pf f p l ts);
    C_infix : forall l ts, Forall good ts -> operator_of (cur ts) <> None ->
                           nofault (parse_infix_expr pf f l ts);
    C_prefix : forall ts, Forall good ts -> operator_of (cur ts) <> None ->
                          nofault (parse_prefix_expr pf f ts);
    C_if : forall ts, Forall good ts -> nofault (parse_if_expr pf f ts);
    C_assign : forall l ts, Forall good ts -> nofault (parse_assign_expr pf f l ts);
    C_function : forall ts, Forall good ts -> nofault (parse_function_expr pf f ts);
    C_params : forall ts, Forall good ts -> nofault (parse_params pf f ts);
    C_call : forall l ts, Forall good ts -> nofault (parse_call_expr pf f l ts);
    C_list : forall c ts, Forall good ts -> nofault (parse_list pf f c ts);
    C_while : forall ts, Forall good ts -> nofault (parse_while_expr pf f ts);
    C_array : forall ts, Forall good ts -> nofault (parse_array_expr pf f ts);
    C_index : forall l ts, Forall good ts -> nofault (parse_index_expr pf f l ts);
    C_statement : forall ts, Forall good ts -> nofault (parse_statement pf f ts);
    C_block_statement : forall ts, Forall good ts -> nofault (parse_block_statement pf f ts);
    C_block_items : forall ts, Forall good ts -> nofault (parse_block_items pf f ts)
  }.

  Lemma int_literal_nofault s : nofault (int_literal s).
  Proof.
    unfold int_literal. destruct (parse_digits s 0%N); [destruct (_ <=? _)%Z|]; intros x; discriminate.
  Qed.
  Lemma float_literal_nofault s ts : Forall good (TFloatLit s :: ts) -> nofault (float_literal pf s).
  Proof.
    intros H. inversion H as [|? ? Hs _]; subst. cbn in Hs.
    unfold float_literal. destruct (pf s); [intros x; discriminate | congruence].
  Qed.

  (* Operator::from is defined on every token the parser passes to it (computed from the tables) *)
  Lemma infix_has_operator t : is_infix_token t = true -> operator_of t <> None.
  Proof.
    destruct t as [s|s|s|s|k]; try discriminate.
    destruct k; vm_compute; intros H; try discriminate H; intros H2; discriminate H2.
  Qed.
  Lemma prefix_has_operator : operator_of (TFix KBang) <> None /\ operator_of (TFix KMinus) <> None.
  Proof. split; vm_compute; discriminate. Qed.

  (* [Forall good X] for a remainder X of the input *)
  Ltac goodgoal :=
    match goal with
    | Hg : Forall good ?ts |- Forall good _ =>
        apply (sfx_Forall good _ ts); [ facts; chain | exact Hg ]
    end.

  Ltac nofaultstep IHC :=
    match goal with
    | |- nofault (Ok _) => apply nofault_ok
    | |- nofault (Err _) => apply nofault_err
    | |- nofault (skip _ _) => apply skip_nofault
    | |- nofault (int_literal _) => apply int_literal_nofault
    | |- nofault (float_literal _ _) => eapply float_literal_nofault; eassumption
    | |- nofault (bind _ _) =>
        let a := fresh "a" in let E := fresh "E" in
        apply pt_bind_nofault; [ | intros a E; try (destruct a as [? ?]) ]
    | |- context [match ?x with _ => _ end] =>
        lazymatch x with context [match _ with _ => _ end] => fail | _ => idtac end;
        first [ is_var x; destruct x | destruct x eqn:? ]
    | |- nofault (parse_expr pf _ _ _) => apply (C_expr _ IHC); goodgoal
    | |- nofault (parse_loop pf _ _ _ _) => apply (C_loop _ IHC); goodgoal
    | |- nofault (parse_infix_expr pf _ _ _) =>
        apply (C_infix _ IHC); [ goodgoal | apply infix_has_operator; assumption ]
    | |- nofault (parse_prefix_expr pf _ _) =>
        apply (C_prefix _ IHC); [ goodgoal | apply prefix_has_operator ]
    | |- nofault (parse_if_expr pf _ _) => apply (C_if _ IHC); goodgoal
    | |- nofault (parse_assign_expr pf _ _ _) => apply (C_assign _ IHC); goodgoal
    | |- nofault (parse_function_expr pf _ _) => apply (C_function _ IHC); goodgoal
    | |- nofault (parse_params pf _ _) => apply (C_params _ IHC); goodgoal
    | |- nofault (parse_call_expr pf _ _ _) => apply (C_call _ IHC); goodgoal
    | |- nofault (parse_list pf _ _ _) => apply (C_list _ IHC); goodgoal
    | |- nofault (parse_while_expr pf _ _) => apply (C_while _ IHC); goodgoal
    | |- nofault (parse_array_expr pf _ _) => apply (C_array _ IHC); goodgoal
    | |- nofault (parse_index_expr pf _ _ _) => apply (C_index _ IHC); goodgoal
    | |- nofault (parse_statement pf _ _) => apply (C_statement _ IHC); goodgoal
    | |- nofault (parse_block_statement pf _ _) => apply (C_block_statement _ IHC); goodgoal
    | |- nofault (parse_block_items pf _ _) => apply (C_block_items _ IHC); goodgoal
    end.

  Ltac solveC IHC := cbn [cur advance tl]; cbv zeta; repeat nofaultstep IHC.

  Lemma C_head f (IHC : C_all f) ts : Forall good ts -> nofault (parse_head f ts).
  Proof.
    unfold parse_head. intros Hg. destruct ts as [|t ts0]; [apply nofault_err|]. solveC IHC.
  Qed.


  Lemma C_stmt_head f (IHC : C_all f) ts : Forall good ts -> nofault (stmt_head f ts).
  Proof.
    unfold stmt_head. intros Hg. destruct ts as [|t ts0]; solveC IHC.
  Qed.

  Lemma C_infix_body f (IHC : C_all f) l ts :
    Forall good ts -> operator_of (cur ts) <> None -> nofault (infix_body f l ts).
  Proof.
    unfold infix_body. intros Hg Hop. destruct (operator_of (cur ts)) as [op|]; [|congruence].
    clear Hop. solveC IHC.
  Qed.

  Lemma C_assign_body f (IHC : C_all f) l ts : Forall good ts -> nofault (assign_body f l ts).
  Proof. unfold assign_body. intros Hg. solveC IHC. Qed.

  Lemma C_index_body f (IHC : C_all f) l ts : Forall good ts -> nofault (index_body f l ts).
  Proof. unfold index_body. intros Hg. solveC IHC. Qed.

  Lemma C_call_body f (IHC : C_all f) l ts : Forall good ts -> nofault (call_body f l ts).
  Proof. unfold call_body. intros Hg. solveC IHC. Qed.

  Lemma C_zero : C_all 0.
  Proof. split; intros; intros x; discriminate. Qed.

  Lemma C_step f : C_all f -> C_all (S f).
  Proof.
    intros IHC. split.
    - intros p ts Hg. rewrite parse_expr_S. apply pt_bind_nofault.
      + apply C_head; auto.
      + intros [l ts1] E. solveC IHC.
    - intros p l ts Hg. rewrite parse_loop_S. solveC IHC.
    - intros l ts Hg Hop. rewrite parse_infix_expr_S.
      destruct l; try apply nofault_err; apply C_infix_body; auto.
    - intros ts Hg Hop. rewrite parse_prefix_expr_S.
      destruct (operator_of (cur ts)) as [op|]; [|congruence]. clear Hop. solveC IHC.
    - intros ts Hg. rewrite parse_if_expr_S. solveC IHC.
    - intros l ts Hg. rewrite parse_assign_expr_S.
      destruct l; try apply nofault_err; apply C_assign_body; auto.
    - intros ts Hg. rewrite parse_function_expr_S. solveC IHC.
    - intros ts Hg. rewrite parse_params_S. solveC IHC.
    - intros l ts Hg. rewrite parse_call_expr_S.
      destruct l; try apply nofault_err; apply C_call_body; auto.
    - intros c ts Hg. rewrite parse_list_S. solveC IHC.
    - intros ts Hg. rewrite parse_while_expr_S. solveC IHC.
    - intros ts Hg. rewrite parse_array_expr_S. solveC IHC.
    - intros l ts Hg. rewrite parse_index_expr_S.
      destruct l; try apply nofault_err; apply C_index_body; auto.
    - intros ts Hg. rewrite parse_statement_S. apply pt_bind_nofault.
      + apply C_stmt_head; auto.
      + intros [s ts1] E. apply nofault_ok.
    - intros ts Hg. rewrite parse_block_statement_S. solveC IHC.
    - intros ts Hg. rewrite parse_block_items_S. solveC IHC.
  Qed.

  Lemma C_holds f : C_all f.
  Proof. induction f; auto using C_zero, C_step. Qed.

  Lemma program_nofault f : forall ts, Forall good ts -> nofault (parse_program pf f ts).
  Proof.
    induction f as [|f IHf]; intros ts Hg; [intros x; discriminate|].
    rewrite parse_program_S. pose proof (C_holds f) as IHC.
    destruct (is_fix KEof (cur ts)); [apply nofault_ok|].
    apply pt_bind_nofault; [solveC IHC|]. intros [s ts1] E.
    apply pt_bind_nofault; [|intros; apply nofault_ok]. apply IHf. goodgoal.
  Qed.

  Lemma good_of_in ts : (forall s, In (TFloatLit s) ts -> pf s <> None) -> Forall good ts.
  Proof.
    intros H. apply Forall_forall. intros t Ht. destruct t; cbn; auto.
  Qed.

  Theorem parse_no_panic :
    forall ts, (forall s, In (TFloatLit s) ts -> pf s <> None) ->
    forall f, parse_tokens pf ts <> Fault f.
  Proof. intros ts H. apply program_nofault, good_of_in, H. Qed.

  (** the parser always answers: a syntax tree or one of the documented errors *)
  Corollary parse_total :
    forall ts, (forall s, In (TFloatLit s) ts -> pf s <> None) ->
    (exists b, parse_tokens pf ts = Ok b) \/ (exists k, parse_tokens pf ts = Err k).
  Proof.
    intros ts H. pose proof (parse_terminates ts) as H1. pose proof (parse_no_panic ts H) as H2.
    destruct (parse_tokens pf ts) as [b|k|x|]; eauto; [destruct (H2 x) | destruct H1]; reflexivity.
  Qed.


  (** conversely, the only way to a Fault is a float literal the oracle rejects *)
  Lemma good_dec ts : Forall good ts \/ exists s, In (TFloatLit s) ts /\ pf s = None.
  Proof.
    induction ts as [|t ts [IH|(s & Hin & Hs)]].
    - left; constructor.
    - destruct t as [s|s|s|s|k]; try (left; constructor; [exact I|assumption]).
      destruct (pf s) eqn:E.
      + left; constructor; [cbn; congruence|assumption].
      + right; exists s; split; [left; reflexivity|assumption].
    - right; exists s; split; [right; assumption|assumption].
  Qed.

  Theorem parse_fault_only_float :
    forall ts x, parse_tokens pf ts = Fault x -> exists s, In (TFloatLit s) ts /\ pf s = None.
  Proof.
    intros ts x H. destruct (good_dec ts) as [Hg|Hex]; [|assumption].
    exfalso. exact (program_nofault _ ts Hg x H).
  Qed.

  (** The slope 3 cannot be improved: n >= 1 opening brackets exhaust 3 * n + 2 units of fuel
      (chain parse_expr -> parse_array_expr -> parse_list -> parse_expr, one token per round). *)
  Lemma expr_tight k : forall f p,
    f <= 3 * k -> parse_expr pf f p (repeat (TFix KOpenBracket) k) = OutOfFuel.
  Proof.
    induction k as [|k IH]; intros f p Hf.
    - assert (f = 0) as -> by lia. reflexivity.
    - cbn [repeat]. destruct f as [|[|[|f]]]; try reflexivity.
      rewrite parse_expr_S. unfold parse_head. cbn [cur]. cbv iota.
      rewrite parse_array_expr_S. cbn [advance tl]. rewrite parse_list_S.
      replace (is_fix KCloseBracket (cur (repeat (TFix KOpenBracket) k))) with false
        by (destruct k; reflexivity).
      rewrite IH by lia. reflexivity.
  Qed.

  Theorem parse_fuel_tight n :
    n <> 0 -> parse_program pf (3 * n + 2) (repeat (TFix KOpenBracket) n) = OutOfFuel.
  Proof.
    intros Hn. destruct n as [|k]; [congruence|].
    replace (3 * S k + 2) with (S (S (3 * S k))) by lia.
    rewrite parse_program_S.
    replace (is_fix KEof (cur (repeat (TFix KOpenBracket) (S k)))) with false by reflexivity.
    rewrite parse_statement_S. unfold stmt_head. cbn [repeat cur]. cbv iota.
    rewrite (expr_tight (S k)) by lia. reflexivity.
  Qed.

End PT.

(** Consequences of invariant A in the form most useful elsewhere *)
Corollary parse_expr_consumes pf f p ts e ts' :
  parse_expr pf f p ts = Ok (e, ts') -> (exists pre, ts = pre ++ ts') /\ length ts' < length ts.
Proof. intros H. apply (A_expr pf f (A_holds pf f)) in H. exact H. Qed.

Corollary parse_statement_consumes pf f ts st ts' :
  parse_statement pf f ts = Ok (st, ts') -> (exists pre, ts = pre ++ ts') /\ length ts' < length ts.
Proof. intros H. apply (A_statement pf f (A_holds pf f)) in H. exact H. Qed.

(** * Part 3: the lexer *)

Local Open Scope Z_scope.

Lemma utf8_fold s : forall a, fold_left (fun acc c => acc + utf8_len1 c) s a = a + utf8_len s.
Proof.
  unfold utf8_len. induction s as [|c s IH]; intros a; cbn [fold_left]; [lia|].
  rewrite IH, (IH (0 + _)). lia.
Qed.
Lemma utf8_len_nil : utf8_len [] = 0. Proof. reflexivity. Qed.
Lemma utf8_len_cons c s : utf8_len (c :: s) = utf8_len1 c + utf8_len s.
Proof. unfold utf8_len at 1. cbn [fold_left]. rewrite utf8_fold. lia. Qed.
Lemma utf8_len_app a b : utf8_len (a ++ b) = utf8_len a + utf8_len b.
Proof. induction a as [|c a IH]; cbn [app]; rewrite ?utf8_len_cons, ?utf8_len_nil; lia. Qed.
Lemma utf8_len1_pos c : 1 <= utf8_len1 c.
Proof. unfold utf8_len1. repeat destruct (_ <? _)%N; lia. Qed.
Lemma utf8_len_nonneg s : 0 <= utf8_len s.
Proof. induction s as [|c s IH]; rewrite ?utf8_len_cons, ?utf8_len_nil; [lia|]. pose proof (utf8_len1_pos c). lia. Qed.

Section LexTotal.
  Variable u : unicode.

  Lemma span_app p s : forall a rest, span p s = (a, rest) -> s = a ++ rest.
  Proof.
    induction s as [|c s IH]; cbn [span]; intros a rest H.
    - inversion H; reflexivity.
    - destruct (p c).
      + destruct (span p s) as [a0 b0]. inversion H; subst. cbn. f_equal. auto.
      + inversion H; reflexivity.
  Qed.

  Lemma span_number_app s : forall d a rest d', span_number d s = (a, rest, d') -> s = a ++ rest.
  Proof.
    induction s as [|c s IH]; cbn [span_number]; intros d a rest d' H.
    - inversion H; reflexivity.
    - destruct (is_digit c).
      + destruct (span_number d s) as [[a0 b0] d0] eqn:E. inversion H; subst. cbn. f_equal. eauto.
      + destruct (negb d && (c =? 46)%N).
        * destruct (span_number true s) as [[a0 b0] d0] eqn:E. inversion H; subst. cbn. f_equal. eauto.
        * inversion H; reflexivity.
  Qed.

  Lemma span_string_app s : forall e a rest, span_string e s = (a, rest) -> s = a ++ rest.
  Proof.
    induction s as [|c s IH]; cbn [span_string]; intros e a rest H.
    - inversion H; reflexivity.
    - destruct (negb (c =? 34)%N || e).
      + destruct (span_string _ s) as [a0 b0] eqn:E. inversion H; subst. cbn. f_equal. eauto.
      + inversion H; reflexivity.
  Qed.

  (* one step of Tokenizer::next, the recursive call abstracted *)
  Definition nt_body (rec : text -> Z -> option (token * text * Z)) (c : cp) (r : text) (pos : Z)
    : option (token * text * Z) :=
    let pos1 := pos + utf8_len1 c in
    if ident_start u c then
      let '(a, rest) := span (ident_char u) r in
      Some (keyword_or_ident (c :: a), rest, pos1 + utf8_len a)
    else if is_digit c then
      let '(a, rest, dec) := span_number false r in
      Some (if dec : bool then TFloatLit (c :: a) else TIntLit (c :: a), rest, pos1 + utf8_len a)
    else if (c =? 34)%N then
      let '(a, rest) := span_string false r in
      match rest with
      | [] => Some (TFix KIllegal, [], pos1 + utf8_len a)
      | q :: rest' => Some (TStringLit a, rest', pos1 + utf8_len a + utf8_len1 q)
      end
    else if is_ws c then rec r pos1
    else if (c =? 47)%N then
      match r with
      | 47%N :: _ =>
          let '(a, rest) := span (fun x => negb (x =? 10)%N) r in
          rec rest (pos1 + utf8_len a)
      | _ => Some (TFix KSlash, r, pos1)
      end
    else
      match find_double c double_tokens with
      | Some (second, t, els) =>
          let matched := match r with x :: _ => (x =? second)%N | [] => false end in
          let tok := if matched then Some t else els in
          match tok with
          | None => Some (TFix KIllegal, r, pos1)
          | Some k =>
              if is_two_char k then
                match r with
                | x :: r' => Some (TFix k, r', pos1 + utf8_len1 x)
                | [] => Some (TFix k, [], pos1)
                end
              else Some (TFix k, r, pos1)
          end
      | None =>
          match assoc N.eqb c single_tokens with
          | Some k => Some (TFix k, r, pos1)
          | None => Some (TFix KIllegal, r, pos1)
          end
      end.

  Lemma next_token_S f c r pos : next_token u (S f) (c :: r) pos = nt_body (next_token u f) c r pos.
  Proof. reflexivity. Qed.
  Lemma next_token_nil f pos : next_token u f [] pos = None.
  Proof. destruct f; reflexivity. Qed.

  Definition starts_slash (r : text) : bool :=
    match r with x :: _ => (x =? 47)%N | [] => false end.

  Lemma slash_match {A} (r : text) (k1 k2 : A) :
    match r with 47%N :: _ => k1 | _ => k2 end = if starts_slash r then k1 else k2.
  Proof.
    destruct r as [|x r']; [reflexivity|]. cbn [starts_slash].
    destruct (N.eqb_spec x 47) as [->|Hne]; [reflexivity|].
    destruct x as [|q]; [reflexivity|].
    repeat match goal with
           | |- context [match ?q with _ => _ end] => is_var q; destruct q; try reflexivity
           end.
    congruence.
  Qed.

  (* [rest] is what remains of [s] after a non-empty prefix, whose UTF-8 length moved the offset *)
  Definition consumed (s : text) (pos : Z) (rest : text) (pos' : Z) : Prop :=
    exists pre, s = pre ++ rest /\ pre <> [] /\ pos' = pos + utf8_len pre.

  Lemma consumed_intro pre rest pos pos' :
    pre <> [] -> pos' = pos + utf8_len pre -> consumed (pre ++ rest) pos rest pos'.
  Proof. intros; exists pre; auto. Qed.

  Lemma consumed_app pre0 s pos rest pos' :
    consumed s (pos + utf8_len pre0) rest pos' -> consumed (pre0 ++ s) pos rest pos'.
  Proof.
    intros (pre & -> & Hne & ->). exists (pre0 ++ pre). rewrite app_assoc, utf8_len_app.
    repeat split; [|lia]. destruct pre0; cbn; [assumption|discriminate].
  Qed.

  Ltac utf8 :=
    repeat first [ rewrite utf8_len_cons | rewrite utf8_len_app | rewrite utf8_len_nil ]; lia.

  Lemma nt_body_spec rec c r pos t rest pos' :
    (forall s' p t rest pos', (length s' <= length r)%nat ->
        rec s' p = Some (t, rest, pos') -> consumed s' p rest pos') ->
    nt_body rec c r pos = Some (t, rest, pos') -> consumed (c :: r) pos rest pos'.
  Proof.
    intros Hrec. unfold nt_body. cbv zeta.
    destruct (ident_start u c).
    { destruct (span (ident_char u) r) as [a b] eqn:E. apply span_app in E. subst r.
      intros H; inversion H; subst. apply (consumed_intro (c :: a)); [discriminate|utf8]. }
    destruct (is_digit c).
    { destruct (span_number false r) as [[a b] d] eqn:E. apply span_number_app in E. subst r.
      intros H; inversion H; subst. apply (consumed_intro (c :: a)); [discriminate|utf8]. }
    destruct (c =? 34)%N.
    { destruct (span_string false r) as [a b] eqn:E. apply span_string_app in E. subst r.
      destruct b as [|q b]; intros H; inversion H; subst.
      - apply (consumed_intro (c :: a)); [discriminate|utf8].
      - replace (c :: a ++ q :: rest) with ((c :: a ++ [q]) ++ rest)
          by (cbn; rewrite <- app_assoc; reflexivity).
        apply consumed_intro; [discriminate|utf8]. }
    destruct (is_ws c).
    { intros H. apply Hrec in H; [|lia]. apply (consumed_app [c]). revert H. rewrite utf8_len_cons, utf8_len_nil.
      replace (pos + (utf8_len1 c + 0)) with (pos + utf8_len1 c) by lia. auto. }
    destruct (c =? 47)%N.
    { rewrite slash_match. destruct (starts_slash r).
      - destruct (span _ r) as [a b] eqn:E. apply span_app in E. subst r.
        intros H. apply Hrec in H; [|rewrite app_length; lia].
        apply (consumed_app (c :: a)). revert H. rewrite utf8_len_cons.
        replace (pos + (utf8_len1 c + utf8_len a)) with (pos + utf8_len1 c + utf8_len a) by lia. auto.
      - intros H; inversion H; subst. apply (consumed_intro [c]); [discriminate|utf8]. }
    destruct (find_double c double_tokens) as [[[second t0] els]|].
    { destruct (if match r with x :: _ => (x =? second)%N | [] => false end then Some t0 else els) as [k|].
      - destruct (is_two_char k).
        + destruct r as [|x r']; intros H; inversion H; subst.
          * apply (consumed_intro [c]); [discriminate|utf8].
          * apply (consumed_intro [c; x]); [discriminate|utf8].
        + intros H; inversion H; subst. apply (consumed_intro [c]); [discriminate|utf8].
      - intros H; inversion H; subst. apply (consumed_intro [c]); [discriminate|utf8]. }
    destruct (assoc N.eqb c single_tokens); intros H; inversion H; subst;
      apply (consumed_intro [c]); (discriminate || utf8).
  Qed.

  Theorem next_token_consumes fuel : forall s pos t rest pos',
    next_token u fuel s pos = Some (t, rest, pos') -> consumed s pos rest pos'.
  Proof.
    induction fuel as [|f IH]; intros s pos t rest pos' H; [discriminate|].
    destruct s as [|c r]; [discriminate|].
    rewrite next_token_S in H. eapply nt_body_spec; eauto.
  Qed.

  Corollary next_token_shrinks fuel s pos t rest pos' :
    next_token u fuel s pos = Some (t, rest, pos') -> (length rest < length s)%nat.
  Proof.
    intros H. apply next_token_consumes in H. destruct H as (pre & -> & Hne & _).
    rewrite app_length. destruct pre; [congruence|cbn; lia].
  Qed.

  Corollary next_token_offset fuel s pos t rest pos' :
    next_token u fuel s pos = Some (t, rest, pos') ->
    pos < pos' /\ pos' + utf8_len rest = pos + utf8_len s.
  Proof.
    intros H. apply next_token_consumes in H. destruct H as (pre & -> & Hne & ->).
    rewrite utf8_len_app. split; [|lia]. destruct pre as [|c pre]; [congruence|].
    rewrite utf8_len_cons. pose proof (utf8_len1_pos c). pose proof (utf8_len_nonneg pre). lia.
  Qed.

  (** the fuel of next_token is irrelevant once it exceeds the length of the input *)
  Lemma nt_body_ext rec1 rec2 c r pos :
    (forall s' p, (length s' <= length r)%nat -> rec1 s' p = rec2 s' p) ->
    nt_body rec1 c r pos = nt_body rec2 c r pos.
  Proof.
    intros Hrec. unfold nt_body. cbv zeta.
    destruct (ident_start u c); [reflexivity|].
    destruct (is_digit c); [reflexivity|].
    destruct (c =? 34)%N; [reflexivity|].
    destruct (is_ws c); [apply Hrec; lia|].
    destruct (c =? 47)%N; [|reflexivity].
    rewrite !slash_match. destruct (starts_slash r); [|reflexivity].
    destruct (span _ r) as [a b] eqn:E. apply span_app in E. subst r.
    apply Hrec. rewrite app_length. lia.
  Qed.

  Theorem next_token_fuel f1 : forall f2 s pos,
    (length s < f1)%nat -> (length s < f2)%nat -> next_token u f1 s pos = next_token u f2 s pos.
  Proof.
    induction f1 as [|f1 IH]; intros f2 s pos H1 H2; [lia|].
    destruct f2 as [|f2]; [lia|].
    destruct s as [|c r]; [reflexivity|]. cbn [length] in *.
    rewrite !next_token_S. apply nt_body_ext. intros s' p Hs'. apply IH; lia.
  Qed.

  (** texts that consist of white space and comments only, as the tokenizer classifies them *)
  Inductive blank : text -> Prop :=
  | blank_nil : blank []
  | blank_ws c r :
      ident_start u c = false -> is_digit c = false -> (c =? 34)%N = false -> is_ws c = true ->
      blank r -> blank (c :: r)
  | blank_comment r a rest :        (* "//", the line up to (not including) the next line feed *)
      span (fun x => negb (x =? 10)%N) r = (a, rest) -> blank rest -> blank (47%N :: 47%N :: r).

  Lemma nt_body_none rec c r pos :
    (forall s' p, (length s' <= length r)%nat -> rec s' p = None -> blank s') ->
    nt_body rec c r pos = None -> blank (c :: r).
  Proof.
    intros Hrec. unfold nt_body. cbv zeta.
    destruct (ident_start u c) eqn:E1.
    { destruct (span (ident_char u) r); discriminate. }
    destruct (is_digit c) eqn:E2.
    { destruct (span_number false r) as [[a b] d]; discriminate. }
    destruct (c =? 34)%N eqn:E3.
    { destruct (span_string false r) as [a [|q b]]; discriminate. }
    destruct (is_ws c) eqn:E4.
    { intros H. apply blank_ws; auto. eapply Hrec; eauto. }
    destruct (c =? 47)%N eqn:E5.
    { apply N.eqb_eq in E5. subst c. rewrite slash_match.
      destruct r as [|x r']; cbn [starts_slash]; [discriminate|].
      destruct (N.eqb_spec x 47) as [->|Hne]; [|discriminate].
      cbn [span]. change (negb (47 =? 10)%N) with true. cbv iota.
      destruct (span _ r') as [a b] eqn:E. intros H.
      apply blank_comment with a b; auto. eapply Hrec; eauto.
      apply span_app in E. subst r'. cbn [length]. rewrite app_length. lia. }
    destruct (find_double c double_tokens) as [[[second t0] els]|].
    { destruct (if match r with x :: _ => (x =? second)%N | [] => false end then Some t0 else els) as [k|];
        [|discriminate].
      destruct (is_two_char k); [destruct r|]; discriminate. }
    destruct (assoc N.eqb c single_tokens); discriminate.
  Qed.

  Theorem next_token_none fuel : forall s pos,
    (length s < fuel)%nat -> next_token u fuel s pos = None -> blank s.
  Proof.
    induction fuel as [|f IH]; intros s pos Hf H; [lia|].
    destruct s as [|c r]; [constructor|]. cbn [length] in Hf.
    rewrite next_token_S in H. eapply nt_body_none; eauto.
    intros s' p Hs'. apply IH. lia.
  Qed.

  Theorem blank_next_token_none s : blank s ->
    forall fuel pos, (length s < fuel)%nat -> next_token u fuel s pos = None.
  Proof.
    induction 1 as [|c r E1 E2 E3 E4 Hb IH|r a rest E Hb IH]; intros fuel pos Hf.
    - apply next_token_nil.
    - destruct fuel as [|f]; [lia|]. cbn [length] in Hf. rewrite next_token_S. unfold nt_body. cbv zeta.
      rewrite E1, E2, E3, E4. apply IH. lia.
    - destruct fuel as [|f]; [lia|]. cbn [length] in Hf. rewrite next_token_S. unfold nt_body. cbv zeta.
      change (ident_start u 47%N) with false. change (is_digit 47%N) with false.
      change (47 =? 34)%N with false. change (is_ws 47%N) with false. change (47 =? 47)%N with true.
      cbv iota. cbn [span]. change (negb (47 =? 10)%N) with true. cbv iota. rewrite E.
      apply IH. apply span_app in E. subst r. rewrite app_length in Hf. lia.
  Qed.

  (** (a) as one statement about the fuel the lexer actually uses *)
  Theorem next_token_total s pos :
    match next_token u (S (length s)) s pos with
    | None => blank s
    | Some (t, rest, pos') =>
        (length rest < length s)%nat /\ pos < pos' /\ pos' + utf8_len rest = pos + utf8_len s
    end.
  Proof.
    destruct (next_token u (S (length s)) s pos) as [[[t rest] pos']|] eqn:E.
    - split; [eapply next_token_shrinks; eauto | eapply next_token_offset; eauto].
    - eapply next_token_none; [|exact E]; lia.
  Qed.

  (** (b) a complete tokenization: steps of next_token until only white space and comments remain *)
  Inductive tokenizes : text -> Z -> list (token * Z) -> Prop :=
  | tk_done s pos : blank s -> tokenizes s pos []
  | tk_step s pos t rest pos' l :
      next_token u (S (length s)) s pos = Some (t, rest, pos') ->
      tokenizes rest pos' l -> tokenizes s pos ((t, pos') :: l).

  Lemma lex_fuel_tokenizes fuel : forall s pos,
    (length s < fuel)%nat -> tokenizes s pos (lex_fuel u fuel s pos).
  Proof.
    induction fuel as [|f IH]; intros s pos Hf; [lia|]. cbn [lex_fuel].
    destruct (next_token u (S (length s)) s pos) as [[[t rest] pos']|] eqn:E.
    - eapply tk_step; eauto. apply IH. apply next_token_shrinks in E. lia.
    - apply tk_done. eapply next_token_none; [|exact E]; lia.
  Qed.

  Lemma tokenizes_fun s pos l1 : tokenizes s pos l1 -> forall l2, tokenizes s pos l2 -> l1 = l2.
  Proof.
    induction 1 as [s pos Hb|s pos t rest pos' l E Ht IH]; intros l2 H2; inversion H2; subst.
    - reflexivity.
    - rewrite blank_next_token_none in H by (auto; lia). discriminate.
    - rewrite blank_next_token_none in E by (auto; lia). discriminate.
    - rewrite E in H. inversion H; subst. f_equal. auto.
  Qed.

  (** the lexer stops only because next_token found nothing but white space and comments *)
  Theorem lex_complete s : tokenizes s 0 (lex u s).
  Proof. apply lex_fuel_tokenizes. lia. Qed.

  (** more fuel would not produce more tokens *)
  Theorem lex_fuel_irrelevant fuel s pos :
    (length s < fuel)%nat -> lex_fuel u fuel s pos = lex_fuel u (S (length s)) s pos.
  Proof.
    intros Hf. eapply tokenizes_fun; apply lex_fuel_tokenizes; lia.
  Qed.

  (** (c) byte offsets *)
  Lemma tokenizes_offsets s pos l : tokenizes s pos l ->
    StronglySorted Z.lt (pos :: map snd l) /\ Forall (fun p => p <= pos + utf8_len s) (map snd l).
  Proof.
    induction 1 as [s pos Hb|s pos t rest pos' l E Ht [IH1 IH2]]; cbn [map snd].
    - split; repeat constructor.
    - apply next_token_offset in E. destruct E as [Hlt Hsum].
      assert (Hall : Forall (Z.lt pos) (pos' :: map snd l)).
      { constructor; [assumption|]. inversion IH1 as [|? ? _ Hfa]; subst.
        eapply Forall_impl; [|exact Hfa]. cbv beta. intros; lia. }
      split.
      + constructor; assumption.
      + constructor.
        * pose proof (utf8_len_nonneg rest). lia.
        * eapply Forall_impl; [|exact IH2]. cbv beta. intros; lia.
  Qed.

  Theorem lex_offsets_increasing s : StronglySorted Z.lt (0 :: map snd (lex u s)).
  Proof. apply (tokenizes_offsets s 0), lex_complete. Qed.

  Theorem lex_offsets_bounded s : Forall (fun p => 0 < p <= utf8_len s) (map snd (lex u s)).
  Proof.
    destruct (tokenizes_offsets s 0 _ (lex_complete s)) as [H1 H2].
    inversion H1 as [|? ? _ Hfa]; subst.
    apply Forall_forall. intros p Hp.
    rewrite Forall_forall in Hfa, H2. specialize (Hfa p Hp). specialize (H2 p Hp). cbv beta in *. lia.
  Qed.

End LexTotal.

(** * Examples (non-vacuity) *)

Module PTExamples.
  Definition u0 : unicode := mkUnicode (fun _ => false) (fun _ => false).
  Definition pf_none : text -> option float := fun _ => None.
  Definition pf_some : text -> option float := fun _ => Some 1.5%float.
  Local Open Scope nat_scope.
  Local Open Scope string_scope.

  (* the input on which the original Rust parameter loop did not advance *)
  Example ex_functie_paren :
    tokens u0 (str_cps "functie (") = [TFix KFunc; TFix KOpenParen]
    /\ parse_tokens pf_none (tokens u0 (str_cps "functie (")) = Err ESyntaxError.
  Proof. split; vm_compute; reflexivity. Qed.

  Example ex_unclosed :
    parse_tokens pf_none (tokens u0 (str_cps "f(1, [2, {")) = Err ESyntaxError.
  Proof. vm_compute; reflexivity. Qed.

  (* the hypothesis of parse_no_panic is satisfiable by an input with float literals, and the
     parser answers Ok; with an oracle that rejects the literal the model panics, so the
     hypothesis cannot be dropped *)
  Example ex_float_ok :
    let ts := tokens u0 (str_cps "stel x = 1.5; x = f(x, [2.5][0])") in
    (forall s, In (TFloatLit s) ts -> pf_some s <> None)
    /\ In (TFloatLit (str_cps "1.5")) ts
    /\ exists b, parse_tokens pf_some ts = Ok b.
  Proof.
    cbv zeta. split; [intros; discriminate|]. split; [vm_compute; tauto|].
    eexists. vm_compute. reflexivity.
  Qed.

  Example ex_float_fault :
    parse_tokens pf_none (tokens u0 (str_cps "stel x = 1.5;")) = Fault FUnwrap.
  Proof. vm_compute; reflexivity. Qed.

  (* three units of fuel per token are necessary: n opening brackets need 3 * n + 3 *)
  Example ex_tight_10 :
    let ts := repeat (TFix KOpenBracket) 10 in
    parse_program pf_none 32 ts = OutOfFuel /\ parse_program pf_none 33 ts = Err ESyntaxError.
  Proof. split; vm_compute; reflexivity. Qed.
  Example ex_tight_40 :
    let ts := repeat (TFix KOpenBracket) 40 in
    parse_program pf_none 122 ts = OutOfFuel /\ parse_program pf_none 123 ts = Err ESyntaxError
    /\ fuel_for ts = 168.
  Proof. repeat split; vm_compute; reflexivity. Qed.

  (* the lexer: a comment, white space, a two-character operator, a float; offsets in bytes *)
  Example ex_lex :
    lex u0 (str_cps "a // c" ++ [10%N] ++ str_cps " b1 >= 2.5  ")%list
    = [(TIdent (str_cps "a"), 1%Z); (TIdent (str_cps "b1"), 10%Z); (TFix KGte, 13%Z);
       (TFloatLit (str_cps "2.5"), 17%Z)].
  Proof. vm_compute; reflexivity. Qed.

  Example ex_blank : blank u0 (str_cps " // x" ++ [10%N; 9%N])%list.
  Proof.
    apply (next_token_none u0 (S (length (str_cps " // x" ++ [10%N; 9%N])%list)) _ 0%Z); [lia|].
    vm_compute; reflexivity.
  Qed.
End PTExamples.

Print Assumptions parse_terminates.
Print Assumptions parse_terminates_bound.
Print Assumptions parse_fuel_tight.
Print Assumptions parse_no_panic.
Print Assumptions parse_total.
Print Assumptions parse_fault_only_float.
Print Assumptions next_token_total.
Print Assumptions next_token_fuel.
Print Assumptions blank_next_token_none.
Print Assumptions lex_complete.
Print Assumptions lex_fuel_irrelevant.
Print Assumptions lex_offsets_increasing.
Print Assumptions lex_offsets_bounded.
