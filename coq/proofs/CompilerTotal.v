(* CompilerTotal.v - property C05 for the compiler: the model of compiler.rs never reaches one of
   its panic sites (`Fault FUnwrap`: the assert! of change_jump_operand_at, loop_contexts.pop().unwrap(),
   panic!("unexpected operator")) on a tree the parser can return, and the whole front end
   (lexer, parser, compiler) answers every text with bytecode or one of the documented error kinds.

   Invariant.  `code_inv st`: every break position recorded in a loop context of `st` is the
   position of an OJump opcode byte whose two operand bytes are inside the code, recorded positions
   are at least 3 apart, and when the last instruction is OPop the operand bytes of every recorded
   jump end strictly before the last byte (so remove_last_instruction never eats an operand).
   Frame.  `pstep n st st'`: the first n bytes of the code are literally unchanged, the code did
   not shrink, and the loop contexts are the same contexts (same number, same l_start) whose break
   lists only grew by positions >= n.  compile_expression / compile_statement satisfy
   `pstep (code_len st) st st'`: the code before the call is a LITERAL prefix of the code after it
   (jumps are only ever patched inside the part the call itself emitted). *)
From NL.Model Require Import Compiler Pipeline.
From NL.Spec Require Import Printer RenderSpec.
From NL.Proofs Require Import AstInduction.
From NL.Proofs Require LexerProofs ParserTermination PrinterProofs.
Open Scope Z_scope.

(** * 0. Outcomes *)

Definition no_panic {A} (o : outcome A) : Prop :=
  match o with Ok _ | Err _ => True | _ => False end.

(** * 1. Lists *)

Lemma length_replace_nth : forall A n (x : A) l, length (replace_nth n x l) = length l.
Proof.
  intros A n x l. revert n. induction l as [|y l IH]; intros [|n]; cbn [replace_nth length]; auto.
Qed.

Lemma nth_error_replace_nth_neq : forall A n m (x : A) l, n <> m ->
  nth_error (replace_nth n x l) m = nth_error l m.
Proof.
  intros A n m x l. revert n m. induction l as [|y l IH]; intros [|n] [|m] H; cbn [replace_nth nth_error]; auto.
  - contradiction.
Qed.

Lemma length_removelast' : forall A (l : list A), length (removelast l) = pred (length l).
Proof.
  intros A l. destruct l as [|x l] using rev_ind; [reflexivity|].
  rewrite removelast_last, app_length. cbn [length]. lia.
Qed.

Lemma nth_error_removelast : forall A (l : list A) i, (S i < length l)%nat ->
  nth_error (removelast l) i = nth_error l i.
Proof.
  intros A l i H. destruct l as [|x l] using rev_ind; [cbn in H; lia|].
  rewrite removelast_last. rewrite app_length in H. cbn [length] in H.
  symmetry. apply nth_error_app1. lia.
Qed.

(** * 2. Bytes of the code buffer *)

Definition byte_at (st : cstate) (p : Z) : option Z := nth_error (c_code st) (Z.to_nat p).

Definition is_jump_byte (b : Z) : bool :=
  (b =? byte_of_opcode OJump) || (b =? byte_of_opcode OJumpIfFalse).

(* what change_jump_operand_at tests is what emit_opcode OJump / OJumpIfFalse appended *)
Lemma jump_byte_jump : is_jump_byte (byte_of_opcode OJump) = true.
Proof. reflexivity. Qed.
Lemma jump_byte_jif : is_jump_byte (byte_of_opcode OJumpIfFalse) = true.
Proof. reflexivity. Qed.

Lemma code_len_nonneg : forall st, 0 <= code_len st.
Proof. intros st. unfold code_len, zlength. lia. Qed.

(* st' = st with l appended to the code; loops untouched *)
Definition app_of (st st' : cstate) (l : list Z) : Prop :=
  c_code st' = c_code st ++ l /\ c_loops st' = c_loops st.

Lemma app_of_trans : forall a b c l1 l2, app_of a b l1 -> app_of b c l2 -> app_of a c (l1 ++ l2).
Proof.
  intros a b c l1 l2 [H1 H2] [H3 H4]. split; [|congruence]. rewrite H3, H1, app_assoc. reflexivity.
Qed.

Lemma app_of_len : forall st st' l, app_of st st' l -> code_len st' = code_len st + zlength l.
Proof. intros st st' l [H _]. unfold code_len, zlength. rewrite H, app_length. lia. Qed.

Lemma app_of_old : forall st st' l i, app_of st st' l -> 0 <= i < code_len st ->
  byte_at st' i = byte_at st i.
Proof.
  intros st st' l i [H _] Hi. unfold byte_at, code_len, zlength in *. rewrite H.
  apply nth_error_app1. lia.
Qed.

Lemma app_of_head : forall st st' b l, app_of st st' (b :: l) -> byte_at st' (code_len st) = Some b.
Proof.
  intros st st' b l [H _]. unfold byte_at, code_len, zlength. rewrite H.
  rewrite nth_error_app2 by lia.
  replace (Z.to_nat (Z.of_nat (length (c_code st))) - length (c_code st))%nat with 0%nat by lia.
  reflexivity.
Qed.

Lemma app_emit_opcode : forall op st, app_of st (emit_opcode op st) [byte_of_opcode op].
Proof. intros; split; reflexivity. Qed.
Lemma app_emit_u8 : forall v st, app_of st (emit_u8 v st) [v].
Proof. intros; split; reflexivity. Qed.
Lemma app_emit_u16 : forall v st, app_of st (emit_u16 v st) [v mod 256; (v / 256) mod 256].
Proof. intros; split; reflexivity. Qed.
Lemma app_emit3 : forall op v st,
  app_of st (emit_u16 v (emit_opcode op st)) [byte_of_opcode op; v mod 256; (v / 256) mod 256].
Proof. intros. exact (app_of_trans _ _ _ _ _ (app_emit_opcode op st) (app_emit_u16 v _)). Qed.

(** * 3. The invariant *)

Record binv (P : Z -> Prop) (st : cstate) : Prop := mk_binv {
  bi_at : forall p, P p -> 0 <= p /\ p + 2 < code_len st /\ byte_at st p = Some (byte_of_opcode OJump);
  bi_sep : forall p q, P p -> P q -> p = q \/ p + 3 <= q \/ q + 3 <= p;
  bi_pop : c_last st = Some OPop -> forall p, P p -> p + 3 < code_len st }.

(* p is a break position recorded in some loop context *)
Definition brk (l : list loopctx) (p : Z) : Prop := exists c, In c l /\ In p (l_breaks c).

Definition code_inv (st : cstate) : Prop := binv (brk (c_loops st)) st.

Lemma binv_weaken : forall (P P' : Z -> Prop) st, (forall p, P' p -> P p) -> binv P st -> binv P' st.
Proof.
  intros P P' st H [A B C]. split.
  - intros p Hp. apply A, H, Hp.
  - intros p q Hp Hq. apply B; apply H; assumption.
  - intros L p Hp. apply C; [exact L | apply H, Hp].
Qed.

(* the code grew by at least one byte and its old bytes are unchanged *)
Lemma binv_grow : forall P st st', binv P st -> code_len st < code_len st' ->
  (forall i, 0 <= i < code_len st -> byte_at st' i = byte_at st i) -> binv P st'.
Proof.
  intros P st st' [A B C] L E. split.
  - intros p Hp. destruct (A p Hp) as (A1 & A2 & A3). split; [exact A1|]. split; [lia|].
    rewrite E by lia. exact A3.
  - exact B.
  - intros _ p Hp. destruct (A p Hp) as (A1 & A2 & A3). lia.
Qed.

(* nothing relevant changed *)
Lemma binv_same : forall P st st', binv P st -> c_code st' = c_code st -> c_last st' = c_last st ->
  binv P st'.
Proof.
  intros P st st' [A B C] E1 E2. split.
  - intros p Hp. unfold code_len, byte_at. rewrite E1. exact (A p Hp).
  - exact B.
  - intros L p Hp. unfold code_len. rewrite E1. apply C; [congruence|exact Hp].
Qed.

Lemma binv_add : forall (P : Z -> Prop) st q, binv P st -> (forall p, P p -> p + 3 <= q) ->
  0 <= q -> q + 2 < code_len st -> byte_at st q = Some (byte_of_opcode OJump) ->
  (c_last st = Some OPop -> q + 3 < code_len st) ->
  binv (fun p => P p \/ p = q) st.
Proof.
  intros P st q [A B C] H1 H2 H3 H4 H5. split.
  - intros p [Hp| ->]; [exact (A p Hp)|]. auto.
  - intros p r [Hp| ->] [Hr| ->].
    + exact (B p r Hp Hr).
    + right. left. exact (H1 p Hp).
    + right. right. exact (H1 r Hr).
    + left. reflexivity.
  - intros L p [Hp| ->]; [exact (C L p Hp)|exact (H5 L)].
Qed.

Lemma brk_nil : forall p, ~ brk [] p.
Proof. intros p (c & [] & _). Qed.

Lemma brk_snoc : forall l c p, brk (l ++ [c]) p <-> brk l p \/ In p (l_breaks c).
Proof.
  intros l c p. split.
  - intros (c' & H1 & H2). apply in_app_or in H1. destruct H1 as [H1|[<-|[]]].
    + left. exists c'. auto.
    + right. exact H2.
  - intros [(c' & H1 & H2)|H].
    + exists c'. split; [apply in_or_app; left; exact H1|exact H2].
    + exists c. split; [apply in_or_app; right; left; reflexivity|exact H].
Qed.

(** * 4. How loop contexts evolve *)

Definition ctx_ext (n : Z) (c c' : loopctx) : Prop :=
  l_start c' = l_start c /\
  exists extra, l_breaks c' = l_breaks c ++ extra /\ Forall (fun p => n <= p) extra.

Definition loops_ext (n : Z) : list loopctx -> list loopctx -> Prop := Forall2 (ctx_ext n).

Lemma ctx_ext_refl : forall n c, ctx_ext n c c.
Proof. intros n c. split; [reflexivity|]. exists []. rewrite app_nil_r. auto. Qed.

Lemma loops_ext_refl : forall n l, loops_ext n l l.
Proof. intros n l. induction l; constructor; [apply ctx_ext_refl|assumption]. Qed.

Lemma ctx_ext_trans : forall n m a b c, n <= m -> ctx_ext n a b -> ctx_ext m b c -> ctx_ext n a c.
Proof.
  intros n m a b c L (S1 & x1 & B1 & F1) (S2 & x2 & B2 & F2). split; [congruence|].
  exists (x1 ++ x2). split; [rewrite B2, B1, app_assoc; reflexivity|].
  apply Forall_app. split; [exact F1|]. eapply Forall_impl; [|exact F2]. cbn. intros; lia.
Qed.

Lemma loops_ext_trans : forall n m l1 l2 l3, n <= m ->
  loops_ext n l1 l2 -> loops_ext m l2 l3 -> loops_ext n l1 l3.
Proof.
  intros n m l1 l2 l3 L H. revert l3. induction H as [|a b l1 l2 Hab H IH]; intros l3 H3.
  - inversion H3. constructor.
  - inversion H3 as [|b' c l2' l3' Hbc H3']; subst. constructor.
    + eapply ctx_ext_trans; eassumption.
    + apply IH. assumption.
Qed.

Lemma loops_ext_weaken : forall n m l l', n <= m -> loops_ext m l l' -> loops_ext n l l'.
Proof. intros n m l l' L H. eapply loops_ext_trans; [exact L|apply loops_ext_refl|exact H]. Qed.

Lemma loops_ext_brk : forall n l l' p, loops_ext n l l' -> brk l' p -> brk l p \/ n <= p.
Proof.
  intros n l l' p H. induction H as [|a b l l' Hab H IH]; intros (c & H1 & H2).
  - destruct H1.
  - destruct H1 as [<-|H1].
    + destruct Hab as (_ & x & B & F). rewrite B in H2. apply in_app_or in H2. destruct H2 as [H2|H2].
      * left. exists a. split; [left; reflexivity|exact H2].
      * right. rewrite Forall_forall in F. exact (F p H2).
    + destruct IH as [(c' & I1 & I2)|IH]; [exists c; auto| |right; exact IH].
      left. exists c'. split; [right; exact I1|exact I2].
Qed.

Lemma loops_ext_starts : forall n l l', loops_ext n l l' -> map l_start l' = map l_start l.
Proof.
  intros n l l' H. induction H as [|a b l l' (S & _) H IH]; [reflexivity|].
  cbn [map]. rewrite S, IH. reflexivity.
Qed.

Lemma loops_ext_length : forall n l l', loops_ext n l l' -> length l' = length l.
Proof. intros n l l' H. induction H; cbn [length]; congruence. Qed.

Lemma loops_ext_snoc_inv : forall n l c l2, loops_ext n (l ++ [c]) l2 ->
  exists l' c', l2 = l' ++ [c'] /\ loops_ext n l l' /\ ctx_ext n c c'.
Proof.
  intros n l c l2 H. apply Forall2_app_inv_l in H. destruct H as (l' & r & H1 & H2 & ->).
  inversion H2 as [|c0 c' r0 r' Hc Hr]; subst. inversion Hr; subst.
  exists l', c'. auto.
Qed.

(** * 5. The frame *)

Record pstep (n : Z) (st st' : cstate) : Prop := mk_pstep {
  sp_len : code_len st <= code_len st';
  sp_pre : forall i, 0 <= i < n -> byte_at st' i = byte_at st i;
  sp_loops : loops_ext n (c_loops st) (c_loops st') }.

Lemma pstep_refl : forall n st, pstep n st st.
Proof. intros. split; [lia|reflexivity|apply loops_ext_refl]. Qed.

Lemma pstep_trans : forall n a b c, pstep n a b -> pstep n b c -> pstep n a c.
Proof.
  intros n a b c [A1 A2 A3] [B1 B2 B3]. split.
  - lia.
  - intros i Hi. rewrite B2, A2 by exact Hi. reflexivity.
  - eapply loops_ext_trans; [|exact A3|exact B3]. lia.
Qed.

Lemma pstep_weaken : forall n m a b, n <= m -> pstep m a b -> pstep n a b.
Proof.
  intros n m a b L [A1 A2 A3]. split; [exact A1| |].
  - intros i Hi. apply A2. lia.
  - eapply loops_ext_weaken; eassumption.
Qed.

Lemma pstep_app : forall st st' l, app_of st st' l -> pstep (code_len st) st st'.
Proof.
  intros st st' l H. split.
  - rewrite (app_of_len _ _ _ H). unfold zlength. lia.
  - intros i Hi. eapply app_of_old; eassumption.
  - destruct H as [_ H]. rewrite H. apply loops_ext_refl.
Qed.

(* composition used everywhere: a step from a, then a step from b (b at least as long as a) *)
Lemma pstep_then : forall a b c, pstep (code_len a) a b -> pstep (code_len b) b c ->
  pstep (code_len a) a c.
Proof.
  intros a b c H1 H2. eapply pstep_trans; [exact H1|]. eapply pstep_weaken; [|exact H2].
  exact (sp_len _ _ _ H1).
Qed.

(** * 6. The judgement: Ok with invariant and frame, or a documented error; never a panic *)

Definition good (d : Z) (st : cstate) (o : outcome cstate) : Prop :=
  match o with
  | Ok st' => code_inv st' /\ pstep (code_len st) st st' /\ code_len st + d <= code_len st'
  | Err _ => True
  | _ => False
  end.

Lemma good_mono : forall d d' st o, d' <= d -> good d st o -> good d' st o.
Proof.
  intros d d' st [st'| | |] L H; cbn [good] in *; auto. destruct H as (A & B & C). split; [exact A|split; [exact B|lia]].
Qed.

Lemma good_bind : forall d1 d2 d st e k,
  good d1 st e ->
  (forall st1, code_inv st1 -> pstep (code_len st) st st1 -> code_len st + d1 <= code_len st1 ->
               good d2 st1 (k st1)) ->
  d <= d1 + d2 -> good d st (bind e k).
Proof.
  intros d1 d2 d st [st1| | |] kk H K L; cbn [good bind] in *; auto.
  destruct H as (A & B & C). specialize (K st1 A B C).
  destruct (kk st1) as [st2| | |]; cbn [good] in *; auto.
  destruct K as (A2 & B2 & C2). split; [exact A2|]. split; [|lia].
  eapply pstep_then; eassumption.
Qed.

Lemma good_operand : forall d st bits v k, (forall x, good d st (k x)) -> good d st (bind (operand bits v) k).
Proof. intros d st bits v k H. unfold operand. destruct (v <? 2 ^ bits); cbn [bind good]; auto. Qed.

(* a state with the same code, loops and last instruction is as good a starting point *)
Lemma code_inv_same : forall st st', code_inv st -> c_code st' = c_code st -> c_last st' = c_last st ->
  c_loops st' = c_loops st -> code_inv st'.
Proof.
  intros st st' H E1 E2 E3. unfold code_inv. rewrite E3. eapply binv_same; eassumption.
Qed.

Lemma good_app : forall d st st' l, app_of st st' l -> d <= zlength l -> 1 <= zlength l ->
  code_inv st -> good d st (Ok st').
Proof.
  intros d st st' l H L1 L2 Hinv. cbn [good]. pose proof (app_of_len _ _ _ H) as E.
  split; [|split; [eapply pstep_app; exact H|lia]].
  unfold code_inv. destruct H as [H1 H2]. rewrite H2.
  eapply binv_grow; [exact Hinv|lia|]. intros i Hi. eapply app_of_old; [split; eassumption|exact Hi].
Qed.

Lemma good_emit_opcode : forall d op st, d <= 1 -> code_inv st -> good d st (Ok (emit_opcode op st)).
Proof. intros. eapply good_app; [apply app_emit_opcode| | |assumption]; unfold zlength; cbn [length]; lia. Qed.

Lemma good_emit3 : forall d op v st, d <= 3 -> code_inv st ->
  good d st (Ok (emit_u16 v (emit_opcode op st))).
Proof. intros. eapply good_app; [apply app_emit3| | |assumption]; unfold zlength; cbn [length]; lia. Qed.

Lemma good_emit_sym : forall d op s st, d <= 3 -> code_inv st -> good d st (emit_sym op s st).
Proof. intros. unfold emit_sym. apply good_operand. intros x. apply good_emit3; assumption. Qed.

Lemma add_constant_same : forall k st,
  c_code (fst (add_constant k st)) = c_code st /\ c_last (fst (add_constant k st)) = c_last st /\
  c_loops (fst (add_constant k st)) = c_loops st.
Proof. intros k st. unfold add_constant. destruct (const_position k (c_constants st)); cbn; auto. Qed.

Lemma add_constant_no_panic : forall k st, no_panic (snd (add_constant k st)).
Proof.
  intros k st. unfold add_constant, operand.
  destruct (const_position k (c_constants st)); cbn [snd];
    match goal with |- context [?a <? ?b] => destruct (a <? b) end; exact I.
Qed.

(* good relative to a state that differs from st only in symbols/constants/allocation count *)
Lemma good_from_same : forall d st st0 o, c_code st0 = c_code st -> c_loops st0 = c_loops st ->
  good d st0 o -> good d st o.
Proof.
  intros d st st0 [st'| | |] E1 E2 H; cbn [good] in *; auto.
  destruct H as (A & [B1 B2 B3] & C). unfold code_len, byte_at in *. rewrite E1 in *. rewrite E2 in *.
  split; [exact A|]. split; [|exact C]. split; assumption.
Qed.

Lemma good_emit_const : forall d k st, d <= 3 -> code_inv st -> good d st (emit_const k st).
Proof.
  intros d k st L Hinv. unfold emit_const.
  pose proof (add_constant_same k st) as (E1 & E2 & E3). pose proof (add_constant_no_panic k st) as NP.
  destruct (add_constant k st) as [st1 r]. cbn [fst snd] in *.
  destruct r as [idx| | |]; cbn [bind no_panic] in *; try exact I; try contradiction.
  apply (good_from_same d st st1); [exact E1|exact E3|].
  apply good_emit3; [exact L|]. exact (code_inv_same st st1 Hinv E1 E2 E3).
Qed.

(** * 7. Patching a jump *)

Record patched (pos : Z) (st st' : cstate) : Prop := mk_patched {
  pa_len : code_len st' = code_len st;
  pa_loops : c_loops st' = c_loops st;
  pa_last : c_last st' = c_last st;
  pa_bytes : forall i, 0 <= i -> i <> pos + 1 -> i <> pos + 2 -> byte_at st' i = byte_at st i }.

Lemma patch_spec : forall pos v st b, 0 <= pos -> byte_at st pos = Some b -> is_jump_byte b = true ->
  exists st', change_jump_operand_at pos v st = Ok st' /\ patched pos st st'.
Proof.
  intros pos v st b P0 B J. unfold change_jump_operand_at. unfold byte_at in B. rewrite B.
  unfold is_jump_byte in J. rewrite J. eexists. split; [reflexivity|]. split.
  - unfold code_len, zlength. cbn [c_code]. rewrite !length_replace_nth. reflexivity.
  - reflexivity.
  - reflexivity.
  - intros i I0 I1 I2. unfold byte_at. cbn [c_code].
    rewrite !nth_error_replace_nth_neq by lia. reflexivity.
Qed.

Lemma patched_binv : forall P pos st st', patched pos st st' -> binv P st ->
  (forall p, P p -> p <> pos + 1 /\ p <> pos + 2) -> binv P st'.
Proof.
  intros P pos st st' [L1 L2 L3 L4] [A B C] H. split.
  - intros p Hp. destruct (A p Hp) as (A1 & A2 & A3). destruct (H p Hp) as [H1 H2].
    rewrite L1, L4 by lia. auto.
  - exact B.
  - intros L p Hp. rewrite L1. apply C; [congruence|exact Hp].
Qed.

Lemma patched_pstep : forall n pos st st', patched pos st st' -> n <= pos + 1 -> pstep n st st'.
Proof.
  intros n pos st st' [L1 L2 L3 L4] H. split; [lia| |rewrite L2; apply loops_ext_refl].
  intros i Hi. apply L4; lia.
Qed.

Lemma patched_code_inv : forall pos st st', patched pos st st' -> code_inv st ->
  (forall p, brk (c_loops st) p -> p <> pos + 1 /\ p <> pos + 2) -> code_inv st'.
Proof.
  intros pos st st' Hp Hinv H. unfold code_inv. rewrite (pa_loops _ _ _ Hp).
  eapply patched_binv; eassumption.
Qed.

(* the loop of EWhile that patches the recorded breaks *)
Definition patch_step (acc : outcome cstate) (ip : Z) : outcome cstate :=
  do s <- acc; do tg <- operand 16 (code_len s); change_jump_operand_at ip tg s.

Lemma fold_patch_err : forall bs k, fold_left patch_step bs (Err k) = Err k.
Proof. induction bs as [|q bs IH]; intros k; [reflexivity|]. cbn [fold_left]. apply IH. Qed.

Lemma fold_patch_good : forall P bs s, binv P s -> (forall q, In q bs -> P q) ->
  match fold_left patch_step bs (Ok s) with
  | Ok s' => binv P s' /\ code_len s' = code_len s /\ c_loops s' = c_loops s /\
             (forall i, 0 <= i -> (forall q, In q bs -> i <> q + 1 /\ i <> q + 2) -> byte_at s' i = byte_at s i)
  | Err _ => True
  | _ => False
  end.
Proof.
  intros P bs. induction bs as [|q bs IH]; intros s Hinv H.
  - cbn [fold_left]. auto.
  - cbn [fold_left]. unfold patch_step at 2. cbn [bind]. unfold operand.
    destruct (code_len s <? 2 ^ 16); cbn [bind]; [|rewrite fold_patch_err; exact I].
    assert (Pq : P q) by (apply H; left; reflexivity).
    destruct (bi_at _ _ Hinv q Pq) as (Q0 & Q1 & Q2).
    destruct (patch_spec q (code_len s) s _ Q0 Q2 jump_byte_jump) as (s1 & E & Hp).
    rewrite E.
    assert (I1 : binv P s1).
    { eapply patched_binv; [exact Hp|exact Hinv|]. intros p Pp.
      destruct (bi_sep _ _ Hinv p q Pp Pq) as [->|[L|L]]; lia. }
    specialize (IH s1 I1 (fun r Hr => H r (or_intror Hr))).
    destruct (fold_left patch_step bs (Ok s1)) as [s'| | |]; auto.
    destruct IH as (A & B & C & D). split; [exact A|]. split; [rewrite B; apply (pa_len _ _ _ Hp)|].
    split; [rewrite C; apply (pa_loops _ _ _ Hp)|].
    intros i I0' Hi. rewrite D; [|exact I0'|intros r Hr; apply Hi; right; exact Hr].
    destruct (Hi q (or_introl eq_refl)) as [X Y]. apply (pa_bytes _ _ _ Hp); assumption.
Qed.

(** * 8. remove_last_instruction *)

Lemma last_is_pop : forall st, last_instruction_is OPop st = true -> c_last st = Some OPop.
Proof.
  intros st. unfold last_instruction_is. destruct (c_last st) as [o|]; [|discriminate].
  destruct o; cbn [opcode_eqb]; intros H; try discriminate H; reflexivity.
Qed.

Lemma remove_last_len : forall st, 1 <= code_len st ->
  code_len (remove_last_instruction st) = code_len st - 1.
Proof.
  intros st H. unfold code_len, zlength in *. cbn [remove_last_instruction c_code].
  rewrite length_removelast'. lia.
Qed.

Lemma remove_last_byte : forall st i, 0 <= i < code_len st - 1 ->
  byte_at (remove_last_instruction st) i = byte_at st i.
Proof.
  intros st i H. unfold byte_at, code_len, zlength in *. cbn [remove_last_instruction c_code].
  apply nth_error_removelast. lia.
Qed.

Lemma remove_last_binv : forall P st, binv P st -> c_last st = Some OPop -> 1 <= code_len st ->
  binv P (remove_last_instruction st).
Proof.
  intros P st [A B C] L H. split.
  - intros p Hp. destruct (A p Hp) as (A1 & A2 & A3). pose proof (C L p Hp) as C1.
    rewrite remove_last_len, remove_last_byte by lia. split; [exact A1|split; [lia|exact A3]].
  - exact B.
  - cbn [remove_last_instruction c_last]. discriminate.
Qed.

(* after a step that emitted at least one byte, dropping a trailing OPop is still a step *)
Lemma good_remove_last : forall st st1, code_inv st1 -> pstep (code_len st) st st1 ->
  code_len st + 1 <= code_len st1 -> c_last st1 = Some OPop ->
  good 0 st (Ok (remove_last_instruction st1)).
Proof.
  intros st st1 Hinv [S1 S2 S3] L P. pose proof (code_len_nonneg st) as N. cbn [good].
  split; [|split; [split|]].
  - unfold code_inv. cbn [remove_last_instruction c_loops]. apply remove_last_binv; [exact Hinv|exact P|lia].
  - rewrite remove_last_len by lia. lia.
  - intros i Hi. rewrite remove_last_byte by lia. apply S2. exact Hi.
  - exact S3.
  - rewrite remove_last_len by lia. lia.
Qed.

(** * 9. Unfolding equations of the compiler (all by computation) *)

Fixpoint compile_exprs (l : list expr) (st : cstate) : outcome cstate :=
  match l with
  | [] => Ok st
  | x :: r => do st' <- compile_expression x st; compile_exprs r st'
  end.

(* compile_block_statement and compile_block_value: the local definitions of the model *)
Definition block_statement (b : list stmt) (st : cstate) : outcome cstate :=
  if is_nil b then Ok (emit_opcode ONull st)
  else do st1 <- compile_statements b (set_symbols st (enter_scope (c_symbols st)));
       Ok (set_symbols st1 (leave_scope (c_symbols st1))).

Definition block_value (b : list stmt) (st : cstate) : outcome cstate :=
  do st1 <- block_statement b st;
  if is_nil b then Ok st1
  else if last_instruction_is OPop st1 then Ok (remove_last_instruction st1)
  else Ok (emit_opcode ONull st1).

Definition jump_ph (op : opcode) (st : cstate) : cstate := emit_u16 JUMP_PLACEHOLDER (emit_opcode op st).

Definition generic_infix (l : expr) (op : operator) (r : expr) (st0 : cstate) : outcome cstate :=
  do st1 <- compile_expression l st0;
  do st2 <- compile_expression r st1;
  match assoc operator_eqb op compile_operator_table with
  | Some opc => Ok (emit_opcode opc st2)
  | None => Fault FUnwrap
  end.

Lemma ce_infix : forall l op r st,
  compile_expression (EInfix l op r) st =
  match fused_candidate l r op with
  | Some (name, v, op') =>
      let '(st1, done) := compile_const_var_infix name v op' st in
      if done : bool then Ok st1 else generic_infix l op r st1
  | None => generic_infix l op r st
  end.
Proof. reflexivity. Qed.

Lemma ce_prefix : forall op r st,
  compile_expression (EPrefix op r) st =
  do st1 <- compile_expression r st;
  match op with
  | OpNegate | OpSubtract => Ok (emit_opcode ONegate st1)
  | OpNot => Ok (emit_opcode ONot st1)
  | _ => Err ETypeError
  end.
Proof. reflexivity. Qed.

Lemma ce_if : forall c t alt st,
  compile_expression (EIf c t alt) st =
  do st1 <- compile_expression c st;
  do st3 <- block_value t (jump_ph OJumpIfFalse st1);
  do target <- operand 16 (code_len (jump_ph OJump st3));
  do st5 <- change_jump_operand_at (code_len st1) target (jump_ph OJump st3);
  do st6 <- match alt with
            | Some b => block_value b st5
            | None => Ok (emit_opcode ONull st5)
            end;
  do target2 <- operand 16 (code_len st6);
  change_jump_operand_at (code_len st3) target2 st6.
Proof. reflexivity. Qed.

Definition while_enter (st : cstate) : cstate :=
  let st1 := emit_opcode ONull st in
  set_loops st1 (c_loops st1 ++ [mkLoop (code_len st1) []]).

Definition while_exit (st8 : cstate) : outcome cstate :=
  match rev (c_loops st8) with
  | [] => Fault FUnwrap
  | ctx :: rest => fold_left patch_step (l_breaks ctx) (Ok (set_loops st8 (rev rest)))
  end.

Lemma ce_while : forall c body st,
  compile_expression (EWhile c body) st =
  do st3 <- compile_expression c (while_enter st);
  do st5 <- block_value body (emit_opcode OPop (jump_ph OJumpIfFalse st3));
  do back <- operand 16 (code_len (emit_opcode ONull st));
  do target <- operand 16 (code_len (emit_u16 back (emit_opcode OJump st5)));
  do st8 <- change_jump_operand_at (code_len st3) target (emit_u16 back (emit_opcode OJump st5));
  while_exit st8.
Proof. reflexivity. Qed.

Definition fun_enter (name : text) (st : cstate) : cstate * option symbol :=
  if is_nil name then (st, None)
  else let '(t, s) := define (c_symbols st) name in (set_symbols st t, Some s).

Definition fun_finish (st5 : cstate) : cstate :=
  if last_instruction_is OPop st5 then emit_opcode OReturnValue (remove_last_instruction st5)
  else if last_instruction_is OReturnValue st5 then st5
  else emit_opcode OReturn st5.

Definition fun_tail (pos_start : Z) (sym : option symbol) (st7 : cstate) : outcome cstate :=
  let '(t8, num_locals) := leave_context (c_symbols st7) in
  let st8 := set_symbols st7 t8 in
  do ip <- operand 32 pos_start;
  do nl <- operand 16 (Z.of_nat num_locals);
  let '(st9, r) := add_constant (KFun ip nl) st8 in
  do idx <- r;
  let st10 := emit_u16 idx (emit_opcode OConst st9) in
  match sym with
  | Some s =>
      do st11 <- emit_sym (scoped s OSetGlobal OSetLocal) s st10;
      Ok (emit_u16 idx (emit_opcode OConst st11))
  | None => Ok st10
  end.

Lemma ce_function : forall name params body st,
  compile_expression (EFunction name params body) st =
  let '(st1, sym) := fun_enter name st in
  let st2 := jump_ph OJump st1 in
  let st3 := set_symbols st2 (fold_left (fun t p => fst (define t p)) params (new_context (c_symbols st2))) in
  do st4 <- block_statement body (set_loops st3 []);
  let st6 := fun_finish (set_loops st4 (c_loops st3)) in
  do target <- operand 16 (code_len st6);
  do st7 <- change_jump_operand_at (code_len st1) target st6;
  fun_tail (code_len st3) sym st7.
Proof. reflexivity. Qed.

Lemma ce_call : forall f args st,
  compile_expression (ECall f args) st =
  do st1 <- compile_exprs args st;
  match (match f with EIdent name => assoc_text name builtin_names | _ => None end) with
  | Some b =>
      do n <- operand 8 (zlength args);
      Ok (emit_u8 n (emit_u8 (byte_of_builtin b) (emit_opcode OCallBuiltin st1)))
  | None =>
      do st2 <- compile_expression f st1;
      do n <- operand 8 (zlength args);
      Ok (emit_u8 n (emit_opcode OCall st2))
  end.
Proof. reflexivity. Qed.

Lemma ce_array : forall vs st,
  compile_expression (EArray vs) st =
  do st1 <- compile_exprs vs st;
  do n <- operand 16 (zlength vs);
  Ok (emit_u16 n (emit_opcode OArray st1)).
Proof. reflexivity. Qed.

Lemma ce_index : forall l i st,
  compile_expression (EIndex l i) st =
  do st1 <- compile_expression l st;
  do st2 <- compile_expression i st1;
  Ok (emit_opcode OIndexGet st2).
Proof. reflexivity. Qed.

Lemma ce_assign_ident : forall x r st,
  compile_expression (EAssign (EIdent x) r) st =
  match resolve (c_symbols st) x with
  | Some s =>
      do st1 <- compile_expression r st;
      do st2 <- emit_sym (scoped s OSetGlobal OSetLocal) s st1;
      emit_sym (scoped s OGetGlobal OGetLocal) s st2
  | None => Err EReferenceError
  end.
Proof. reflexivity. Qed.

Lemma ce_assign_index : forall a i r st,
  compile_expression (EAssign (EIndex a i) r) st =
  do st1 <- compile_expression a st;
  do st2 <- compile_expression i st1;
  do st3 <- compile_expression r st2;
  Ok (emit_opcode OIndexSet st3).
Proof. reflexivity. Qed.

Lemma cs_block : forall b st,
  compile_statement (SBlock b) st =
  if is_nil b then Ok (emit_opcode OPop (emit_opcode ONull st))
  else do st1 <- compile_statements b (set_symbols st (enter_scope (c_symbols st)));
       Ok (set_symbols st1 (leave_scope (c_symbols st1))).
Proof. reflexivity. Qed.

Lemma cs_let : forall name v st,
  compile_statement (SLet name v) st =
  let '(t, sym) := define (c_symbols st) name in
  do st1 <- compile_expression v (set_symbols st t);
  emit_sym (scoped sym OSetGlobal OSetLocal) sym st1.
Proof. reflexivity. Qed.

Lemma cs_break : forall st,
  compile_statement SBreak st =
  let st2 := jump_ph OJump (emit_opcode ONull st) in
  match rev (c_loops st) with
  | [] => Err ESyntaxError
  | ctx :: rest =>
      Ok (set_loops st2 (rev (mkLoop (l_start ctx) (l_breaks ctx ++ [code_len (emit_opcode ONull st)]) :: rest)))
  end.
Proof. reflexivity. Qed.

Lemma cs_continue : forall st,
  compile_statement SContinue st =
  match rev (c_loops st) with
  | [] => Err ESyntaxError
  | ctx :: _ =>
      do pos <- operand 16 (l_start ctx);
      Ok (emit_u16 pos (emit_opcode OJump (emit_opcode ONull st)))
  end.
Proof. reflexivity. Qed.

(** * 10. Helper facts about appended code *)

Lemma app_facts : forall st s l, app_of st s l -> 1 <= zlength l -> code_inv st ->
  code_inv s /\ pstep (code_len st) st s /\ code_len s = code_len st + zlength l /\ c_loops s = c_loops st.
Proof.
  intros st s l A L Hinv. destruct (good_app 0 st s l A ltac:(lia) L Hinv) as (X & Y & _).
  split; [exact X|]. split; [exact Y|]. split; [apply app_of_len; exact A|apply A].
Qed.

Lemma app_of_same : forall st st1 s l, c_code st1 = c_code st -> c_loops st1 = c_loops st ->
  app_of st1 s l -> app_of st s l.
Proof. intros st st1 s l E1 E2 [A B]. split; congruence. Qed.

Lemma pstep_same : forall n st st1, c_code st1 = c_code st -> c_loops st1 = c_loops st -> pstep n st st1.
Proof.
  intros n st st1 E1 E2. split.
  - unfold code_len. rewrite E1. lia.
  - intros i _. unfold byte_at. rewrite E1. reflexivity.
  - rewrite E2. apply loops_ext_refl.
Qed.

Lemma good_same : forall st st1, code_inv st -> c_code st1 = c_code st -> c_last st1 = c_last st ->
  c_loops st1 = c_loops st -> good 0 st (Ok st1).
Proof.
  intros st st1 Hinv E1 E2 E3. cbn [good]. split; [eapply code_inv_same; eassumption|].
  split; [apply pstep_same; assumption|]. unfold code_len. rewrite E1. lia.
Qed.

Lemma good_after : forall d st st1 o, pstep (code_len st) st st1 -> good d st1 o -> 0 <= d -> good d st o.
Proof.
  intros d st st1 [s2| | |] S G L; cbn [good] in *; auto. destruct G as (A & B & C).
  split; [exact A|]. split; [eapply pstep_then; eassumption|]. pose proof (sp_len _ _ _ S). lia.
Qed.

Lemma zlength_cons : forall A (x : A) l, zlength (x :: l) = 1 + zlength l.
Proof. intros. unfold zlength. cbn [length]. lia. Qed.
Lemma zlength_nil : forall A, zlength (@nil A) = 0.
Proof. reflexivity. Qed.

Ltac zl := cbn [app]; rewrite ?zlength_cons, ?zlength_nil; lia.

Lemma jump_ph_facts : forall op st, code_inv st ->
  code_inv (jump_ph op st) /\ pstep (code_len st) st (jump_ph op st) /\
  code_len (jump_ph op st) = code_len st + 3 /\ c_loops (jump_ph op st) = c_loops st /\
  byte_at (jump_ph op st) (code_len st) = Some (byte_of_opcode op).
Proof.
  intros op st Hinv. pose proof (app_emit3 op JUMP_PLACEHOLDER st) as A. fold (jump_ph op st) in A.
  destruct (app_facts _ _ _ A ltac:(zl) Hinv) as (X & Y & Z1 & W).
  split; [exact X|]. split; [exact Y|]. split; [rewrite Z1; zl|]. split; [exact W|].
  eapply app_of_head. exact A.
Qed.

(** * 11. Which trees: every infix operator has an opcode *)

Definition op_has_opcode (o : operator) : bool :=
  match assoc operator_eqb o compile_operator_table with Some _ => true | None => false end.

Fixpoint ops_ok_e (e : expr) {struct e} : bool :=
  match e with
  | EInfix l o r => op_has_opcode o && ops_ok_e l && ops_ok_e r
  | EPrefix _ r => ops_ok_e r
  | EIf c t alt =>
      ops_ok_e c && forallb ops_ok_s t
      && match alt with Some a => forallb ops_ok_s a | None => true end
  | EFunction _ _ body => forallb ops_ok_s body
  | ECall h args => ops_ok_e h && forallb ops_ok_e args
  | EAssign l r => ops_ok_e l && ops_ok_e r
  | EArray vs => forallb ops_ok_e vs
  | EIndex b i => ops_ok_e b && ops_ok_e i
  | EWhile c b => ops_ok_e c && forallb ops_ok_s b
  | _ => true
  end
with ops_ok_s (s : stmt) {struct s} : bool :=
  match s with
  | SLet _ e | SReturn e | SExpr e => ops_ok_e e
  | SBlock b => forallb ops_ok_s b
  | SBreak | SContinue => true
  end.

(* by computation over the generated tables: the 13 infix operators of the parser all have an opcode *)
Lemma infix_op_has_opcode : forall o, is_infix_op o = true -> op_has_opcode o = true.
Proof. intros o. destruct o; vm_compute; intros H; try reflexivity; discriminate H. Qed.

Corollary infix_op_in_table : forall o, is_infix_op o = true ->
  assoc operator_eqb o compile_operator_table <> None.
Proof.
  intros o H. apply infix_op_has_opcode in H. unfold op_has_opcode in H.
  destruct (assoc operator_eqb o compile_operator_table); [discriminate|discriminate H].
Qed.

(* prefix operators of the parser are the two compile_expression accepts *)
Lemma prefix_op_cases : forall o, is_prefix_op o = true -> o = OpNot \/ o = OpSubtract.
Proof. intros o. destruct o; vm_compute; intros H; try discriminate H; auto. Qed.

Lemma forallb_imp : forall A (f g : A -> bool) l,
  Forall (fun x => f x = true -> g x = true) l -> forallb f l = true -> forallb g l = true.
Proof.
  intros A f g l H. induction H as [|x l Hx H IH]; [reflexivity|]. cbn [forallb].
  intros E. apply andb_true_iff in E. destruct E as [E1 E2]. rewrite (Hx E1), (IH E2). reflexivity.
Qed.

Lemma wf_ops_ok : forall fok,
  (forall e, wf_expr fok e = true -> ops_ok_e e = true) /\
  (forall s, wf_stmt fok s = true -> ops_ok_s s = true).
Proof.
  intros fok. apply expr_stmt_ind; cbn [wf_expr wf_stmt ops_ok_e ops_ok_s]; intros;
    repeat match goal with
           | H : _ && _ = true |- _ => apply andb_true_iff in H; destruct H
           end; auto.
  - rewrite infix_op_has_opcode, H, H0 by assumption. reflexivity.
  - rewrite H by assumption. rewrite (forallb_imp _ _ _ _ H0) by assumption.
    destruct alt as [a|]; [|reflexivity]. cbn [OptForall] in H1.
    rewrite (forallb_imp _ _ _ _ H1) by assumption. reflexivity.
  - apply (forallb_imp _ _ _ _ H). assumption.
  - rewrite H by assumption. rewrite (forallb_imp _ _ _ _ H0) by assumption. reflexivity.
  - rewrite H, H0 by assumption. reflexivity.
  - apply (forallb_imp _ _ _ _ H). assumption.
  - rewrite H, H0 by assumption. reflexivity.
  - rewrite H by assumption. rewrite (forallb_imp _ _ _ _ H0) by assumption. reflexivity.
  - apply (forallb_imp _ _ _ _ H). assumption.
Qed.

(** * 12. The constructs with jumps *)

Ltac pchain :=
  first [ eapply pstep_weaken; [|eassumption]; lia
        | eapply patched_pstep; [eassumption|lia] ].

Lemma if_good : forall c t alt st,
  (forall s, code_inv s -> good 1 s (compile_expression c s)) ->
  (forall s, code_inv s -> good 0 s (block_value t s)) ->
  (forall s, code_inv s ->
     good 0 s (match alt with Some b => block_value b s | None => Ok (emit_opcode ONull s) end)) ->
  code_inv st -> good 1 st (compile_expression (EIf c t alt) st).
Proof.
  intros c t alt st Hc Ht Ha Hinv. rewrite ce_if. pose proof (code_len_nonneg st) as N0.
  pose proof (Hc st Hinv) as G1.
  destruct (compile_expression c st) as [st1| | |]; cbn [bind]; [|exact I|destruct G1..].
  destruct G1 as (I1 & S1 & L1).
  destruct (jump_ph_facts OJumpIfFalse st1 I1) as (I2 & S2 & L2 & Lo2 & B2).
  set (st2 := jump_ph OJumpIfFalse st1) in *.
  pose proof (Ht st2 I2) as G3.
  destruct (block_value t st2) as [st3| | |]; cbn [bind]; [|exact I|destruct G3..].
  destruct G3 as (I3 & S3 & L3).
  destruct (jump_ph_facts OJump st3 I3) as (I4 & S4 & L4 & Lo4 & B4).
  set (st4 := jump_ph OJump st3) in *.
  apply good_operand. intros tg.
  assert (B4' : byte_at st4 (code_len st1) = Some (byte_of_opcode OJumpIfFalse)).
  { rewrite (sp_pre _ _ _ S4) by lia. rewrite (sp_pre _ _ _ S3) by lia. exact B2. }
  destruct (patch_spec (code_len st1) tg st4 _ (code_len_nonneg st1) B4' jump_byte_jif) as (st5 & E5 & P5).
  rewrite E5. cbn [bind]. pose proof (pa_len _ _ _ P5) as L5.
  assert (I5 : code_inv st5).
  { eapply patched_code_inv; [exact P5|exact I4|]. intros p Hp. rewrite Lo4 in Hp.
    destruct (loops_ext_brk _ _ _ _ (sp_loops _ _ _ S3) Hp) as [Hp'|Hp'].
    - rewrite Lo2 in Hp'. destruct (bi_at _ _ I1 p Hp') as (_ & X & _). lia.
    - lia. }
  pose proof (Ha st5 I5) as G6.
  match type of G6 with good _ _ ?o => destruct o as [st6| | |] end; cbn [bind]; [|exact I|destruct G6..].
  destruct G6 as (I6 & S6 & L6).
  apply good_operand. intros tg2.
  assert (B6 : byte_at st6 (code_len st3) = Some (byte_of_opcode OJump)).
  { rewrite (sp_pre _ _ _ S6) by lia. rewrite (pa_bytes _ _ _ P5) by lia. exact B4. }
  destruct (patch_spec (code_len st3) tg2 st6 _ (code_len_nonneg st3) B6 jump_byte_jump) as (st7 & E7 & P7).
  rewrite E7. cbn [good]. pose proof (pa_len _ _ _ P7) as L7.
  split; [|split].
  - eapply patched_code_inv; [exact P7|exact I6|]. intros p Hp.
    destruct (loops_ext_brk _ _ _ _ (sp_loops _ _ _ S6) Hp) as [Hp'|Hp'].
    + rewrite (pa_loops _ _ _ P5), Lo4 in Hp'. destruct (bi_at _ _ I3 p Hp') as (_ & X & _). lia.
    + lia.
  - eapply pstep_trans; [exact S1|].
    eapply pstep_trans; [pchain|]. eapply pstep_trans; [pchain|]. eapply pstep_trans; [pchain|].
    eapply pstep_trans; [pchain|]. eapply pstep_trans; [pchain|]. pchain.
  - lia.
Qed.

Lemma while_enter_facts : forall st, code_inv st ->
  code_inv (while_enter st) /\ code_len (while_enter st) = code_len st + 1 /\
  c_loops (while_enter st) = c_loops st ++ [mkLoop (code_len st + 1) []] /\
  (forall i, 0 <= i < code_len st -> byte_at (while_enter st) i = byte_at st i).
Proof.
  intros st Hinv. pose proof (app_emit_opcode ONull st) as A.
  destruct (app_facts _ _ _ A ltac:(zl) Hinv) as (X & Y & Z1 & W).
  assert (Z2 : code_len (emit_opcode ONull st) = code_len st + 1) by (rewrite Z1; zl).
  split; [|split; [exact Z2|split]].
  - unfold code_inv.
    change (c_loops (while_enter st)) with (c_loops st ++ [mkLoop (code_len (emit_opcode ONull st)) []]).
    apply (binv_same _ (emit_opcode ONull st)); [|reflexivity|reflexivity].
    eapply binv_weaken; [|exact X]. intros p Hp. apply brk_snoc in Hp. destruct Hp as [Hp|[]]. exact Hp.
  - change (c_loops (while_enter st)) with (c_loops st ++ [mkLoop (code_len (emit_opcode ONull st)) []]).
    rewrite Z2. reflexivity.
  - intros i Hi. exact (app_of_old _ _ _ i A Hi).
Qed.

Lemma while_good : forall c body st,
  (forall s, code_inv s -> good 1 s (compile_expression c s)) ->
  (forall s, code_inv s -> good 0 s (block_value body s)) ->
  code_inv st -> good 1 st (compile_expression (EWhile c body) st).
Proof.
  intros c body st Hc Hb Hinv. rewrite ce_while. pose proof (code_len_nonneg st) as N0.
  destruct (while_enter_facts st Hinv) as (I2 & L2 & Lo2 & B2).
  set (st2 := while_enter st) in *.
  pose proof (Hc st2 I2) as G3.
  destruct (compile_expression c st2) as [st3| | |]; cbn [bind]; [|exact I|destruct G3..].
  destruct G3 as (I3 & S3 & L3).
  assert (A4 : app_of st3 (emit_opcode OPop (jump_ph OJumpIfFalse st3))
                 ([byte_of_opcode OJumpIfFalse; JUMP_PLACEHOLDER mod 256; (JUMP_PLACEHOLDER / 256) mod 256]
                  ++ [byte_of_opcode OPop])).
  { eapply app_of_trans; [apply app_emit3|apply app_emit_opcode]. }
  cbn [app] in A4.
  destruct (app_facts _ _ _ A4 ltac:(zl) I3) as (I4 & S4 & L4 & Lo4).
  pose proof (app_of_head _ _ _ _ A4) as B4.
  rewrite !zlength_cons, zlength_nil in L4.
  set (st4 := emit_opcode OPop (jump_ph OJumpIfFalse st3)) in *.
  pose proof (Hb st4 I4) as G5.
  destruct (block_value body st4) as [st5| | |]; cbn [bind]; [|exact I|destruct G5..].
  destruct G5 as (I5 & S5 & L5).
  apply good_operand. intros back.
  pose proof (app_emit3 OJump back st5) as A7.
  destruct (app_facts _ _ _ A7 ltac:(zl) I5) as (I7 & S7 & L7 & Lo7).
  rewrite !zlength_cons, zlength_nil in L7.
  set (st7 := emit_u16 back (emit_opcode OJump st5)) in *.
  apply good_operand. intros tg.
  assert (B7 : byte_at st7 (code_len st3) = Some (byte_of_opcode OJumpIfFalse)).
  { rewrite (sp_pre _ _ _ S7) by lia. rewrite (sp_pre _ _ _ S5) by lia. exact B4. }
  assert (N3 : 0 <= code_len st3) by lia.
  destruct (patch_spec (code_len st3) tg st7 _ N3 B7 jump_byte_jif) as (st8 & E8 & P8).
  rewrite E8. cbn [bind]. pose proof (pa_len _ _ _ P8) as L8.
  assert (I8 : code_inv st8).
  { eapply patched_code_inv; [exact P8|exact I7|]. intros p Hp. rewrite Lo7 in Hp.
    destruct (loops_ext_brk _ _ _ _ (sp_loops _ _ _ S5) Hp) as [Hp'|Hp'].
    - rewrite Lo4 in Hp'. destruct (bi_at _ _ I3 p Hp') as (_ & X & _). lia.
    - lia. }
  (* the context pushed on entry is still the innermost one *)
  assert (LE : loops_ext (code_len st2) (c_loops st2) (c_loops st8)).
  { rewrite (pa_loops _ _ _ P8), Lo7. eapply loops_ext_trans; [|exact (sp_loops _ _ _ S3)|].
    2: { rewrite <- Lo4. exact (sp_loops _ _ _ S5). }
    lia. }
  rewrite Lo2 in LE. apply loops_ext_snoc_inv in LE. destruct LE as (L' & c' & EL & LE' & CE).
  unfold while_exit. rewrite EL, rev_app_distr. cbn [rev app]. rewrite rev_involutive.
  destruct CE as (_ & extra & EB & FE). cbn [l_breaks app] in EB.
  unfold code_inv in I8. rewrite EL in I8.
  assert (I9 : binv (brk (L' ++ [c'])) (set_loops st8 L'))
    by (eapply binv_same; [exact I8|reflexivity|reflexivity]).
  pose proof (fold_patch_good (brk (L' ++ [c'])) (l_breaks c') _ I9
                (fun q Hq => proj2 (brk_snoc L' c' q) (or_intror Hq))) as G.
  destruct (fold_left patch_step (l_breaks c') (Ok (set_loops st8 L'))) as [s'| | |]; [|exact I|destruct G..].
  destruct G as (Is & Ls & Los & Bs). cbn [set_loops c_loops] in Los.
  change (code_len (set_loops st8 L')) with (code_len st8) in Ls.
  cbn [good]. split; [|split; [split|]].
  - unfold code_inv. rewrite Los. eapply binv_weaken; [|exact Is].
    intros p Hp. apply brk_snoc. left. exact Hp.
  - lia.
  - intros i Hi. rewrite Bs; [|lia|].
    + change (byte_at (set_loops st8 L') i) with (byte_at st8 i).
      rewrite (pa_bytes _ _ _ P8) by lia. rewrite (sp_pre _ _ _ S7) by lia.
      rewrite (sp_pre _ _ _ S5) by lia. rewrite (sp_pre _ _ _ S4) by lia.
      rewrite (sp_pre _ _ _ S3) by lia. apply B2. lia.
    + intros q Hq. rewrite EB in Hq. rewrite Forall_forall in FE. specialize (FE q Hq). lia.
  - rewrite Los. eapply loops_ext_weaken; [|exact LE']. lia.
  - lia.
Qed.

Lemma fun_enter_same : forall name st,
  c_code (fst (fun_enter name st)) = c_code st /\ c_last (fst (fun_enter name st)) = c_last st /\
  c_loops (fst (fun_enter name st)) = c_loops st.
Proof.
  intros name st. unfold fun_enter. destruct (is_nil name); [auto|].
  destruct (define (c_symbols st) name) as [t s]. cbn. auto.
Qed.

Lemma fun_finish_facts : forall P st5, binv P st5 -> 1 <= code_len st5 ->
  binv P (fun_finish st5) /\ code_len st5 <= code_len (fun_finish st5) /\
  c_loops (fun_finish st5) = c_loops st5 /\
  (forall i, 0 <= i < code_len st5 - 1 -> byte_at (fun_finish st5) i = byte_at st5 i).
Proof.
  intros P st5 Hb L. unfold fun_finish. destruct (last_instruction_is OPop st5) eqn:EP.
  - apply last_is_pop in EP. pose proof (remove_last_binv P st5 Hb EP L) as Hr.
    pose proof (remove_last_len st5 L) as Lr.
    pose proof (app_emit_opcode OReturnValue (remove_last_instruction st5)) as A.
    pose proof (app_of_len _ _ _ A) as La. rewrite zlength_cons, zlength_nil in La.
    split; [|split; [lia|split; [reflexivity|]]].
    + eapply binv_grow; [exact Hr|lia|]. intros i Hi. exact (app_of_old _ _ _ i A Hi).
    + intros i Hi. rewrite (app_of_old _ _ _ i A) by lia. apply remove_last_byte. lia.
  - destruct (last_instruction_is OReturnValue st5).
    + split; [exact Hb|]. split; [lia|]. split; reflexivity.
    + pose proof (app_emit_opcode OReturn st5) as A.
      pose proof (app_of_len _ _ _ A) as La. rewrite zlength_cons, zlength_nil in La.
      split; [|split; [lia|split; [reflexivity|]]].
      * eapply binv_grow; [exact Hb|lia|]. intros i Hi. exact (app_of_old _ _ _ i A Hi).
      * intros i Hi. apply (app_of_old _ _ _ i A). lia.
Qed.

Lemma fun_tail_good : forall pos sym st7, code_inv st7 -> good 3 st7 (fun_tail pos sym st7).
Proof.
  intros pos sym st7 I7. unfold fun_tail, leave_context. cbv beta iota zeta.
  apply good_operand. intros ip. apply good_operand. intros nl.
  set (st8 := set_symbols st7 _).
  pose proof (add_constant_same (KFun ip nl) st8) as (E1 & E2 & E3).
  pose proof (add_constant_no_panic (KFun ip nl) st8) as NP.
  destruct (add_constant (KFun ip nl) st8) as [st9 r]. cbn [fst snd] in *.
  destruct r as [idx| | |]; cbn [bind no_panic] in *; try exact I; try contradiction.
  apply (good_from_same 3 st7 st9); [exact E1|exact E3|].
  assert (I9 : code_inv st9) by exact (code_inv_same st7 st9 I7 E1 E2 E3).
  destruct (good_emit3 3 OConst idx st9 ltac:(lia) I9) as (I10 & S10 & L10).
  set (st10 := emit_u16 idx (emit_opcode OConst st9)) in *.
  destruct sym as [s|]; [|exact (conj I10 (conj S10 L10))].
  eapply good_after; [exact S10| |lia].
  eapply (good_bind 3 0 3); [apply good_emit_sym; [lia|exact I10]| |lia].
  intros st11 I11 _ _. apply good_emit3; [lia|exact I11].
Qed.

Lemma function_good : forall name params body st,
  (forall s, code_inv s -> good 1 s (block_statement body s)) ->
  code_inv st -> good 1 st (compile_expression (EFunction name params body) st).
Proof.
  intros name params body st Hb Hinv. rewrite ce_function. pose proof (code_len_nonneg st) as N0.
  destruct (fun_enter_same name st) as (E1 & E1' & E1'').
  destruct (fun_enter name st) as [st1 sym]. cbn [fst] in E1, E1', E1''. cbv beta iota zeta.
  assert (I1 : code_inv st1) by exact (code_inv_same st st1 Hinv E1 E1' E1'').
  assert (L1 : code_len st1 = code_len st) by (unfold code_len; rewrite E1; reflexivity).
  destruct (jump_ph_facts OJump st1 I1) as (I2 & S2 & L2 & Lo2 & B2).
  set (st2 := jump_ph OJump st1) in *.
  set (st3 := set_symbols st2 _).
  set (s0 := set_loops st3 []).
  assert (I0 : code_inv s0).
  { unfold code_inv. change (c_loops s0) with (@nil loopctx). split.
    - intros p Hp. destruct (brk_nil _ Hp).
    - intros p q Hp. destruct (brk_nil _ Hp).
    - intros _ p Hp. destruct (brk_nil _ Hp). }
  pose proof (Hb s0 I0) as G4.
  destruct (block_statement body s0) as [st4| | |]; cbn [bind]; [|exact I|destruct G4..].
  destruct G4 as (I4 & S4 & L4). change (code_len s0) with (code_len st2) in L4.
  set (st5 := set_loops st4 (c_loops st3)).
  assert (L5 : code_len st5 = code_len st4) by reflexivity.
  assert (Bpre : forall i, 0 <= i < code_len st + 3 -> byte_at st5 i = byte_at st2 i).
  { intros i Hi. change (byte_at st5 i) with (byte_at st4 i).
    rewrite (sp_pre _ _ _ S4) by (change (code_len s0) with (code_len st2); lia). reflexivity. }
  assert (Bst : forall i, 0 <= i < code_len st -> byte_at st5 i = byte_at st i).
  { intros i Hi. rewrite Bpre by lia. rewrite (sp_pre _ _ _ S2) by lia.
    unfold byte_at. rewrite E1. reflexivity. }
  assert (I5 : binv (brk (c_loops st)) st5).
  { eapply binv_grow; [exact Hinv|lia|exact Bst]. }
  assert (N5 : 1 <= code_len st5) by lia.
  destruct (fun_finish_facts _ st5 I5 N5) as (I6 & L6 & Lo6 & B6).
  set (st6 := fun_finish st5) in *.
  apply good_operand. intros tg.
  assert (B6' : byte_at st6 (code_len st1) = Some (byte_of_opcode OJump)).
  { rewrite B6 by lia. rewrite Bpre by lia. exact B2. }
  destruct (patch_spec (code_len st1) tg st6 _ (code_len_nonneg st1) B6' jump_byte_jump) as (st7 & E7 & P7).
  rewrite E7. cbn [bind]. pose proof (pa_len _ _ _ P7) as L7.
  assert (Lo6' : c_loops st6 = c_loops st).
  { rewrite Lo6. change (c_loops st5) with (c_loops st2). rewrite Lo2. exact E1''. }
  assert (I7 : code_inv st7).
  { unfold code_inv. rewrite (pa_loops _ _ _ P7), Lo6'. eapply patched_binv; [exact P7|exact I6|].
    intros p Hp. destruct (bi_at _ _ Hinv p Hp) as (_ & X & _). lia. }
  assert (S7 : pstep (code_len st) st st7).
  { split.
    - lia.
    - intros i Hi. rewrite (pa_bytes _ _ _ P7) by lia. rewrite B6 by lia. apply Bst. exact Hi.
    - rewrite (pa_loops _ _ _ P7), Lo6'. apply loops_ext_refl. }
  eapply good_after; [exact S7| |lia].
  eapply good_mono; [|apply fun_tail_good; exact I7]. lia.
Qed.

(** * 13. Blocks *)

Lemma block_statement_good : forall b st,
  (forall s, code_inv s -> good (if is_nil b then 0 else 1) s (compile_statements b s)) ->
  code_inv st -> good 1 st (block_statement b st).
Proof.
  intros b st H Hinv. unfold block_statement. destruct (is_nil b).
  - apply good_emit_opcode; [lia|exact Hinv].
  - apply (good_from_same 1 st (set_symbols st (enter_scope (c_symbols st)))); [reflexivity|reflexivity|].
    eapply (good_bind 1 0 1); [apply H; eapply code_inv_same; [exact Hinv|reflexivity..]| |lia].
    intros st1 I1 _ _. apply good_same; [exact I1|reflexivity..].
Qed.

Lemma block_value_good : forall b st,
  (forall s, code_inv s -> good 1 s (block_statement b s)) ->
  code_inv st -> good 0 st (block_value b st).
Proof.
  intros b st H Hinv. unfold block_value. pose proof (H st Hinv) as G.
  destruct (block_statement b st) as [st1| | |]; cbn [bind]; [|exact I|destruct G..].
  destruct G as (I1 & S1 & L1). destruct (is_nil b).
  - cbn [good]. split; [exact I1|]. split; [exact S1|lia].
  - destruct (last_instruction_is OPop st1) eqn:EP.
    + apply good_remove_last; [exact I1|exact S1|exact L1|apply last_is_pop; exact EP].
    + eapply good_after; [exact S1| |lia]. apply good_emit_opcode; [lia|exact I1].
Qed.

(** * 14. stop / volgende *)

Lemma break_good : forall st, code_inv st -> good 1 st (compile_statement SBreak st).
Proof.
  intros st Hinv. rewrite cs_break. cbv zeta. pose proof (code_len_nonneg st) as N0.
  destruct (rev (c_loops st)) as [|ctx rest] eqn:R; [exact I|].
  assert (EL : c_loops st = rev rest ++ [ctx]).
  { rewrite <- (rev_involutive (c_loops st)), R. reflexivity. }
  cbn [rev].
  set (pos := code_len (emit_opcode ONull st)).
  set (c' := mkLoop (l_start ctx) (l_breaks ctx ++ [pos])).
  pose proof (app_emit_opcode ONull st) as A1.
  destruct (app_facts _ _ _ A1 ltac:(zl) Hinv) as (I1 & S1 & L1 & Lo1).
  rewrite zlength_cons, zlength_nil in L1. fold pos in L1.
  destruct (jump_ph_facts OJump _ I1) as (I2 & S2 & L2 & Lo2 & B2). fold pos in L2, B2.
  set (st2 := jump_ph OJump (emit_opcode ONull st)) in *.
  assert (Lo : c_loops st2 = c_loops st) by (rewrite Lo2; exact Lo1).
  cbn [good]. split; [|split; [split|]].
  - unfold code_inv. change (c_loops (set_loops st2 (rev rest ++ [c']))) with (rev rest ++ [c']).
    apply (binv_same _ st2); [|reflexivity|reflexivity].
    unfold code_inv in I2. rewrite Lo in I2.
    assert (Hadd : binv (fun p => brk (c_loops st) p \/ p = pos) st2).
    { apply binv_add; [exact I2| |lia|lia|exact B2|].
      - intros p Hp. destruct (bi_at _ _ Hinv p Hp) as (_ & X & _). lia.
      - intros Hl. discriminate Hl. }
    eapply binv_weaken; [|exact Hadd]. intros p Hp. apply brk_snoc in Hp. rewrite EL.
    destruct Hp as [Hp|Hp].
    + left. apply brk_snoc. left. exact Hp.
    + unfold c' in Hp. cbn [l_breaks] in Hp. apply in_app_or in Hp. destruct Hp as [Hp|[Hp|[]]].
      * left. apply brk_snoc. right. exact Hp.
      * right. symmetry. exact Hp.
  - change (code_len (set_loops st2 (rev rest ++ [c']))) with (code_len st2). lia.
  - intros i Hi. change (byte_at (set_loops st2 (rev rest ++ [c'])) i) with (byte_at st2 i).
    rewrite (sp_pre _ _ _ S2) by lia. apply (sp_pre _ _ _ S1). exact Hi.
  - change (c_loops (set_loops st2 (rev rest ++ [c']))) with (rev rest ++ [c']). rewrite EL.
    apply Forall2_app; [apply loops_ext_refl|]. constructor; [|constructor].
    split; [reflexivity|]. exists [pos]. split; [reflexivity|]. constructor; [lia|constructor].
  - change (code_len (set_loops st2 (rev rest ++ [c']))) with (code_len st2). lia.
Qed.

Lemma continue_good : forall st, code_inv st -> good 1 st (compile_statement SContinue st).
Proof.
  intros st Hinv. rewrite cs_continue. destruct (rev (c_loops st)) as [|ctx rest]; [exact I|].
  apply good_operand. intros pos.
  eapply good_app; [eapply app_of_trans; [apply app_emit_opcode|apply app_emit3]|zl|zl|exact Hinv].
Qed.

(** * 15. Infix expressions *)

Lemma generic_good : forall l o r st,
  (forall s, code_inv s -> good 1 s (compile_expression l s)) ->
  (forall s, code_inv s -> good 1 s (compile_expression r s)) ->
  op_has_opcode o = true -> code_inv st -> good 1 st (generic_infix l o r st).
Proof.
  intros l o r st Hl Hr Ho Hinv. unfold generic_infix.
  eapply (good_bind 1 0 1); [apply Hl; exact Hinv| |lia]. intros st1 I1 _ _.
  eapply (good_bind 1 0 0); [apply Hr; exact I1| |lia]. intros st2 I2 _ _.
  unfold op_has_opcode in Ho. destruct (assoc operator_eqb o compile_operator_table); [|discriminate Ho].
  apply good_emit_opcode; [lia|exact I2].
Qed.

Lemma ccvi_good : forall name v op st, code_inv st ->
  good (if snd (compile_const_var_infix name v op st) then 1 else 0) st
       (Ok (fst (compile_const_var_infix name v op st))).
Proof.
  intros name v op st Hinv. unfold compile_const_var_infix.
  pose proof (add_constant_same (KInt v) st) as (E1 & E2 & E3).
  destruct (add_constant (KInt v) st) as [st1 r]. cbn [fst snd] in E1, E2, E3.
  assert (G0 : good 0 st (Ok st1)) by (apply good_same; assumption).
  destruct r as [idx| | |]; cbn [fst snd]; try exact G0.
  destruct (resolve (c_symbols st1) name) as [s|]; cbn [fst snd]; [|exact G0].
  destruct (s_scope s); cbn [fst snd]; [|exact G0].
  destruct (assoc operator_eqb op fused_table) as [opc|]; cbn [fst snd]; [|exact G0].
  destruct (operand 16 (Z.of_nat (s_index s))) as [i| | |]; cbn [fst snd].
  - eapply good_app;
      [apply (app_of_same st st1);
        [exact E1|exact E3|eapply app_of_trans; [apply app_emit3|apply app_emit_u16]]
      |zl|zl|exact Hinv].
  - eapply good_app;
      [apply (app_of_same st st1); [exact E1|exact E3|apply app_emit_opcode]|zl|zl|exact Hinv].
  - eapply good_app;
      [apply (app_of_same st st1); [exact E1|exact E3|apply app_emit_opcode]|zl|zl|exact Hinv].
  - eapply good_app;
      [apply (app_of_same st st1); [exact E1|exact E3|apply app_emit_opcode]|zl|zl|exact Hinv].
Qed.

(** * 16. The main induction *)

Definition Ge (e : expr) : Prop :=
  ops_ok_e e = true -> forall st, code_inv st -> good 1 st (compile_expression e st).
Definition Gs (s : stmt) : Prop :=
  ops_ok_s s = true -> forall st, code_inv st -> good 1 st (compile_statement s st).
(* compile_expression looks one level into the target of an assignment *)
Definition sub_ok (e : expr) : Prop :=
  match e with EIndex a b => Ge a /\ Ge b | _ => True end.

Lemma good_refl : forall st, code_inv st -> good 0 st (Ok st).
Proof. intros st H. cbn [good]. split; [exact H|]. split; [apply pstep_refl|lia]. Qed.

Lemma stmts_good : forall b, Forall Gs b -> forallb ops_ok_s b = true ->
  forall st, code_inv st -> good (if is_nil b then 0 else 1) st (compile_statements b st).
Proof.
  intros b H. induction H as [|s b Hs H IH]; intros Hop st Hinv.
  - apply good_refl. exact Hinv.
  - cbn [forallb] in Hop. apply andb_true_iff in Hop. destruct Hop as [Hop1 Hop2].
    cbn [is_nil compile_statements].
    eapply (good_bind 1 0 1); [exact (Hs Hop1 st Hinv)| |lia]. intros st1 I1 _ _.
    eapply good_mono; [|exact (IH Hop2 st1 I1)]. destruct (is_nil b); lia.
Qed.

Lemma exprs_good : forall l, Forall (fun e => Ge e /\ sub_ok e) l -> forallb ops_ok_e l = true ->
  forall st, code_inv st -> good 0 st (compile_exprs l st).
Proof.
  intros l H. induction H as [|e l [He _] H IH]; intros Hop st Hinv.
  - apply good_refl. exact Hinv.
  - cbn [forallb] in Hop. apply andb_true_iff in Hop. destruct Hop as [Hop1 Hop2].
    cbn [compile_exprs].
    eapply (good_bind 1 0 0); [exact (He Hop1 st Hinv)| |lia]. intros st1 I1 _ _.
    exact (IH Hop2 st1 I1).
Qed.

Lemma block_good : forall b, Forall Gs b -> forallb ops_ok_s b = true ->
  forall st, code_inv st -> good 1 st (block_statement b st).
Proof. intros b H Hop st Hinv. apply block_statement_good; [|exact Hinv]. apply stmts_good; assumption. Qed.

Lemma bvalue_good : forall b, Forall Gs b -> forallb ops_ok_s b = true ->
  forall st, code_inv st -> good 0 st (block_value b st).
Proof. intros b H Hop st Hinv. apply block_value_good; [|exact Hinv]. apply block_good; assumption. Qed.

Ltac split_ops H :=
  repeat match type of H with
         | _ && _ = true => let H2 := fresh H in apply andb_true_iff in H; destruct H as [H H2]
         end.

Theorem compile_good_all : (forall e, Ge e /\ sub_ok e) /\ (forall s, Gs s).
Proof.
  apply expr_stmt_ind.
  - (* EInfix *)
    intros l o r [Gl _] [Gr _]. split; [|exact I]. intros Hop st Hinv. cbn [ops_ok_e] in Hop.
    apply andb_true_iff in Hop. destruct Hop as [Hop Hr]. apply andb_true_iff in Hop. destruct Hop as [Ho Hl].
    rewrite ce_infix.
    destruct (fused_candidate l r o) as [[[name v] op']|];
      [|apply generic_good; [exact (Gl Hl)|exact (Gr Hr)|exact Ho|exact Hinv]].
    pose proof (ccvi_good name v op' st Hinv) as Gc.
    destruct (compile_const_var_infix name v op' st) as [st1 done]. cbn [fst snd] in Gc.
    destruct done; [exact Gc|]. destruct Gc as (I1 & S1 & _).
    eapply good_after; [exact S1| |lia].
    apply generic_good; [exact (Gl Hl)|exact (Gr Hr)|exact Ho|exact I1].
  - (* EPrefix *)
    intros o r [Gr _]. split; [|exact I]. intros Hop st Hinv. cbn [ops_ok_e] in Hop. rewrite ce_prefix.
    eapply (good_bind 1 0 1); [exact (Gr Hop st Hinv)| |lia]. intros st1 I1 _ _.
    destruct o; try exact I; apply good_emit_opcode; (lia || exact I1).
  - (* EInt *)
    intros z. split; [|exact I]. intros _ st Hinv. apply (good_emit_const 1 (KInt z) st); [lia|exact Hinv].
  - (* EFloat *)
    intros x. split; [|exact I]. intros _ st Hinv.
    change (compile_expression (EFloat x) st) with (emit_const (KFloat x) (count_alloc st)).
    apply (good_from_same 1 st (count_alloc st)); [reflexivity|reflexivity|].
    apply good_emit_const; [lia|]. eapply code_inv_same; [exact Hinv|reflexivity..].
  - (* EBool *)
    intros b. split; [|exact I]. intros _ st Hinv.
    change (compile_expression (EBool b) st) with (Ok (emit_opcode (if b then OTrue else OFalse) st)).
    apply good_emit_opcode; [lia|exact Hinv].
  - (* EIf *)
    intros c t alt [Gc _] Ht Ha. split; [|exact I]. intros Hop st Hinv. cbn [ops_ok_e] in Hop.
    apply andb_true_iff in Hop. destruct Hop as [Hop Hoa]. apply andb_true_iff in Hop. destruct Hop as [Hoc Hot].
    apply if_good; [exact (Gc Hoc)| | |exact Hinv].
    + intros s Hs. apply bvalue_good; assumption.
    + intros s Hs. destruct alt as [a|].
      * apply bvalue_good; assumption.
      * apply good_emit_opcode; [lia|exact Hs].
  - (* EIdent *)
    intros x. split; [|exact I]. intros _ st Hinv.
    change (compile_expression (EIdent x) st) with
      (match resolve (c_symbols st) x with
       | Some s => emit_sym (scoped s OGetGlobal OGetLocal) s st
       | None => Err EReferenceError
       end).
    destruct (resolve (c_symbols st) x) as [s|]; [|exact I]. apply good_emit_sym; [lia|exact Hinv].
  - (* EFunction *)
    intros n ps body Hb. split; [|exact I]. intros Hop st Hinv. cbn [ops_ok_e] in Hop.
    apply function_good; [|exact Hinv]. intros s Hs. apply block_good; assumption.
  - (* ECall *)
    intros h args [Gh _] Hargs. split; [|exact I]. intros Hop st Hinv. cbn [ops_ok_e] in Hop.
    apply andb_true_iff in Hop. destruct Hop as [Hoh Hoa]. rewrite ce_call.
    eapply (good_bind 0 1 1); [exact (exprs_good args Hargs Hoa st Hinv)| |lia]. intros st1 I1 _ _.
    destruct (match h with EIdent name => assoc_text name builtin_names | _ => None end) as [b|].
    + apply good_operand. intros n.
      eapply good_app;
        [eapply app_of_trans; [eapply app_of_trans; [apply app_emit_opcode|apply app_emit_u8]|apply app_emit_u8]
        |zl|zl|exact I1].
    + eapply (good_bind 1 0 1); [exact (Gh Hoh st1 I1)| |lia]. intros st2 I2 _ _.
      apply good_operand. intros n.
      eapply good_app; [eapply app_of_trans; [apply app_emit_opcode|apply app_emit_u8]|zl|zl|exact I2].
  - (* EAssign *)
    intros l r [Gl Sl] [Gr _]. split; [|exact I]. intros Hop st Hinv. cbn [ops_ok_e] in Hop.
    apply andb_true_iff in Hop. destruct Hop as [Hol Hor].
    destruct l; try exact I.
    + (* identifier *)
      rewrite ce_assign_ident. destruct (resolve (c_symbols st) s) as [sy|]; [|exact I].
      eapply (good_bind 1 0 1); [exact (Gr Hor st Hinv)| |lia]. intros st1 I1 _ _.
      eapply (good_bind 0 0 0); [apply good_emit_sym; [lia|exact I1]| |lia]. intros st2 I2 _ _.
      apply good_emit_sym; [lia|exact I2].
    + (* index *)
      destruct Sl as [Ga Gi]. cbn [ops_ok_e] in Hol. apply andb_true_iff in Hol. destruct Hol as [Hoa Hoi].
      rewrite ce_assign_index.
      eapply (good_bind 1 0 1); [exact (Ga Hoa st Hinv)| |lia]. intros st1 I1 _ _.
      eapply (good_bind 0 0 0); [eapply good_mono; [|exact (Gi Hoi st1 I1)]; lia| |lia]. intros st2 I2 _ _.
      eapply (good_bind 0 0 0); [eapply good_mono; [|exact (Gr Hor st2 I2)]; lia| |lia]. intros st3 I3 _ _.
      apply good_emit_opcode; [lia|exact I3].
  - (* EString *)
    intros s. split; [|exact I]. intros _ st Hinv.
    change (compile_expression (EString s) st) with (emit_const (KStr s) (count_alloc st)).
    apply (good_from_same 1 st (count_alloc st)); [reflexivity|reflexivity|].
    apply good_emit_const; [lia|]. eapply code_inv_same; [exact Hinv|reflexivity..].
  - (* EArray *)
    intros vs Hvs. split; [|exact I]. intros Hop st Hinv. cbn [ops_ok_e] in Hop. rewrite ce_array.
    eapply (good_bind 0 1 1); [exact (exprs_good vs Hvs Hop st Hinv)| |lia]. intros st1 I1 _ _.
    apply good_operand. intros n. apply good_emit3; [lia|exact I1].
  - (* EIndex *)
    intros b i [Gb _] [Gi _]. split; [|split; assumption]. intros Hop st Hinv. cbn [ops_ok_e] in Hop.
    apply andb_true_iff in Hop. destruct Hop as [Hob Hoi]. rewrite ce_index.
    eapply (good_bind 1 0 1); [exact (Gb Hob st Hinv)| |lia]. intros st1 I1 _ _.
    eapply (good_bind 0 0 0); [eapply good_mono; [|exact (Gi Hoi st1 I1)]; lia| |lia]. intros st2 I2 _ _.
    apply good_emit_opcode; [lia|exact I2].
  - (* EWhile *)
    intros c b [Gc _] Hb. split; [|exact I]. intros Hop st Hinv. cbn [ops_ok_e] in Hop.
    apply andb_true_iff in Hop. destruct Hop as [Hoc Hob].
    apply while_good; [exact (Gc Hoc)| |exact Hinv]. intros s Hs. apply bvalue_good; assumption.
  - (* SLet *)
    intros n e [Ge' _] Hop st Hinv. cbn [ops_ok_s] in Hop. rewrite cs_let.
    destruct (define (c_symbols st) n) as [t sym].
    apply (good_from_same 1 st (set_symbols st t)); [reflexivity|reflexivity|].
    eapply (good_bind 1 0 1); [apply (Ge' Hop); eapply code_inv_same; [exact Hinv|reflexivity..]| |lia].
    intros st1 I1 _ _. apply good_emit_sym; [lia|exact I1].
  - (* SReturn *)
    intros e [Ge' _] Hop st Hinv. cbn [ops_ok_s] in Hop.
    change (compile_statement (SReturn e) st) with
      (if in_global_context (c_symbols st) then Err ESyntaxError
       else do st1 <- compile_expression e st; Ok (emit_opcode OReturnValue st1)).
    destruct (in_global_context (c_symbols st)); [exact I|].
    eapply (good_bind 1 0 1); [exact (Ge' Hop st Hinv)| |lia]. intros st1 I1 _ _.
    apply good_emit_opcode; [lia|exact I1].
  - (* SExpr *)
    intros e [Ge' _] Hop st Hinv. cbn [ops_ok_s] in Hop.
    change (compile_statement (SExpr e) st) with
      (do st1 <- compile_expression e st; Ok (emit_opcode OPop st1)).
    eapply (good_bind 1 0 1); [exact (Ge' Hop st Hinv)| |lia]. intros st1 I1 _ _.
    apply good_emit_opcode; [lia|exact I1].
  - (* SBlock *)
    intros b Hb Hop st Hinv. cbn [ops_ok_s] in Hop. rewrite cs_block.
    pose proof (stmts_good b Hb Hop) as Hs. destruct (is_nil b).
    + eapply good_app; [eapply app_of_trans; [apply app_emit_opcode|apply app_emit_opcode]|zl|zl|exact Hinv].
    + apply (good_from_same 1 st (set_symbols st (enter_scope (c_symbols st)))); [reflexivity|reflexivity|].
      eapply (good_bind 1 0 1); [apply Hs; eapply code_inv_same; [exact Hinv|reflexivity..]| |lia].
      intros st1 I1 _ _. apply good_same; [exact I1|reflexivity..].
  - (* SBreak *)
    intros _ st Hinv. apply break_good. exact Hinv.
  - (* SContinue *)
    intros _ st Hinv. apply continue_good. exact Hinv.
Qed.

(** * 17. The theorems *)

(* what `good` says about an Ok result, without the positional vocabulary: the old code is a
   literal prefix of the new code, at least d bytes were emitted, the loop contexts are the
   same contexts with possibly more recorded breaks (all inside the new part) *)
Lemma prefix_of_nth : forall A (l l' : list A), (length l <= length l')%nat ->
  (forall i, (i < length l)%nat -> nth_error l' i = nth_error l i) -> l' = l ++ skipn (length l) l'.
Proof.
  intros A l. induction l as [|a l IH]; intros l' Hlen H; [reflexivity|].
  destruct l' as [|y l']; [cbn [length] in Hlen; lia|]. cbn [length skipn app]. f_equal.
  - specialize (H 0%nat). cbn [length nth_error] in H. specialize (H ltac:(lia)). congruence.
  - apply IH; [cbn [length] in Hlen; lia|]. intros i Hi. apply (H (S i)). cbn [length]. lia.
Qed.

Lemma pstep_prefix : forall st st', pstep (code_len st) st st' ->
  c_code st' = c_code st ++ skipn (length (c_code st)) (c_code st').
Proof.
  intros st st' [A B _]. apply prefix_of_nth.
  - unfold code_len, zlength in A. lia.
  - intros i Hi. specialize (B (Z.of_nat i)). unfold byte_at, code_len, zlength in B.
    rewrite Nat2Z.id in B. apply B. lia.
Qed.

Theorem good_ok : forall d st st', good d st (Ok st') ->
  code_inv st' /\
  (exists suf, c_code st' = c_code st ++ suf /\ d <= zlength suf) /\
  loops_ext (code_len st) (c_loops st) (c_loops st') /\
  map l_start (c_loops st') = map l_start (c_loops st).
Proof.
  intros d st st' (A & B & C). split; [exact A|]. split; [|split].
  - exists (skipn (length (c_code st)) (c_code st')). pose proof (pstep_prefix _ _ B) as E.
    split; [exact E|]. unfold code_len, zlength in *. rewrite E, app_length in C. lia.
  - exact (sp_loops _ _ _ B).
  - exact (loops_ext_starts _ _ _ (sp_loops _ _ _ B)).
Qed.

Lemma good_no_panic : forall d st o, good d st o -> no_panic o.
Proof. intros d st [s| | |] H; cbn [good no_panic] in *; auto. Qed.

(* the invariant-preservation statements *)
Theorem compile_expression_inv : forall e st, ops_ok_e e = true -> code_inv st ->
  good 1 st (compile_expression e st).
Proof. intros e st H. exact (proj1 (proj1 compile_good_all e) H st). Qed.

Theorem compile_statement_inv : forall s st, ops_ok_s s = true -> code_inv st ->
  good 1 st (compile_statement s st).
Proof. intros s st H. exact (proj2 compile_good_all s H st). Qed.

Theorem compile_statements_inv : forall b st, forallb ops_ok_s b = true -> code_inv st ->
  good 0 st (compile_statements b st).
Proof.
  intros b st H Hinv. eapply good_mono; [|apply stmts_good; [|exact H|exact Hinv]].
  - destruct (is_nil b); lia.
  - apply Forall_forall. intros s _. exact (proj2 compile_good_all s).
Qed.

(* spelled out: on success the old code is a literal prefix of the new one (jumps are only patched
   inside the part the call emitted), something was emitted, the loop contexts are those of before *)
Corollary compile_expression_ok : forall e st st', ops_ok_e e = true -> code_inv st ->
  compile_expression e st = Ok st' ->
  code_inv st' /\ (exists suf, c_code st' = c_code st ++ suf /\ 1 <= zlength suf) /\
  loops_ext (code_len st) (c_loops st) (c_loops st') /\
  map l_start (c_loops st') = map l_start (c_loops st).
Proof.
  intros e st st' H Hinv E. apply good_ok. rewrite <- E. apply compile_expression_inv; assumption.
Qed.

Corollary compile_statement_ok : forall s st st', ops_ok_s s = true -> code_inv st ->
  compile_statement s st = Ok st' ->
  code_inv st' /\ (exists suf, c_code st' = c_code st ++ suf /\ 1 <= zlength suf) /\
  loops_ext (code_len st) (c_loops st) (c_loops st') /\
  map l_start (c_loops st') = map l_start (c_loops st).
Proof.
  intros s st st' H Hinv E. apply good_ok. rewrite <- E. apply compile_statement_inv; assumption.
Qed.

(* the parser's trees *)
Lemma wf_tree_ops_ok : forall b, wf_tree b = true -> forallb ops_ok_s b = true.
Proof.
  intros b H. unfold wf_tree, wf_tree_gen in H. eapply forallb_imp; [|exact H].
  apply Forall_forall. intros s _. exact (proj2 (wf_ops_ok (fun _ => true)) s).
Qed.

Lemma code_inv_no_loops : forall st, c_loops st = [] -> code_inv st.
Proof.
  intros st E. unfold code_inv. rewrite E. split.
  - intros p Hp. destruct (brk_nil _ Hp).
  - intros p q Hp. destruct (brk_nil _ Hp).
  - intros _ p Hp. destruct (brk_nil _ Hp).
Qed.

Lemma code_inv_new : code_inv compiler_new.
Proof. apply code_inv_no_loops. reflexivity. Qed.

(* 1. the compiler never reaches a panic site on a tree of the parser *)
Theorem compile_statements_no_panic : forall b st, wf_tree b = true -> code_inv st ->
  no_panic (compile_statements b st).
Proof.
  intros b st H Hinv. eapply good_no_panic. apply compile_statements_inv; [|exact Hinv].
  apply wf_tree_ops_ok. exact H.
Qed.

Theorem compile_no_fault : forall b st, wf_tree b = true -> code_inv st ->
  forall f, compile_statements b st <> Fault f.
Proof.
  intros b st H Hinv f E. pose proof (compile_statements_no_panic b st H Hinv) as N.
  rewrite E in N. exact N.
Qed.

Theorem compile_ast_no_panic : forall b st, wf_tree b = true -> code_inv st ->
  no_panic (snd (compile_ast b st)).
Proof.
  intros b st H Hinv. pose proof (compile_statements_no_panic b st H Hinv) as N. unfold compile_ast.
  destruct (compile_statements b st); cbn [snd no_panic] in *; exact N.
Qed.

Theorem compile_ast_no_fault : forall b st, wf_tree b = true -> code_inv st ->
  forall f, snd (compile_ast b st) <> Fault f.
Proof.
  intros b st H Hinv f E. pose proof (compile_ast_no_panic b st H Hinv) as N. rewrite E in N. exact N.
Qed.

(* a session (compile_ast applied again and again to the retained compiler): a compiler with no
   open loop context stays one, whatever the outcome, so the invariant holds at every round *)
Theorem compile_ast_session : forall b st, wf_tree b = true -> c_loops st = [] ->
  c_loops (fst (compile_ast b st)) = [] /\ no_panic (snd (compile_ast b st)).
Proof.
  intros b st H E. pose proof (code_inv_no_loops st E) as Hinv.
  split; [|exact (compile_ast_no_panic b st H Hinv)].
  pose proof (compile_statements_inv b st (wf_tree_ops_ok b H) Hinv) as G. unfold compile_ast.
  destruct (compile_statements b st) as [st1| | |]; cbn [fst c_loops] in *; try reflexivity; try contradiction.
  destruct G as (_ & S & _). pose proof (loops_ext_length _ _ _ (sp_loops _ _ _ S)) as L.
  rewrite E in L. cbn [length] in L. cbn [emit_opcode c_loops].
  destruct (c_loops st1); [reflexivity|discriminate L].
Qed.

(* 2. compile answers with bytecode or a documented error kind (OutOfFuel is impossible by
   construction: the compiler is structurally recursive) *)
Theorem compile_result_kinds : forall b, wf_tree b = true ->
  (exists bc, compile b = Ok bc) \/ (exists k, compile b = Err k).
Proof.
  intros b H. pose proof (compile_ast_no_panic b compiler_new H code_inv_new) as N. unfold compile.
  destruct (snd (compile_ast b compiler_new)) as [bc|k| |]; cbn [no_panic] in N;
    [left; exists bc; reflexivity|right; exists k; reflexivity|contradiction..].
Qed.

Theorem compile_no_fault_new : forall b, wf_tree b = true -> forall f, compile b <> Fault f.
Proof.
  intros b H f E. destruct (compile_result_kinds b H) as [[bc E']|[k E']]; rewrite E in E'; discriminate E'.
Qed.

(** * 18. The whole front end *)

(* the shape of the float tokens the lexer produces: digits '.' digits *)
Definition float_shape (s : text) : Prop :=
  exists ds fs, s = ds ++ 46%N :: fs /\ ds <> [] /\
                forallb is_digit ds = true /\ forallb is_digit fs = true.

Lemma lexer_floats_shaped : forall u src s, In (TFloatLit s) (tokens u src) -> float_shape s.
Proof.
  intros u src s Hin. pose proof (LexerProofs.lex_tokens_printable u src) as F.
  rewrite Forall_forall in F. destruct (F _ Hin) as [E|P]; [discriminate E|exact P].
Qed.

(* 3. every text gets bytecode or a documented error kind from lexer + parser + compiler,
   provided str::parse::<f64> accepts what the lexer calls a float literal *)
Theorem front_end_result_kinds : forall u orc src,
  (forall s, float_shape s -> parse_float orc s <> None) ->
  (exists bc, front u orc src = Ok bc) \/ (exists k, front u orc src = Err k).
Proof.
  intros u orc src Hpf. unfold front, parse.
  assert (Hts : forall s, In (TFloatLit s) (tokens u src) -> parse_float orc s <> None).
  { intros s Hin. apply Hpf. exact (lexer_floats_shaped u src s Hin). }
  destruct (ParserTermination.parse_total (parse_float orc) (tokens u src) Hts) as [[b E]|[k E]];
    rewrite E; cbn [bind].
  - unfold parse_tokens in E. pose proof (PrinterProofs.wf_complete (parse_float orc) _ _ b E) as W.
    exact (compile_result_kinds b W).
  - right. exists k. reflexivity.
Qed.

Theorem front_end_no_panic : forall u orc src,
  (forall s, float_shape s -> parse_float orc s <> None) ->
  match front u orc src with Ok _ | Err _ => True | _ => False end.
Proof.
  intros u orc src Hpf. destruct (front_end_result_kinds u orc src Hpf) as [[bc ->]|[k ->]]; exact I.
Qed.

(* the same for lib.rs::eval: whatever is rejected before anything runs is rejected with an error kind *)
Theorem eval_front_no_panic : forall u orc src budget r,
  (forall s, float_shape s -> parse_float orc s <> None) ->
  eval u orc src budget = FrontError r -> exists k, r = Err k.
Proof.
  intros u orc src budget r Hpf. unfold eval, parse.
  assert (Hts : forall s, In (TFloatLit s) (tokens u src) -> parse_float orc s <> None).
  { intros s Hin. apply Hpf. exact (lexer_floats_shaped u src s Hin). }
  destruct (ParserTermination.parse_total (parse_float orc) (tokens u src) Hts) as [[b E]|[k E]];
    rewrite E.
  - unfold parse_tokens in E. pose proof (PrinterProofs.wf_complete (parse_float orc) _ _ b E) as W.
    pose proof (compile_ast_no_panic b compiler_new W code_inv_new) as N.
    destruct (compile_ast b compiler_new) as [st [bc|k| |]]; cbn [snd no_panic] in N; try contradiction.
    + discriminate.
    + intros H. injection H as <-. exists k. reflexivity.
  - intros H. injection H as <-. exists k. reflexivity.
Qed.

(** * 19. Examples (by computation): non-vacuity, and the hypotheses cannot be dropped *)

Module CTExamples.
  Definition u0 : unicode := mkUnicode (fun _ => false) (fun _ => false).
  Definition orc_some : oracle := mkOracle (fun _ => []) (fun _ => Some 1.5%float) (fun x _ => x).
  Definition orc_none : oracle := mkOracle (fun _ => []) (fun _ => None) (fun x _ => x).
  Local Open Scope string_scope.

  (* nested loops, stop / volgende, if / else-if / else, a function, a float literal *)
  Definition prog : string :=
    "stel i = 0; stel n = 0;
     functie f(a, b) { als a < b { antwoord a; } anders als a == b { antwoord 0; } anders { antwoord b; } }
     zolang i < 10 {
       stel j = 0;
       zolang ja {
         j = j + 1;
         als j > 5 { stop; }
         als j % 2 == 0 { volgende; }
         n = n + f(i, j) * 1.5;
       }
       i = i + 1;
     }
     n".

  Example ex_hypothesis_satisfiable : forall s, float_shape s -> parse_float orc_some s <> None.
  Proof. intros s _. discriminate. Qed.

  Example ex_prog_compiles :
    exists b bc, parse u0 (parse_float orc_some) (str_cps prog) = Ok b /\ wf_tree b = true /\
                 forallb ops_ok_s b = true /\ compile b = Ok bc /\ Nat.ltb 100 (length (b_code bc)) = true /\
                 front u0 orc_some (str_cps prog) = Ok bc.
  Proof.
    eexists. eexists. split; [vm_compute; reflexivity|]. split; [vm_compute; reflexivity|].
    split; [vm_compute; reflexivity|]. split; [vm_compute; reflexivity|].
    split; vm_compute; reflexivity.
  Qed.

  (* documented errors, not panics: stop outside a loop, stop in a function inside a loop (the
     function body starts with no loop context), an unknown name *)
  Example ex_break_outside : front u0 orc_some (str_cps "stop;") = Err ESyntaxError.
  Proof. vm_compute. reflexivity. Qed.
  Example ex_break_in_function :
    front u0 orc_some (str_cps "zolang ja { functie() { stop; } }") = Err ESyntaxError.
  Proof. vm_compute. reflexivity. Qed.
  Example ex_unknown_name : front u0 orc_some (str_cps "x = 1") = Err EReferenceError.
  Proof. vm_compute. reflexivity. Qed.

  (* the invariant with a pending break: inside a loop, `stop` records position 2 (after the ONull
     of the loop and the ONull of the statement), where an OJump byte is *)
  Example ex_pending_break :
    exists st', compile_statement SBreak (while_enter compiler_new) = Ok st' /\
                c_loops st' = [mkLoop 1 [2]] /\ byte_at st' 2 = Some (byte_of_opcode OJump).
  Proof. eexists. split; [vm_compute; reflexivity|]. split; vm_compute; reflexivity. Qed.
  Example ex_pending_break_inv :
    forall st', compile_statement SBreak (while_enter compiler_new) = Ok st' -> code_inv st'.
  Proof.
    intros st' E. refine (proj1 (compile_statement_ok SBreak _ st' eq_refl _ E)).
    apply while_enter_facts. exact code_inv_new.
  Qed.

  (* outside the parser's image the "unexpected operator" panic IS reachable: the hypothesis on the
     tree cannot be dropped *)
  Example ex_unexpected_operator :
    compile [SExpr (EInfix (EInt 1) OpAssign (EInt 2))] = Fault FUnwrap.
  Proof. vm_compute. reflexivity. Qed.

  (* ... and with a float parser that rejects the lexer's float token the front end panics (in the
     parser): the hypothesis of front_end_no_panic cannot be dropped either *)
  Example ex_float_oracle_needed : front u0 orc_none (str_cps "1.5") = Fault FUnwrap.
  Proof. vm_compute. reflexivity. Qed.
End CTExamples.

Print Assumptions expr_stmt_ind.
Print Assumptions compile_good_all.
Print Assumptions compile_expression_ok.
Print Assumptions compile_no_fault.
Print Assumptions compile_ast_session.
Print Assumptions compile_result_kinds.
Print Assumptions front_end_no_panic.
Print Assumptions eval_front_no_panic.
