(* CompilerTotal.v - property C05 for the compiler: the model of compiler.rs never reaches one of
   its panic sites (`Fault FUnwrap`: the assert! of change_jump_operand_at, loop_contexts.pop().unwrap(),
   panic!("unexpected operator")) on a tree the parser can return, and the whole front end
   (lexer, parser, compiler) answers every text with bytecode or one of the documented error kinds.

   Invariant.  `code_inv st`: every break position recorded in a loop context of `st` is the
   position of an OJump opcode byte whose two operand bytes are inside the code, recorded positions
   are at least 3 apart, and when the last instruction is OPop the operand bytes of every recorded
   jump end strictly before the last byte (so remove_last_instruction never eats an operand).
   Frame.  `pstep n st st'`: the first n bytes of the code are literally unchanged, the code did
   not shrink, and the loop contexts are the same contexts (same number, same l_start) whose break
   lists only grew by positions >= n.  compile_expression / compile_statement satisfy
   `pstep (code_len st) st st'`: the code before the call is a LITERAL prefix of the code after it
   (jumps are only ever patched inside the part the call itself emitted). *)
From NL.Model Require Import Compiler Pipeline.
From NL.Spec Require Import Printer RenderSpec.
From NL.Proofs Require Import AstInduction.
Open Scope Z_scope.

(** * 0. Outcomes *)

Definition no_panic {A} (o : outcome A) : Prop :=
  match o with Ok _ | Err _ => True | _ => False end.

(** * 1. Lists *)

Lemma length_replace_nth : forall A n (x : A) l, length (replace_nth n x l) = length l.
Proof.
  intros A n x l. revert n. induction l as [|y l IH]; intros [|n]; cbn [replace_nth length]; auto.
Qed.

Lemma nth_error_replace_nth_neq : forall A n m (x : A) l, n <> m ->
  nth_error (replace_nth n x l) m = nth_error l m.
Proof.
  intros A n m x l. revert n m. induction l as [|y l IH]; intros [|n] [|m] H; cbn [replace_nth nth_error]; auto.
  - contradiction.
Qed.

Lemma length_removelast' : forall A (l : list A), length (removelast l) = pred (length l).
Proof.
  intros A l. destruct l as [|x l] using rev_ind; [reflexivity|].
  rewrite removelast_last, app_length. cbn [length]. lia.
Qed.

Lemma nth_error_removelast : forall A (l : list A) i, (S i < length l)%nat ->
  nth_error (removelast l) i = nth_error l i.
Proof.
  intros A l i H. destruct l as [|x l] using rev_ind; [cbn in H; lia|].
  rewrite removelast_last. rewrite app_length in H. cbn [length] in H.
  symmetry. apply nth_error_app1. lia.
Qed.

(** * 2. Bytes of the code buffer *)

Definition byte_at (st : cstate) (p : Z) : option Z := nth_error (c_code st) (Z.to_nat p).

Definition is_jump_byte (b : Z) : bool :=
  (b =? byte_of_opcode OJump) || (b =? byte_of_opcode OJumpIfFalse).

(* what change_jump_operand_at tests is what emit_opcode OJump / OJumpIfFalse appended *)
Lemma jump_byte_jump : is_jump_byte (byte_of_opcode OJump) = true.
Proof. reflexivity. Qed.
Lemma jump_byte_jif : is_jump_byte (byte_of_opcode OJumpIfFalse) = true.
Proof. reflexivity. Qed.

Lemma code_len_nonneg : forall st, 0 <= code_len st.
Proof. intros st. unfold code_len, zlength. lia. Qed.

(* st' = st with l appended to the code; loops untouched *)
Definition app_of (st st' : cstate) (l : list Z) : Prop :=
  c_code st' = c_code st ++ l /\ c_loops st' = c_loops st.

Lemma app_of_trans : forall a b c l1 l2, app_of a b l1 -> app_of b c l2 -> app_of a c (l1 ++ l2).
Proof.
  intros a b c l1 l2 [H1 H2] [H3 H4]. split; [|congruence]. rewrite H3, H1, app_assoc. reflexivity.
Qed.

Lemma app_of_len : forall st st' l, app_of st st' l -> code_len st' = code_len st + zlength l.
Proof. intros st st' l [H _]. unfold code_len, zlength. rewrite H, app_length. lia. Qed.

Lemma app_of_old : forall st st' l i, app_of st st' l -> 0 <= i < code_len st ->
  byte_at st' i = byte_at st i.
Proof.
  intros st st' l i [H _] Hi. unfold byte_at, code_len, zlength in *. rewrite H.
  apply nth_error_app1. lia.
Qed.

Lemma app_of_head : forall st st' b l, app_of st st' (b :: l) -> byte_at st' (code_len st) = Some b.
Proof.
  intros st st' b l [H _]. unfold byte_at, code_len, zlength. rewrite H.
  rewrite nth_error_app2 by lia.
  replace (Z.to_nat (Z.of_nat (length (c_code st))) - length (c_code st))%nat with 0%nat by lia.
  reflexivity.
Qed.

Lemma app_emit_opcode : forall op st, app_of st (emit_opcode op st) [byte_of_opcode op].
Proof. intros; split; reflexivity. Qed.
Lemma app_emit_u8 : forall v st, app_of st (emit_u8 v st) [v].
Proof. intros; split; reflexivity. Qed.
Lemma app_emit_u16 : forall v st, app_of st (emit_u16 v st) [v mod 256; (v / 256) mod 256].
Proof. intros; split; reflexivity. Qed.
Lemma app_emit3 : forall op v st,
  app_of st (emit_u16 v (emit_opcode op st)) [byte_of_opcode op; v mod 256; (v / 256) mod 256].
Proof. intros. exact (app_of_trans _ _ _ _ _ (app_emit_opcode op st) (app_emit_u16 v _)). Qed.

(** * 3. The invariant *)

Record binv (P : Z -> Prop) (st : cstate) : Prop := mk_binv {
  bi_at : forall p, P p -> 0 <= p /\ p + 2 < code_len st /\ byte_at st p = Some (byte_of_opcode OJump);
  bi_sep : forall p q, P p -> P q -> p = q \/ p + 3 <= q \/ q + 3 <= p;
  bi_pop : c_last st = Some OPop -> forall p, P p -> p + 3 < code_len st }.

(* p is a break position recorded in some loop context *)
Definition brk (l : list loopctx) (p : Z) : Prop := exists c, In c l /\ In p (l_breaks c).

Definition code_inv (st : cstate) : Prop := binv (brk (c_loops st)) st.

Lemma binv_weaken : forall (P P' : Z -> Prop) st, (forall p, P' p -> P p) -> binv P st -> binv P' st.
Proof.
  intros P P' st H [A B C]. split.
  - intros p Hp. apply A, H, Hp.
  - intros p q Hp Hq. apply B; apply H; assumption.
  - intros L p Hp. apply C; [exact L | apply H, Hp].
Qed.

(* the code grew by at least one byte and its old bytes are unchanged *)
Lemma binv_grow : forall P st st', binv P st -> code_len st < code_len st' ->
  (forall i, 0 <= i < code_len st -> byte_at st' i = byte_at st i) -> binv P st'.
Proof.
  intros P st st' [A B C] L E. split.
  - intros p Hp. destruct (A p Hp) as (A1 & A2 & A3). split; [exact A1|]. split; [lia|].
    rewrite E by lia. exact A3.
  - exact B.
  - intros _ p Hp. destruct (A p Hp) as (A1 & A2 & A3). lia.
Qed.

(* nothing relevant changed *)
Lemma binv_same : forall P st st', binv P st -> c_code st' = c_code st -> c_last st' = c_last st ->
  binv P st'.
Proof.
  intros P st st' [A B C] E1 E2. split.
  - intros p Hp. unfold code_len, byte_at. rewrite E1. exact (A p Hp).
  - exact B.
  - intros L p Hp. unfold code_len. rewrite E1. apply C; [congruence|exact Hp].
Qed.

Lemma binv_add : forall (P : Z -> Prop) st q, binv P st -> (forall p, P p -> p + 3 <= q) ->
  0 <= q -> q + 2 < code_len st -> byte_at st q = Some (byte_of_opcode OJump) ->
  (c_last st = Some OPop -> q + 3 < code_len st) ->
  binv (fun p => P p \/ p = q) st.
Proof.
  intros P st q [A B C] H1 H2 H3 H4 H5. split.
  - intros p [Hp| ->]; [exact (A p Hp)|]. auto.
  - intros p r [Hp| ->] [Hr| ->].
    + exact (B p r Hp Hr).
    + right. left. exact (H1 p Hp).
    + right. right. exact (H1 r Hr).
    + left. reflexivity.
  - intros L p [Hp| ->]; [exact (C L p Hp)|exact (H5 L)].
Qed.

Lemma brk_nil : forall p, ~ brk [] p.
Proof. intros p (c & [] & _). Qed.

Lemma brk_snoc : forall l c p, brk (l ++ [c]) p <-> brk l p \/ In p (l_breaks c).
Proof.
  intros l c p. split.
  - intros (c' & H1 & H2). apply in_app_or in H1. destruct H1 as [H1|[<-|[]]].
    + left. exists c'. auto.
    + right. exact H2.
  - intros [(c' & H1 & H2)|H].
    + exists c'. split; [apply in_or_app; left; exact H1|exact H2].
    + exists c. split; [apply in_or_app; right; left; reflexivity|exact H].
Qed.

(** * 4. How loop contexts evolve *)

Definition ctx_ext (n : Z) (c c' : loopctx) : Prop :=
  l_start c' = l_start c /\
  exists extra, l_breaks c' = l_breaks c ++ extra /\ Forall (fun p => n <= p) extra.

Definition loops_ext (n : Z) : list loopctx -> list loopctx -> Prop := Forall2 (ctx_ext n).

Lemma ctx_ext_refl : forall n c, ctx_ext n c c.
Proof. intros n c. split; [reflexivity|]. exists []. rewrite app_nil_r. auto. Qed.

Lemma loops_ext_refl : forall n l, loops_ext n l l.
Proof. intros n l. induction l; constructor; [apply ctx_ext_refl|assumption]. Qed.

Lemma ctx_ext_trans : forall n m a b c, n <= m -> ctx_ext n a b -> ctx_ext m b c -> ctx_ext n a c.
Proof.
  intros n m a b c L (S1 & x1 & B1 & F1) (S2 & x2 & B2 & F2). split; [congruence|].
  exists (x1 ++ x2). split; [rewrite B2, B1, app_assoc; reflexivity|].
  apply Forall_app. split; [exact F1|]. eapply Forall_impl; [|exact F2]. cbn. intros; lia.
Qed.

Lemma loops_ext_trans : forall n m l1 l2 l3, n <= m ->
  loops_ext n l1 l2 -> loops_ext m l2 l3 -> loops_ext n l1 l3.
Proof.
  intros n m l1 l2 l3 L H. revert l3. induction H as [|a b l1 l2 Hab H IH]; intros l3 H3.
  - inversion H3. constructor.
  - inversion H3 as [|b' c l2' l3' Hbc H3']; subst. constructor.
    + eapply ctx_ext_trans; eassumption.
    + apply IH. assumption.
Qed.

Lemma loops_ext_weaken : forall n m l l', n <= m -> loops_ext m l l' -> loops_ext n l l'.
Proof. intros n m l l' L H. eapply loops_ext_trans; [exact L|apply loops_ext_refl|exact H]. Qed.

Lemma loops_ext_brk : forall n l l' p, loops_ext n l l' -> brk l' p -> brk l p \/ n <= p.
Proof.
  intros n l l' p H. induction H as [|a b l l' Hab H IH]; intros (c & H1 & H2).
  - destruct H1.
  - destruct H1 as [<-|H1].
    + destruct Hab as (_ & x & B & F). rewrite B in H2. apply in_app_or in H2. destruct H2 as [H2|H2].
      * left. exists a. split; [left; reflexivity|exact H2].
      * right. rewrite Forall_forall in F. exact (F p H2).
    + destruct IH as [(c' & I1 & I2)|IH]; [exists c; auto| |right; exact IH].
      left. exists c'. split; [right; exact I1|exact I2].
Qed.

Lemma loops_ext_starts : forall n l l', loops_ext n l l' -> map l_start l' = map l_start l.
Proof.
  intros n l l' H. induction H as [|a b l l' (S & _) H IH]; [reflexivity|].
  cbn [map]. rewrite S, IH. reflexivity.
Qed.

Lemma loops_ext_length : forall n l l', loops_ext n l l' -> length l' = length l.
Proof. intros n l l' H. induction H; cbn [length]; congruence. Qed.

Lemma loops_ext_snoc_inv : forall n l c l2, loops_ext n (l ++ [c]) l2 ->
  exists l' c', l2 = l' ++ [c'] /\ loops_ext n l l' /\ ctx_ext n c c'.
Proof.
  intros n l c l2 H. apply Forall2_app_inv_l in H. destruct H as (l' & r & H1 & H2 & ->).
  inversion H2 as [|c0 c' r0 r' Hc Hr]; subst. inversion Hr; subst.
  exists l', c'. auto.
Qed.

(** * 5. The frame *)

Record pstep (n : Z) (st st' : cstate) : Prop := mk_pstep {
  sp_len : code_len st <= code_len st';
  sp_pre : forall i, 0 <= i < n -> byte_at st' i = byte_at st i;
  sp_loops : loops_ext n (c_loops st) (c_loops st') }.

Lemma pstep_refl : forall n st, pstep n st st.
Proof. intros. split; [lia|reflexivity|apply loops_ext_refl]. Qed.

Lemma pstep_trans : forall n a b c, pstep n a b -> pstep n b c -> pstep n a c.
Proof.
  intros n a b c [A1 A2 A3] [B1 B2 B3]. split.
  - lia.
  - intros i Hi. rewrite B2, A2 by exact Hi. reflexivity.
  - eapply loops_ext_trans; [|exact A3|exact B3]. lia.
Qed.

Lemma pstep_weaken : forall n m a b, n <= m -> pstep m a b -> pstep n a b.
Proof.
  intros n m a b L [A1 A2 A3]. split; [exact A1| |].
  - intros i Hi. apply A2. lia.
  - eapply loops_ext_weaken; eassumption.
Qed.

Lemma pstep_app : forall st st' l, app_of st st' l -> pstep (code_len st) st st'.
Proof.
  intros st st' l H. split.
  - rewrite (app_of_len _ _ _ H). unfold zlength. lia.
  - intros i Hi. eapply app_of_old; eassumption.
  - destruct H as [_ H]. rewrite H. apply loops_ext_refl.
Qed.

(* composition used everywhere: a step from a, then a step from b (b at least as long as a) *)
Lemma pstep_then : forall a b c, pstep (code_len a) a b -> pstep (code_len b) b c ->
  pstep (code_len a) a c.
Proof.
  intros a b c H1 H2. eapply pstep_trans; [exact H1|]. eapply pstep_weaken; [|exact H2].
  exact (sp_len _ _ _ H1).
Qed.

(** * 6. The judgement: Ok with invariant and frame, or a documented error; never a panic *)

Definition good (d : Z) (st : cstate) (o : outcome cstate) : Prop :=
  match o with
  | Ok st' => code_inv st' /\ pstep (code_len st) st st' /\ code_len st + d <= code_len st'
  | Err _ => True
  | _ => False
  end.

Lemma good_mono : forall d d' st o, d' <= d -> good d st o -> good d' st o.
Proof.
  intros d d' st [st'| | |] L H; cbn [good] in *; auto. destruct H as (A & B & C). split; [exact A|split; [exact B|lia]].
Qed.

Lemma good_bind : forall d1 d2 d st e k,
  good d1 st e ->
  (forall st1, code_inv st1 -> pstep (code_len st) st st1 -> code_len st + d1 <= code_len st1 ->
               good d2 st1 (k st1)) ->
  d <= d1 + d2 -> good d st (bind e k).
Proof.
  intros d1 d2 d st [st1| | |] kk H K L; cbn [good bind] in *; auto.
  destruct H as (A & B & C). specialize (K st1 A B C).
  destruct (kk st1) as [st2| | |]; cbn [good] in *; auto.
  destruct K as (A2 & B2 & C2). split; [exact A2|]. split; [|lia].
  eapply pstep_then; eassumption.
Qed.

Lemma good_operand : forall d st bits v k, (forall x, good d st (k x)) -> good d st (bind (operand bits v) k).
Proof. intros d st bits v k H. unfold operand. destruct (v <? 2 ^ bits); cbn [bind good]; auto. Qed.

(* a state with the same code, loops and last instruction is as good a starting point *)
Lemma code_inv_same : forall st st', code_inv st -> c_code st' = c_code st -> c_last st' = c_last st ->
  c_loops st' = c_loops st -> code_inv st'.
Proof.
  intros st st' H E1 E2 E3. unfold code_inv. rewrite E3. eapply binv_same; eassumption.
Qed.

Lemma good_app : forall d st st' l, app_of st st' l -> d <= zlength l -> 1 <= zlength l ->
  code_inv st -> good d st (Ok st').
Proof.
  intros d st st' l H L1 L2 I. cbn [good]. pose proof (app_of_len _ _ _ H) as E.
  split; [|split; [eapply pstep_app; exact H|lia]].
  unfold code_inv. destruct H as [H1 H2]. rewrite H2.
  eapply binv_grow; [exact I|lia|]. intros i Hi. eapply app_of_old; [split; eassumption|exact Hi].
Qed.

Lemma good_emit_opcode : forall d op st, d <= 1 -> code_inv st -> good d st (Ok (emit_opcode op st)).
Proof. intros. eapply good_app; [apply app_emit_opcode| | |assumption]; unfold zlength; cbn [length]; lia. Qed.

Lemma good_emit3 : forall d op v st, d <= 3 -> code_inv st ->
  good d st (Ok (emit_u16 v (emit_opcode op st))).
Proof. intros. eapply good_app; [apply app_emit3| | |assumption]; unfold zlength; cbn [length]; lia. Qed.

Lemma good_emit_sym : forall d op s st, d <= 3 -> code_inv st -> good d st (emit_sym op s st).
Proof. intros. unfold emit_sym. apply good_operand. intros x. apply good_emit3; assumption. Qed.

Lemma add_constant_same : forall k st,
  c_code (fst (add_constant k st)) = c_code st /\ c_last (fst (add_constant k st)) = c_last st /\
  c_loops (fst (add_constant k st)) = c_loops st.
Proof. intros k st. unfold add_constant. destruct (const_position k (c_constants st)); cbn; auto. Qed.

Lemma add_constant_no_panic : forall k st, no_panic (snd (add_constant k st)).
Proof.
  intros k st. unfold add_constant, operand.
  destruct (const_position k (c_constants st)); cbn [snd];
    match goal with |- context [?a <? ?b] => destruct (a <? b) end; exact I.
Qed.

(* good relative to a state that differs from st only in symbols/constants/allocation count *)
Lemma good_from_same : forall d st st0 o, c_code st0 = c_code st -> c_loops st0 = c_loops st ->
  good d st0 o -> good d st o.
Proof.
  intros d st st0 [st'| | |] E1 E2 H; cbn [good] in *; auto.
  destruct H as (A & [B1 B2 B3] & C). unfold code_len, byte_at in *. rewrite E1 in *. rewrite E2 in *.
  split; [exact A|]. split; [|exact C]. split; assumption.
Qed.

Lemma good_emit_const : forall d k st, d <= 3 -> code_inv st -> good d st (emit_const k st).
Proof.
  intros d k st L I. unfold emit_const.
  pose proof (add_constant_same k st) as (E1 & E2 & E3). pose proof (add_constant_no_panic k st) as NP.
  destruct (add_constant k st) as [st1 r]. cbn [fst snd] in *.
  destruct r as [idx| | |]; cbn [bind good no_panic] in *; auto.
  apply (good_from_same d st st1); [exact E1|exact E3|].
  apply good_emit3; [exact L|]. eapply code_inv_same; eassumption.
Qed.

(** * 7. Patching a jump *)

Record patched (pos : Z) (st st' : cstate) : Prop := mk_patched {
  pa_len : code_len st' = code_len st;
  pa_loops : c_loops st' = c_loops st;
  pa_last : c_last st' = c_last st;
  pa_bytes : forall i, 0 <= i -> i <> pos + 1 -> i <> pos + 2 -> byte_at st' i = byte_at st i }.

Lemma patch_spec : forall pos v st b, 0 <= pos -> byte_at st pos = Some b -> is_jump_byte b = true ->
  exists st', change_jump_operand_at pos v st = Ok st' /\ patched pos st st'.
Proof.
  intros pos v st b P0 B J. unfold change_jump_operand_at. unfold byte_at in B. rewrite B.
  unfold is_jump_byte in J. rewrite J. eexists. split; [reflexivity|]. split.
  - unfold code_len, zlength. cbn [c_code]. rewrite !length_replace_nth. reflexivity.
  - reflexivity.
  - reflexivity.
  - intros i I0 I1 I2. unfold byte_at. cbn [c_code].
    rewrite !nth_error_replace_nth_neq by lia. reflexivity.
Qed.

Lemma patched_binv : forall P pos st st', patched pos st st' -> binv P st ->
  (forall p, P p -> p <> pos + 1 /\ p <> pos + 2) -> binv P st'.
Proof.
  intros P pos st st' [L1 L2 L3 L4] [A B C] H. split.
  - intros p Hp. destruct (A p Hp) as (A1 & A2 & A3). destruct (H p Hp) as [H1 H2].
    rewrite L1, L4 by lia. auto.
  - exact B.
  - intros L p Hp. rewrite L1. apply C; [congruence|exact Hp].
Qed.

Lemma patched_pstep : forall n pos st st', patched pos st st' -> n <= pos + 1 -> pstep n st st'.
Proof.
  intros n pos st st' [L1 L2 L3 L4] H. split; [lia| |rewrite L2; apply loops_ext_refl].
  intros i Hi. apply L4; lia.
Qed.

Lemma patched_code_inv : forall pos st st', patched pos st st' -> code_inv st ->
  (forall p, brk (c_loops st) p -> p <> pos + 1 /\ p <> pos + 2) -> code_inv st'.
Proof.
  intros pos st st' Hp I H. unfold code_inv. rewrite (pa_loops _ _ _ Hp).
  eapply patched_binv; eassumption.
Qed.

(* the loop of EWhile that patches the recorded breaks *)
Definition patch_step (acc : outcome cstate) (ip : Z) : outcome cstate :=
  do s <- acc; do tg <- operand 16 (code_len s); change_jump_operand_at ip tg s.

Lemma fold_patch_err : forall bs k, fold_left patch_step bs (Err k) = Err k.
Proof. induction bs as [|q bs IH]; intros k; [reflexivity|]. cbn [fold_left]. apply IH. Qed.

Lemma fold_patch_good : forall P bs s, binv P s -> (forall q, In q bs -> P q) ->
  match fold_left patch_step bs (Ok s) with
  | Ok s' => binv P s' /\ code_len s' = code_len s /\ c_loops s' = c_loops s /\
             (forall i, 0 <= i -> (forall q, In q bs -> i <> q + 1 /\ i <> q + 2) -> byte_at s' i = byte_at s i)
  | Err _ => True
  | _ => False
  end.
Proof.
  intros P bs. induction bs as [|q bs IH]; intros s I H.
  - cbn [fold_left]. auto.
  - cbn [fold_left]. unfold patch_step at 2. cbn [bind]. unfold operand.
    destruct (code_len s <? 2 ^ 16); cbn [bind]; [|rewrite fold_patch_err; exact I0].
    assert (Pq : P q) by (apply H; left; reflexivity).
    destruct (bi_at _ _ I q Pq) as (Q0 & Q1 & Q2).
    destruct (patch_spec q (code_len s) s _ Q0 Q2 jump_byte_jump) as (s1 & E & Hp).
    rewrite E.
    assert (I1 : binv P s1).
    { eapply patched_binv; [exact Hp|exact I|]. intros p Pp.
      destruct (bi_sep _ _ I p q Pp Pq) as [->|[L|L]]; lia. }
    specialize (IH s1 I1 (fun r Hr => H r (or_intror Hr))).
    destruct (fold_left patch_step bs (Ok s1)) as [s'| | |]; auto.
    destruct IH as (A & B & C & D). split; [exact A|]. split; [rewrite B; apply (pa_len _ _ _ Hp)|].
    split; [rewrite C; apply (pa_loops _ _ _ Hp)|].
    intros i I0' Hi. rewrite D; [|exact I0'|intros r Hr; apply Hi; right; exact Hr].
    destruct (Hi q (or_introl eq_refl)) as [X Y]. apply (pa_bytes _ _ _ Hp); assumption.
Qed.

(** * 8. remove_last_instruction *)

Lemma last_is_pop : forall st, last_instruction_is OPop st = true -> c_last st = Some OPop.
Proof.
  intros st. unfold last_instruction_is. destruct (c_last st) as [o|]; [|discriminate].
  destruct o; cbn [opcode_eqb]; intros H; try discriminate H; reflexivity.
Qed.

Lemma remove_last_len : forall st, 1 <= code_len st ->
  code_len (remove_last_instruction st) = code_len st - 1.
Proof.
  intros st H. unfold code_len, zlength in *. cbn [remove_last_instruction c_code].
  rewrite length_removelast'. lia.
Qed.

Lemma remove_last_byte : forall st i, 0 <= i < code_len st - 1 ->
  byte_at (remove_last_instruction st) i = byte_at st i.
Proof.
  intros st i H. unfold byte_at, code_len, zlength in *. cbn [remove_last_instruction c_code].
  apply nth_error_removelast. lia.
Qed.

Lemma remove_last_binv : forall P st, binv P st -> c_last st = Some OPop -> 1 <= code_len st ->
  binv P (remove_last_instruction st).
Proof.
  intros P st [A B C] L H. split.
  - intros p Hp. destruct (A p Hp) as (A1 & A2 & A3). pose proof (C L p Hp) as C1.
    rewrite remove_last_len, remove_last_byte by lia. auto.
  - exact B.
  - cbn [remove_last_instruction c_last]. discriminate.
Qed.

(* after a step that emitted at least one byte, dropping a trailing OPop is still a step *)
Lemma good_remove_last : forall st st1, code_inv st1 -> pstep (code_len st) st st1 ->
  code_len st + 1 <= code_len st1 -> c_last st1 = Some OPop ->
  good 0 st (Ok (remove_last_instruction st1)).
Proof.
  intros st st1 I [S1 S2 S3] L P. pose proof (code_len_nonneg st) as N. cbn [good].
  split; [|split; [split|]].
  - unfold code_inv. cbn [remove_last_instruction c_loops]. apply remove_last_binv; [exact I|exact P|lia].
  - rewrite remove_last_len by lia. lia.
  - intros i Hi. rewrite remove_last_byte by lia. apply S2. exact Hi.
  - exact S3.
  - rewrite remove_last_len by lia. lia.
Qed.
