(* CertifyFinal.v - property C02, end to end: every program the front end (lexer, parser, compiler)
   accepts runs without ever leaving the machine's own memory, on all paths, for every budget and
   every oracle.  Combines
     - PrinterProofs.wf_complete      : the parser's trees are in wf_tree,
     - CertifyProofsC.compile_certifies : the compiler's output has a certificate Verify.check accepts,
     - VerifyProofs.run_never_leaves_memory / inv_fresh_start : soundness of `check`. *)
From Coq Require Import ZArith List.
From NL.Model Require Import VM Pipeline.
From NL.Spec Require Import Verify Printer.
From NL.Proofs Require PrinterProofs VerifyProofs CertifyProofsC.
Open Scope Z_scope.

(* soundness of `check`, stated for a program that HAS a certificate (no call to `infer`) *)
Theorem certified_program_never_leaves_memory : forall orc bc budget f c,
  check (mkProgram (b_code bc) (fst (load_consts (b_constants bc) empty_heap))) c = true ->
  o_result (run_program orc bc budget) = Fault f -> c02_fault f = false.
Proof.
  intros orc bc budget f c Hc Hr. unfold run_program in Hr.
  destruct (load_consts (b_constants bc) empty_heap) as [consts h0] eqn:El. cbn [fst] in Hc.
  destruct (run_loop orc (mkProgram (b_code bc) consts) budget (vm_start vm_new consts h0)) as [[r s] k] eqn:Er.
  cbn [o_result] in Hr.
  eapply (VerifyProofs.run_never_leaves_memory orc _ c Hc budget _
            (VerifyProofs.inv_fresh_start _ c consts h0 Hc
               (VerifyProofs.load_consts_heap_ok c _ _ _ _ El (VerifyProofs.heap_ok_empty c)))); [exact Er|exact Hr].
Qed.

(* every tree of the parser that the compiler accepts *)
Theorem compiled_program_never_leaves_memory : forall orc b bc budget f,
  wf_tree b = true -> compile b = Ok bc ->
  o_result (run_program orc bc budget) = Fault f -> c02_fault f = false.
Proof.
  intros orc b bc budget f W H Hr. destruct (CertifyProofsC.compile_certifies b bc W H) as [c Hc].
  exact (certified_program_never_leaves_memory orc bc budget f c Hc Hr).
Qed.

(* every source text the front end accepts *)
Theorem accepted_program_never_leaves_memory : forall u orc src bc budget f,
  front u orc src = Ok bc ->
  o_result (run_program orc bc budget) = Fault f -> c02_fault f = false.
Proof.
  intros u orc src bc budget f H Hr. unfold front in H.
  destruct (parse u (parse_float orc) src) as [ast| | |] eqn:Ep; cbn [bind] in H; try discriminate H.
  unfold parse, parse_tokens in Ep.
  pose proof (PrinterProofs.wf_complete (parse_float orc) _ _ ast Ep) as W.
  exact (compiled_program_never_leaves_memory orc ast bc budget f W H Hr).
Qed.

(* the same for lib.rs::eval: if anything ran at all, it did not leave the machine's memory *)
Theorem eval_never_leaves_memory : forall u orc src budget extra o f,
  eval u orc src budget = Ran extra o -> o_result o = Fault f -> c02_fault f = false.
Proof.
  intros u orc src budget extra o f H Hr. unfold eval in H.
  destruct (parse u (parse_float orc) src) as [ast| | |] eqn:Ep; try discriminate H.
  unfold parse, parse_tokens in Ep.
  pose proof (PrinterProofs.wf_complete (parse_float orc) _ _ ast Ep) as W.
  destruct (compile_ast ast compiler_new) as [st [bc| | |]] eqn:Ec; try discriminate H.
  injection H as _ <-.
  assert (Hc : compile ast = Ok bc) by (unfold compile; rewrite Ec; reflexivity).
  exact (compiled_program_never_leaves_memory orc ast bc budget f W Hc Hr).
Qed.

(** Non-vacuity: a source text with a function, a loop with stop / volgende in operand position, locals,
    a named function inside a function, array literals and indexing is accepted by the front end, and the
    theorem applies to it. *)
Module CFExamples.
  Definition u0 : unicode := mkUnicode (fun _ => false) (fun _ => false).
  Definition orc0 : oracle := mkOracle (fun _ => nil) (fun _ => Some 1.5%float) (fun x _ => x).
  Local Open Scope string_scope.
  Definition src : String.string :=
    "functie som(n) { stel i = 0; stel t = 0; functie dubbel(x) { antwoord x * 2 }
       zolang i < n { i = i + 1; als i == 3 { volgende } stel a = [i, als i > 7 { stop } anders { dubbel(i) }]; t = t + a[1] }
       antwoord t }
     print(som(10)); 1.5 + 2".

  Definition compiled : option bytecode :=
    match front u0 orc0 (str_cps src) with Ok bc => Some bc | _ => None end.

  Example ex_accepted : match compiled with Some bc => Nat.ltb 100 (length (b_code bc)) | None => false end = true.
  Proof. vm_compute. reflexivity. Qed.

  Example ex_applies : forall bc budget f, front u0 orc0 (str_cps src) = Ok bc ->
    o_result (run_program orc0 bc budget) = Fault f -> c02_fault f = false.
  Proof. intros bc budget f. apply accepted_program_never_leaves_memory. Qed.

  (* the run itself, by computation: it prints 50 (the text "50" and a newline) before the last statement
     stops it with a TypeError (float + int) - an error kind, not a fault *)
  Example ex_runs :
    match compiled with
    | Some bc => match o_result (run_program orc0 bc 2000), o_out (run_program orc0 bc 2000) with
                 | Err ETypeError, (53 :: 48 :: 10 :: nil)%N => true
                 | _, _ => false
                 end
    | None => false
    end = true.
  Proof. vm_compute. reflexivity. Qed.
End CFExamples.

Print Assumptions certified_program_never_leaves_memory.
Print Assumptions compiled_program_never_leaves_memory.
Print Assumptions accepted_program_never_leaves_memory.
Print Assumptions eval_never_leaves_memory.
