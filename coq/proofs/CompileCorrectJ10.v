(* CompileCorrectJ10.v - compiler correctness for the fragment F4, part J10: corollaries of
   compile_correct_F4 and examples (the hypotheses are satisfiable, the statements say what they
   should, on a program with functions, arrays, strings, floats, builtins and garbage that the
   collector reclaims at a function return). *)
From Coq Require Import ZArith Lia Bool List String Floats.
From NL.Model Require Import VM.
From NL.Spec Require Import Sem Fragment Fragment2 Fragment2h Fragment3 Fragment4 ArithSpec GCInv VMInv ReachSpec.
From NL.Proofs Require CompilerNames CompileCorrectH4 CompileCorrectH5.
From NL.Proofs Require Import WordProofs OpsProofs VMGCLedger VMGCProofs VMIndexProofs
  CompileCorrectA CompileCorrectB CompileCorrectC CompileCorrectD CompileCorrectH1 CompileCorrectH3
  CompileCorrectJ1 CompileCorrectJ2 CompileCorrectJ0 CompileCorrectJ3 CompileCorrectJ4 CompileCorrectJ5
  CompileCorrectJ6 CompileCorrectJ7 CompileCorrectJ8 CompileCorrectJ9.
Open Scope Z_scope.

(** * Output *)

(* everything printed - at the top level and inside functions - is the same text in the same order,
   also when the run ends in an error *)
Corollary print_output_order_F4 : forall orc p, in_F4 p = true -> ends_expr p = true ->
  lits_exact (lits_b p) ->
  forall bc, compile p = Ok bc ->
  forall fuel, (size3_b p <= fuel)%nat -> sem_program orc fuel p <> SemFuel ->
  sem_small orc fuel p (length (b_constants bc)) ->
  (exists budget, CompileCorrectH5.sem_out (sem_program orc fuel p) = Some (o_out (run_program orc bc budget))) \/
  hits_excluded4 (fun_table p) orc bc.
Proof.
  intros orc p HF HE Hex bc Hc fuel Hsz Hnf Hsm.
  destruct (compile_correct_F4 orc p HF HE Hex bc Hc fuel Hsz Hnf Hsm) as [[budget H]|Hx]; [left|right; exact Hx].
  exists budget.
  destruct (sem_program orc fuel p) as [k|v h out|k out|f out|]; cbn [obs_eq4 CompileCorrectH5.sem_out] in *; try contradiction.
  - destruct H as [v' [hm [_ [_ [Ho _]]]]]. rewrite Ho. reflexivity.
  - destruct H as [_ Ho]. rewrite Ho. reflexivity.
  - destruct H as [_ Ho]. rewrite Ho. reflexivity.
Qed.

(** * What the result reaches is never reclaimed *)

(* the relation of a graph correspondence covers everything the source value reaches, and the
   machine's partner boxes are alive *)
Lemma graph_rel4_total : forall R hs hm v v', val_rel4 R v v' -> graph_rel4 R hs hm ->
  forall l, reach hs [v] l -> exists l', R l l' /\ h_alive hm l' = true.
Proof.
  intros R hs hm v v' Hv [G1 G2 G3] l Hl.
  assert (forall a a' k, val_rel4 R a a' -> val_loc a = Some k -> exists k', R k k') as Hloc.
  { intros a a' k Ha Hk. destruct Ha; cbn [val_loc] in Hk; try discriminate Hk; inversion Hk; subst; eauto. }
  assert (forall k k', R k k' -> h_alive hm k' = true) as Halive.
  { intros k k' Hr. destruct (G1 k k' Hr) as [o [o' [_ [B _]]]]. unfold h_get in B. unfold h_alive.
    destruct (PM.find k' (cells hm)) as [[[|] x]|]; try discriminate B. reflexivity. }
  assert (exists l', R l l') as [l' Hr]; [|exists l'; split; [exact Hr|exact (Halive _ _ Hr)]].
  induction Hl as [a k Hin Hk|la a vs x k Hla IH Hf Hin Hk].
  - destruct Hin as [<-|[]]. exact (Hloc _ _ _ Hv Hk).
  - destruct IH as [la' Hra]. destruct (G1 la la' Hra) as [o [o' [A [_ C]]]].
    unfold h_get in A. rewrite Hf in A. destruct a; try discriminate A. inversion A; subst o.
    destruct o'; cbn [obj_rel4] in C; try contradiction.
    assert (forall vs1 vs2, Forall2 (val_rel4 R) vs1 vs2 -> In x vs1 -> exists x', val_rel4 R x x') as Hin2.
    { intros vs1 vs2 H. induction H as [|p q r1 r2 Hpq _ IH2]; intros Hi; [destruct Hi|].
      destruct Hi as [<-|Hi]; [eauto|exact (IH2 Hi)]. }
    destruct (Hin2 _ _ C Hin) as [x' Hx]. exact (Hloc _ _ _ Hx Hk).
Qed.

(* SOURCE-LEVEL REACHABILITY: when the denotation is a value, every box that value reaches in Sem's
   heap has a partner box on the machine that is ALIVE in the heap the run leaves behind - although
   a collection ran at every function return and the collector was dropped at the end - and holds the
   corresponding contents.  (During the run: CompileCorrectJ1.gc_lockstep - the machine never reads
   a box the collector has released; collect_hle - a collection only flags boxes dead.) *)
Corollary reachable_never_reclaimed_source : forall orc p, in_F4 p = true -> ends_expr p = true ->
  lits_exact (lits_b p) ->
  forall bc, compile p = Ok bc ->
  forall fuel, (size3_b p <= fuel)%nat ->
  sem_small orc fuel p (length (b_constants bc)) ->
  forall v hs out, sem_program orc fuel p = SemValue v hs out ->
  (exists budget v' hm R,
     o_result (run_program orc bc budget) = Ok v' /\ o_heap (run_program orc bc budget) = Ok hm /\
     val_rel4 R v v' /\ graph_rel4 R hs hm /\
     forall l, reach hs [v] l ->
       exists l' o o', R l l' /\ h_alive hm l' = true /\
                       h_get hs l = Ok o /\ h_get hm l' = Ok o' /\ obj_rel4 R o o') \/
  hits_excluded4 (fun_table p) orc bc.
Proof.
  intros orc p HF HE Hex bc Hc fuel Hsz Hsm v hs out Hv.
  destruct (compile_correct_F4 orc p HF HE Hex bc Hc fuel Hsz ltac:(rewrite Hv; discriminate) Hsm) as [[budget H]|Hx];
    [left|right; exact Hx].
  rewrite Hv in H. cbn [obs_eq4] in H. destruct H as [v' [hm [O1 [O2 [_ [R [Hvr G]]]]]]].
  exists budget, v', hm, R. split; [exact O1|]. split; [exact O2|]. split; [exact Hvr|]. split; [exact G|].
  intros l Hl. destruct (graph_rel4_total R hs hm v v' Hvr G l Hl) as [l' [Hr Ha]].
  destruct (gr4_obj _ _ _ G l l' Hr) as [o [o' [A [B C]]]]. exists l', o, o'. auto.
Qed.

(** * Aliasing, also across calls *)

(* two array values of Sem are the same array exactly when their machine partners are *)
Corollary alias_same_F4 : forall R hs hm l1 l2 l1' l2' vs, graph_rel4 R hs hm ->
  R l1 l1' -> R l2 l2' -> get_arr hm l1' = Ok vs -> (l1 = l2 <-> l1' = l2').
Proof.
  intros R hs hm l1 l2 l1' l2' vs [G1 G2 G3] Ha Hb Harr. split.
  - intros ->. exact (G2 _ _ _ Ha Hb).
  - intros ->. destruct (G3 _ _ _ Ha Hb) as [E|[f Hf]]; [exact E|].
    apply get_arr_inv in Harr. rewrite Harr in Hf. discriminate Hf.
Qed.

(* ARRAYS ARE SHARED ACROSS CALLS.  A call whose callee value and arguments are related on the two
   sides (fresh-box evaluator = Sem's view, pool evaluator = the machine) returns related results,
   and the correspondence R of the caller only GROWS: every box the caller knew - in particular an
   array it passed as an argument, which the callee's parameter slot holds as the SAME location -
   still has the same partner after the call, with corresponding contents in the heaps the call
   leaves.  A write of the callee through its parameter is a write to the caller's array, on both
   sides.  (The machine side is the collection-free machine, i.e. by part J1 the machine.) *)
Corollary arrays_shared_across_calls : forall orc K pl Bd, Bd + K + 1 < 2 ^ 60 ->
  forall f fv fv' vs vs' yS yM R v y3,
  vrm R fv fv' -> Forall2 (vrm R) vs vs' -> YR K pl R yS yM ->
  ycall orc lit_fresh f fv vs yS = YOk v y3 -> yn y3 <= Bd ->
  exists v' y3' R', ycall orc (lit_pool pl) f fv' vs' yM = YOk v' y3' /\
    rel_incl R R' /\ vrm R' v v' /\ YR K pl R' y3 y3' /\
    forall l l', R l l' ->
      exists o o', h_get (hs_heap (y_m y3)) l = Ok o /\ h_get (hs_heap (y_m y3')) l' = Ok o' /\ orm R' o o'.
Proof.
  intros orc K pl Bd HBd f fv fv' vs vs' yS yM R v y3 Hfv Hvs HY Hc Hb.
  pose proof (call_rm orc K pl Bd f (proj2 (proj2 (ml_agree orc K pl Bd HBd f))) fv fv' vs vs' yS yM R Hfv Hvs HY) as H.
  rewrite Hc in H. specialize (H Hb).
  destruct (ycall orc (lit_pool pl) f fv' vs' yM) as [v' y3'|y'|y'|w y'|k m|x m|o m|]; cbn [ycorr] in H; try contradiction.
  destruct H as [R' [Hi [Hv HY3]]]. exists v', y3', R'. split; [reflexivity|]. split; [exact Hi|]. split; [exact Hv|].
  split; [exact HY3|]. intros l l' Hr.
  exact (HRm_get _ _ _ _ _ _ (mr_heap _ _ _ _ _ (yr_m _ _ _ _ _ HY3)) (Hi _ _ Hr)).
Qed.

(** * Examples *)

Definition ex4_orc : oracle := CompileCorrectH5.exh_orc.
Definition n_bump : text := str_cps "bump".
Definition n_a : text := [97%N].
Definition n_i : text := [105%N].
Definition n_t : text := [116%N].
Definition n_xs : text := str_cps "xs".
Definition n_ys : text := str_cps "ys".
Definition n_print : text := str_cps "print".
Definition n_lengte : text := str_cps "lengte".
Definition n_type : text := str_cps "type".

(* stel bump = functie(a, i) { stel t = [a, "tmp"]; a[i] = a[i] + 1.5; print("{}", lengte(t)); antwoord a }
   stel xs = [1.5, "hi"]
   stel ys = bump(xs, 0)
   print("{} {}", type(ys[0]), xs[0])
   ys
   - the callee writes to the caller's array through its parameter, allocates garbage (t and its
     string) that the collection at `antwoord` reclaims, prints from inside the function, and
     returns the array, which must survive that collection *)
Definition ex4_prog : block :=
  [ SLet n_bump (EFunction [] [n_a; n_i]
      [ SLet n_t (EArray [EIdent n_a; EString (str_cps "tmp")]);
        SExpr (EAssign (EIndex (EIdent n_a) (EIdent n_i))
                       (EInfix (EIndex (EIdent n_a) (EIdent n_i)) OpAdd (EFloat 1.5%float)));
        SExpr (ECall (EIdent n_print) [EString (str_cps "{}"); ECall (EIdent n_lengte) [EIdent n_t]]);
        SReturn (EIdent n_a) ]);
    SLet n_xs (EArray [EFloat 1.5%float; EString (str_cps "hi")]);
    SLet n_ys (ECall (EIdent n_bump) [EIdent n_xs; EInt 0]);
    SExpr (ECall (EIdent n_print) [EString (str_cps "{} {}"); ECall (EIdent n_type) [EIndex (EIdent n_ys) (EInt 0)];
                                   EIndex (EIdent n_xs) (EInt 0)]);
    SExpr (EIdent n_ys) ].

Example ex4_in_fragment : in_F4 ex4_prog = true /\ ends_expr ex4_prog = true /\ in_F3 ex4_prog = false /\ in_F2h ex4_prog = false.
Proof. vm_compute. repeat split; reflexivity. Qed.

Example ex4_lits_exact : lits_exact (lits_b ex4_prog).
Proof.
  intros f g Hf Hg He. cbn in Hf, Hg.
  repeat (destruct Hf as [Hf|Hf]; [try discriminate Hf; inversion Hf; subst f|]); try contradiction;
    repeat (destruct Hg as [Hg|Hg]; [try discriminate Hg; inversion Hg; subst g|]); try contradiction;
    try reflexivity; vm_compute in He; discriminate He.
Qed.

(* what the machine does, with the collector running at the return of bump: the output of the
   function and of the top level, the result is the array, and the denotation says the same *)
Example ex4_runs :
  match compile ex4_prog with
  | Ok bc =>
      o_out (run_program ex4_orc bc 1000) = str_cps "2" ++ [10%N] ++ str_cps "float f" ++ [10%N]
      /\ (exists l, o_result (run_program ex4_orc bc 1000) = Ok (VArr l))
      /\ CompileCorrectH5.sem_out (sem_program ex4_orc 100 ex4_prog) = Some (o_out (run_program ex4_orc bc 1000))
      /\ (exists l hs out, sem_program ex4_orc 100 ex4_prog = SemValue (VArr l) hs out)
  | _ => False
  end.
Proof. vm_compute. split; [reflexivity|]. split; [eexists; reflexivity|]. split; [reflexivity|]. eexists; eexists; eexists; reflexivity. Qed.

(* the collector really reclaims during this run: boxes are released before the end *)
Example ex4_collects :
  match compile ex4_prog with
  | Ok bc =>
      let '(consts, h0) := load_consts (b_constants bc) empty_heap in
      match run_loop ex4_orc (mkProgram (b_code bc) consts) 1000 (vm_start vm_new consts h0) with
      | (Ok _, s, _) => 0 < n_freed (v_heap s)
      | _ => False
      end
  | _ => False
  end.
Proof. vm_compute. reflexivity. Qed.

Example ex4_by_theorem : forall bc, compile ex4_prog = Ok bc ->
  (exists budget, obs_eq4 (run_program ex4_orc bc budget) (sem_program ex4_orc 100 ex4_prog)) \/
  hits_excluded4 (fun_table ex4_prog) ex4_orc bc.
Proof.
  intros bc H.
  apply (compile_correct_F4 ex4_orc ex4_prog (proj1 ex4_in_fragment) (proj1 (proj2 ex4_in_fragment))
           ex4_lits_exact bc H 100).
  - vm_compute. lia.
  - vm_compute. discriminate.
  - vm_compute in H. inversion H; subst bc. intros st Hst. vm_compute in Hst. inversion Hst; subst st.
    vm_compute. reflexivity.
Qed.

(* an error raised inside a function, after output: same kind, same output *)
Definition ex4_err : block :=
  [ SLet n_bump (EFunction [] [n_a]
      [ SExpr (ECall (EIdent n_print) [EIndex (EIdent n_a) (EInt 0)]);
        SExpr (EIndex (EIdent n_a) (EInt 5)) ]);
    SExpr (ECall (EIdent n_bump) [EArray [EInt 7]]) ].

Example ex4_err_runs :
  in_F4 ex4_err = true /\
  match compile ex4_err with
  | Ok bc => o_result (run_program ex4_orc bc 1000) = Err EIndexError
             /\ o_out (run_program ex4_orc bc 1000) = [55%N; 10%N]
             /\ sem_program ex4_orc 100 ex4_err = SemError EIndexError [55%N; 10%N]
  | _ => False
  end.
Proof. vm_compute. repeat split; reflexivity. Qed.

(* DESIGN 4.3 item 4, why a call with more arguments than parameters is outside the comparison: the
   machine compares the argument count with the number of LOCALS.  f has one parameter and one
   declared variable; f(1, 2) runs on the machine (the second argument lands in the slot of t),
   Sem says ArgumentError *)
Definition ex4_over : block :=
  [ SLet n_bump (EFunction [] [n_a] [ SLet n_t (EInt 0); SExpr (EIdent n_a) ]);
    SExpr (ECall (EIdent n_bump) [EInt 1; EInt 2]) ].

Example ex4_over_differs :
  in_F4 ex4_over = true /\
  match compile ex4_over with
  | Ok bc => o_result (run_program ex4_orc bc 1000) = Ok (VInt 1)
             /\ sem_program ex4_orc 100 ex4_over = SemError EArgumentError []
  | _ => False
  end.
Proof. vm_compute. repeat split; reflexivity. Qed.

Print Assumptions reachable_never_reclaimed_source.
Print Assumptions arrays_shared_across_calls.
Print Assumptions print_output_order_F4.
