(* CompileCorrectH5.v - compiler correctness for the fragment F2h (property C01), part H5:
   the static pass accepts what the compiler accepts, the literals of the program are in the pool
   and the pool's floats are literals of the program, the initial states are related, a halted run
   keeps the result graph when the collector is dropped: the theorem compile_correct_F2h and its
   corollaries (C13 / C14 at source level). *)
From Coq Require Import ZArith Lia Bool List String.
From NL.Model Require Import VM.
From NL.Spec Require Import Sem Fragment Fragment2 Fragment2h ArithSpec GCInv VMInv.
From NL.Proofs Require Import WordProofs OpsProofs AstInduction ControlProofs PoolProofs VMGCLedger
  VMIndexProofs BuiltinsProofs VMTotal GCProofs VMGCProofs
  CompileCorrectA CompileCorrectB CompileCorrectC CompileCorrectD
  CompileCorrectH1 CompileCorrectH2 CompileCorrectH3 CompileCorrectH4.
Open Scope Z_scope.

(** * The symbol table and the pool after a compilation step of the fragment *)

Definition dummy_pl : list (const * val) := [].

Lemma hexpr_facts : forall e lp st st' k outer cur, f2he lp e = true -> c_symbols st = stab k outer cur ->
  compile_expression e st = Ok st' ->
  (exists k', c_symbols st' = stab k' outer cur) /\ exists kx, c_constants st' = c_constants st ++ kx.
Proof.
  intros e lp st st' k outer cur HF Hs Hc.
  destruct (proj1 (hsim_all dummy_orc dummy_pl) e lp st st' k outer cur HF Hs Hc) as [ce [nb [CF _]]].
  split; [exact (cfh_syms _ _ _ _ _ _ CF)|exact (cfh_consts _ _ _ _ _ _ CF)].
Qed.

Lemma hexprs_facts : forall l st st' k outer cur, f2hl l = true -> c_symbols st = stab k outer cur ->
  c_exprs l st = Ok st' ->
  (exists k', c_symbols st' = stab k' outer cur) /\ exists kx, c_constants st' = c_constants st ++ kx.
Proof.
  intros l st st' k outer cur HF Hs Hc.
  destruct (helsim_all dummy_orc dummy_pl l st st' k outer cur HF Hs Hc) as [ce [nb [CF _]]].
  split; [exact (cfh_syms _ _ _ _ _ _ CF)|exact (cfh_consts _ _ _ _ _ _ CF)].
Qed.

Lemma hbv_facts : forall b lp st st' k outer cur, f2hb lp b = true -> c_symbols st = stab k outer cur ->
  c_block_value b st = Ok st' ->
  (exists k', c_symbols st' = stab k' outer cur) /\ exists kx, c_constants st' = c_constants st ++ kx.
Proof.
  intros b lp st st' k outer cur HF Hs Hc.
  destruct (hbv_sim dummy_orc dummy_pl b (hlsim_all dummy_orc dummy_pl b) lp st st' k outer cur HF Hs Hc) as [ce [nb [CF _]]].
  split; [exact (cfh_syms _ _ _ _ _ _ CF)|exact (cfh_consts _ _ _ _ _ _ CF)].
Qed.

Lemma hstmts_facts : forall l lp st st' k outer cur, f2hb lp l = true -> c_symbols st = stab k outer cur ->
  compile_statements l st = Ok st' ->
  (exists k', c_symbols st' = stab k' outer (cur ++ decl_names l)) /\
  exists kx, c_constants st' = c_constants st ++ kx.
Proof.
  intros l lp st st' k outer cur HF Hs Hc.
  destruct (hlsim_all dummy_orc dummy_pl l lp st st' k outer cur HF Hs Hc) as [ce [nb [CF _]]].
  split; [exact (cfh_syms _ _ _ _ _ _ CF)|exact (cfh_consts _ _ _ _ _ _ CF)].
Qed.

(** * Literals in the pool, floats of the pool among the literals *)

(* every literal of L is found in ks *)
Definition pres (L ks : list const) : Prop :=
  forall c, In c L -> const_position c ks <> None.
(* the floats of ks' are floats of ks or literals of L *)
Definition prov (ks ks' L : list const) : Prop :=
  forall f, In (KFloat f) ks' -> In (KFloat f) ks \/ In (KFloat f) L.

Definition cxt (st st' : cstate) : Prop := exists kx, c_constants st' = c_constants st ++ kx.

(* what a compilation step does to the pool, for the literals L of the construct compiled *)
Definition wfacts (L : list const) (st st' : cstate) : Prop :=
  cxt st st' /\ pres L (c_constants st') /\ prov (c_constants st) (c_constants st') L.

Lemma pres_ext : forall L ks kx, pres L ks -> pres L (ks ++ kx).
Proof.
  intros L ks kx H c Hin. specialize (H c Hin).
  destruct (const_position c ks) as [i|] eqn:E; [|contradiction]. rewrite (const_position_app _ _ kx _ E). discriminate.
Qed.

Lemma pres_nil : forall ks, pres [] ks.
Proof. intros ks c []. Qed.

Lemma pres_app : forall L1 L2 ks, pres L1 ks -> pres L2 ks -> pres (L1 ++ L2) ks.
Proof. intros L1 L2 ks H1 H2 c Hin. apply in_app_or in Hin. destruct Hin; auto. Qed.

Lemma cxt_refl : forall st, cxt st st.
Proof. intros st. exists []. rewrite app_nil_r. reflexivity. Qed.
Lemma cxt_trans : forall a b c, cxt a b -> cxt b c -> cxt a c.
Proof. intros a b c [k1 H1] [k2 H2]. exists (k1 ++ k2). rewrite H2, H1, app_assoc. reflexivity. Qed.
Lemma cxt_eq : forall a b, c_constants b = c_constants a -> cxt a b.
Proof. intros a b H. exists []. rewrite app_nil_r. exact H. Qed.

Lemma wfacts_same : forall st st', c_constants st' = c_constants st -> wfacts [] st st'.
Proof.
  intros st st' H. split; [exact (cxt_eq _ _ H)|]. split; [apply pres_nil|].
  intros f Hin. left. rewrite <- H. exact Hin.
Qed.

Lemma wfacts_trans : forall L1 L2 a b c, wfacts L1 a b -> wfacts L2 b c -> wfacts (L1 ++ L2) a c.
Proof.
  intros L1 L2 a b c [X1 [P1 V1]] [X2 [P2 V2]]. split; [exact (cxt_trans _ _ _ X1 X2)|]. split.
  - apply pres_app; [|exact P2]. destruct X2 as [kx ->]. apply pres_ext. exact P1.
  - intros f Hin. destruct (V2 f Hin) as [H|H]; [|right; apply in_or_app; right; exact H].
    destruct (V1 f H) as [H'|H']; [left; exact H'|right; apply in_or_app; left; exact H'].
Qed.

(* the same literals, seen from a later compiler state whose pool is the same *)
Lemma wfacts_post : forall L a b c, wfacts L a b -> c_constants c = c_constants b -> wfacts L a c.
Proof.
  intros L a b c H E. pose proof (wfacts_trans L [] a b c H (wfacts_same b c E)) as W.
  rewrite app_nil_r in W. exact W.
Qed.
Lemma wfacts_pre : forall L a b c, c_constants b = c_constants a -> wfacts L b c -> wfacts L a c.
Proof. intros L a b c E H. exact (wfacts_trans [] L a b c (wfacts_same a b E) H). Qed.

Lemma wfacts_kints : forall st st' kx, c_constants st' = c_constants st ++ kx -> Forall is_kint kx -> wfacts [] st st'.
Proof.
  intros st st' kx H Hk. split; [exists kx; exact H|]. split; [apply pres_nil|].
  intros f Hin. left. rewrite H in Hin. apply in_app_or in Hin. destruct Hin as [Hin|Hin]; [exact Hin|].
  exfalso. rewrite Forall_forall in Hk. destruct (Hk _ Hin) as [z Hz]. discriminate Hz.
Qed.

(* a literal: emit_const *)
Lemma wfacts_emit_const : forall c st0 st st', c_constants st0 = c_constants st -> const_eqb c c = true ->
  emit_const c st0 = Ok st' -> wfacts [c] st st'.
Proof.
  intros c st0 st st' E0 He H.
  destruct (emit_const_spec c st0 st' H) as [_ [_ [idx [kx [_ [Hk [Hkx [_ Hpos]]]]]]]].
  rewrite E0 in Hk, Hpos. split; [exists kx; exact Hk|]. split.
  - intros c' [<-|[]]. rewrite Hk. destruct Hpos as [Hp|[Hn [-> _]]].
    + rewrite (const_position_app _ _ kx _ Hp). discriminate.
    + rewrite (const_position_new c (c_constants st) [] Hn He). discriminate.
  - intros f Hin. rewrite Hk in Hin. apply in_app_or in Hin. destruct Hin as [Hin|Hin]; [left; exact Hin|right].
    destruct Hkx as [->| ->]; [destruct Hin|exact Hin].
Qed.

(** * The static pass, unfolded on the new constructs *)

Definition check_list (f : nat) : sctx -> list expr -> option errkind :=
  fix go (c : sctx) (l : list expr) : option errkind :=
    match l with
    | [] => None
    | x :: r => first_err (check_expr f c x) (fun _ => go c r)
    end.

Lemma ck_float : forall f c x, check_expr (S f) c (EFloat x) = None.
Proof. reflexivity. Qed.
Lemma ck_string : forall f c s, check_expr (S f) c (EString s) = None.
Proof. reflexivity. Qed.
Lemma ck_array : forall f c vs, check_expr (S f) c (EArray vs) = check_list f c vs.
Proof. reflexivity. Qed.
Lemma ck_index : forall f c l i,
  check_expr (S f) c (EIndex l i) = first_err (check_expr f c l) (fun _ => check_expr f c i).
Proof. reflexivity. Qed.
Lemma ck_assign_index : forall f c l i r,
  check_expr (S f) c (EAssign (EIndex l i) r) =
  first_err (check_expr f c l) (fun _ => first_err (check_expr f c i) (fun _ => check_expr f c r)).
Proof. reflexivity. Qed.
Lemma ck_call_builtin : forall f c x args, is_builtin_name x = true ->
  check_expr (S f) c (ECall (EIdent x) args) = first_err (check_list f c args) (fun _ => None).
Proof.
  intros f c x args H.
  change (check_expr (S f) c (ECall (EIdent x) args))
    with (first_err (check_list f c args) (fun _ => if is_builtin_name x then None else check_expr f c (EIdent x))).
  rewrite H. reflexivity.
Qed.
Lemma cl_cons : forall f c x r,
  check_list f c (x :: r) = first_err (check_expr f c x) (fun _ => check_list f c r).
Proof. reflexivity. Qed.
Lemma cb_expr_h : forall f c e r lp, f2he lp e = true ->
  check_block (S f) c (SExpr e :: r) = first_err (check_expr f c e) (fun _ => check_block f c r).
Proof. intros f c e r lp H. destruct e; try discriminate H; reflexivity. Qed.

Lemma size2h_if : forall c t alt,
  size2h_e (EIf c t alt) = S (size2h_e c + size2h_b t + match alt with Some b => size2h_b b | None => 0%nat end).
Proof. reflexivity. Qed.
Lemma size2h_while : forall c b, size2h_e (EWhile c b) = S (size2h_e c + size2h_b b).
Proof. reflexivity. Qed.
Lemma size2h_block : forall b, size2h_s (SBlock b) = S (size2h_b b).
Proof. reflexivity. Qed.
Lemma size2h_array : forall vs, size2h_e (EArray vs) = S (size2h_l vs).
Proof. reflexivity. Qed.
Lemma size2h_call : forall f args, size2h_e (ECall f args) = S (size2h_l args + size2h_e f).
Proof. reflexivity. Qed.

(** * The walk over the compiler *)

Definition chkE (e : expr) : Prop :=
  forall lp cs k outer cur st st', f2he lp e = true -> c_symbols st = stab k outer cur ->
  sflat cs (flat outer cur) -> (lp = true -> s_loops cs <> O) ->
  compile_expression e st = Ok st' ->
  (forall fuel, (size2h_e e <= fuel)%nat -> check_expr fuel cs e = None) /\ wfacts (lits_e e) st st'.

Definition chkEL (l : list expr) : Prop :=
  forall cs k outer cur st st', f2hl l = true -> c_symbols st = stab k outer cur ->
  sflat cs (flat outer cur) -> c_exprs l st = Ok st' ->
  (forall fuel, (size2h_l l <= fuel)%nat -> check_list fuel cs l = None) /\ wfacts (lits_l l) st st'.

Definition chkL (l : list stmt) : Prop :=
  forall lp cs k outer cur st st', f2hb lp l = true -> c_symbols st = stab k outer cur ->
  sflat cs (flat outer cur) -> (lp = true -> s_loops cs <> O) ->
  compile_statements l st = Ok st' ->
  (forall fuel, (size2h_b l <= fuel)%nat -> check_block fuel cs l = None) /\ wfacts (lits_b l) st st'.

Definition chkS (s : stmt) : Prop := forall r, chkL r -> chkL (s :: r).

Lemma chkL_nil : chkL [].
Proof.
  intros lp cs k outer cur st st' _ _ _ _ Hc. cbn [compile_statements] in Hc. inversion Hc; subst st'. split.
  - intros fuel Hsz. cbn [size2h_b] in Hsz. destruct fuel as [|f]; [lia|]. apply cb_nil.
  - apply wfacts_same. reflexivity.
Qed.

Lemma chkL_of_forall : forall l, Forall chkS l -> chkL l.
Proof. intros l H. induction H as [|s r Hs Hr IH]; [exact chkL_nil|exact (Hs r IH)]. Qed.

Lemma chkEL_of_forall : forall l, Forall chkE l -> chkEL l.
Proof.
  intros l H. induction H as [|x r Hx Hr IH].
  - intros cs k outer cur st st' _ _ _ Hc. cbn [c_exprs] in Hc. inversion Hc; subst st'. split.
    + intros fuel _. destruct fuel; reflexivity.
    + apply wfacts_same. reflexivity.
  - intros cs k outer cur st st' HF Hs Hfl Hc. rewrite f2hl_cons in HF. apply andb_prop in HF.
    destruct HF as [HFx HFr]. cbn [c_exprs] in Hc. apply bind_ok in Hc. destruct Hc as [st1 [H1 Hc]].
    destruct (hexpr_facts x false st st1 k outer cur HFx Hs H1) as [[k1 Hs1] _].
    destruct (Hx false cs k outer cur st st1 HFx Hs Hfl ltac:(discriminate) H1) as [C1 W1].
    destruct (IH cs k1 outer cur st1 st' HFr Hs1 Hfl Hc) as [C2 W2]. split.
    + intros fuel Hsz. cbn [size2h_l] in Hsz. destruct fuel as [|f].
      * destruct x; cbn [size2h_e] in Hsz; lia.
      * assert (check_list (S f) cs (x :: r) = first_err (check_expr (S f) cs x) (fun _ => check_list (S f) cs r)) as ->
          by reflexivity.
        rewrite (C1 (S f)) by lia. cbn [first_err]. apply C2. lia.
    + exact (wfacts_trans _ _ _ _ _ W1 W2).
Qed.

(* a block compiled in value position *)
Lemma bv_inv_h : forall b st st', c_block_value b st = Ok st' ->
  (b = [] /\ c_constants st' = c_constants st) \/
  exists st1, compile_statements b (set_symbols st (enter_scope (c_symbols st))) = Ok st1
              /\ c_constants st' = c_constants st1.
Proof.
  intros b st st' H. destruct b as [|s r].
  - left. split; [reflexivity|]. unfold c_block_value, c_block_statement in H. cbn [is_nil bind] in H.
    inversion H; reflexivity.
  - right. unfold c_block_value, c_block_statement in H. cbn [is_nil] in H.
    apply bind_ok in H. destruct H as [st1' [H Hr]]. apply bind_ok in H. destruct H as [st1 [H H']].
    exists st1. split; [exact H|]. inversion H'; subst st1'.
    destruct (last_instruction_is OPop (set_symbols st1 (leave_scope (c_symbols st1)))); inversion Hr; reflexivity.
Qed.

Lemma chk_block_value : forall b, chkL b -> forall lp cs k outer cur st st',
  f2hb lp b = true -> c_symbols st = stab k outer cur -> sflat cs (flat outer cur) ->
  (lp = true -> s_loops cs <> O) -> c_block_value b st = Ok st' ->
  (forall f, (size2h_b b <= f)%nat -> check_block f (s_push cs) b = None) /\ wfacts (lits_b b) st st'.
Proof.
  intros b IHb lp cs k outer cur st st' HF Hs Hfl Hlp Hc.
  destruct (bv_inv_h b st st' Hc) as [[-> Hk]|[st1 [H1 Hk]]].
  - split; [|apply wfacts_same; exact Hk].
    intros f Hsz. cbn [size2h_b] in Hsz. destruct f; [lia|reflexivity].
  - destruct (IHb lp (s_push cs) k (outer ++ [cur]) [] (set_symbols st (enter_scope (c_symbols st))) st1 HF) as [C W];
      try assumption.
    + cbn [set_symbols c_symbols]. rewrite Hs. reflexivity.
    + rewrite flat_enter. apply sflat_push. exact Hfl.
    + split; [exact C|]. apply (wfacts_post _ _ st1); [|exact Hk]. apply (wfacts_pre _ st (set_symbols st (enter_scope (c_symbols st)))); [reflexivity|exact W].
Qed.

Lemma change_jump_consts : forall idx v st st', change_jump_operand_at idx v st = Ok st' ->
  c_constants st' = c_constants st /\ c_symbols st' = c_symbols st.
Proof.
  intros idx v st st' H. unfold change_jump_operand_at in H.
  destruct (nth_error (c_code st) (Z.to_nat idx)); [|discriminate H].
  destruct ((z =? byte_of_opcode OJump) || (z =? byte_of_opcode OJumpIfFalse)); [|discriminate H].
  inversion H; subst st'. split; reflexivity.
Qed.

Lemma patch_breaks_consts : forall breaks st st', patch_breaks breaks st = Ok st' ->
  c_constants st' = c_constants st.
Proof.
  intros breaks. unfold patch_breaks.
  change (fun acc ip => do s <- acc; do tg <- operand 16 (code_len s); change_jump_operand_at ip tg s) with patch_step.
  induction breaks as [|ip breaks IH]; intros st st' H; cbn [fold_left] in H.
  - inversion H; reflexivity.
  - destruct (patch_step (Ok st) ip) as [s1| | |] eqn:E1;
      try (rewrite patch_fold_stuck in H by (intros s; discriminate); discriminate H).
    unfold patch_step in E1. cbn [bind] in E1. apply bind_inv in E1. destruct E1 as [tg [_ E1]].
    rewrite (IH s1 st' H). exact (proj1 (change_jump_consts _ _ _ _ E1)).
Qed.

(* the induction also needs the components of an index expression on the left of `=` *)
Definition chkE2 (e : expr) : Prop :=
  chkE e /\ match e with EIndex b i => chkE b /\ chkE i | _ => True end.

Lemma chk_all2 : (forall e, chkE2 e) /\ (forall s, chkS s).
Proof.
  apply expr_stmt_ind.
  - (* EInfix *)
    intros l o r [IHl _] [IHr _]. split; [|exact I]. intros lp cs k outer cur st st' HF Hs Hfl Hlp Hc.
    rewrite f2he_infix in HF. apply andb_prop in HF. destruct HF as [HF Hr]. apply andb_prop in HF.
    destruct HF as [Hop Hl]. rewrite ce_infix in Hc.
    assert (exists st0 k0, c_symbols st0 = stab k0 outer cur /\ generic_infix l o r st0 = Ok st' /\ wfacts [] st st0)
      as [st0 [k0 [Hs0 [Hg W0]]]].
    { destruct (fused_candidate l r o) as [[[name v] op']|]; [|exists st, k; split; [exact Hs|split; [exact Hc|apply wfacts_same; reflexivity]]].
      destruct (compile_const_var_infix name v op' st) as [st0 done] eqn:Ec.
      assert (gtab (c_symbols st)) as Hg by (rewrite Hs; apply gtab_stab).
      destruct (const_var_infix_global _ _ _ _ _ _ Hg Ec) as [-> [Hs1 [Hc1 [kx [Hk Hf]]]]].
      exists st0, k. split; [congruence|]. split; [exact Hc|exact (wfacts_kints _ _ _ Hk Hf)]. }
    unfold generic_infix in Hg. apply bind_ok in Hg. destruct Hg as [st1 [H1 Hg]].
    apply bind_ok in Hg. destruct Hg as [st2 [H2 Hg]].
    destruct (assoc operator_eqb o compile_operator_table) as [opc|]; [|discriminate Hg]. inversion Hg; subst st'.
    destruct (hexpr_facts l false st0 st1 k0 outer cur Hl Hs0 H1) as [[k1 Hs1] _].
    destruct (IHl false cs k0 outer cur st0 st1 Hl Hs0 Hfl ltac:(discriminate) H1) as [C1 W1].
    destruct (IHr false cs k1 outer cur st1 st2 Hr Hs1 Hfl ltac:(discriminate) H2) as [C2 W2]. split.
    + intros fuel Hsz. cbn [size2h_e] in Hsz. destruct fuel as [|f]; [lia|]. rewrite ck_infix.
      rewrite (C1 f) by lia. cbn [first_err]. apply C2. lia.
    + apply (wfacts_post _ _ st2); [|reflexivity]. exact (wfacts_trans [] _ _ _ _ W0 (wfacts_trans _ _ _ _ _ W1 W2)).
  - (* EPrefix *)
    intros o r [IHr _]. split; [|exact I]. intros lp cs k outer cur st st' HF Hs Hfl Hlp Hc.
    rewrite f2he_prefix in HF. apply andb_prop in HF. destruct HF as [_ Hr].
    rewrite ce_prefix in Hc. apply bind_ok in Hc. destruct Hc as [st1 [H1 Hc]].
    destruct (IHr false cs k outer cur st st1 Hr Hs Hfl ltac:(discriminate) H1) as [C1 W1]. split.
    + intros fuel Hsz. cbn [size2h_e] in Hsz. destruct fuel as [|f]; [lia|]. rewrite ck_prefix. apply C1. lia.
    + apply (wfacts_post _ _ st1 _ W1). destruct o; inversion Hc; reflexivity.
  - (* EInt *)
    intros z. split; [|exact I]. intros lp cs k outer cur st st' _ _ _ _ Hc. split.
    + intros fuel Hsz. cbn [size2h_e] in Hsz. destruct fuel as [|f]; [lia|]. apply ck_int.
    + rewrite ce_int in Hc. destruct (emit_const_kint z st st' Hc) as [_ [idx [kx [_ [Hk [Hf _]]]]]].
      exact (wfacts_kints _ _ _ Hk Hf).
  - (* EFloat *)
    intros x. split; [|exact I]. intros lp cs k outer cur st st' HF _ _ _ Hc. split.
    + intros fuel Hsz. cbn [size2h_e] in Hsz. destruct fuel as [|f]; [lia|]. apply ck_float.
    + rewrite ce_float in Hc. exact (wfacts_emit_const (KFloat x) (count_alloc st) st st' eq_refl HF Hc).
  - (* EBool *)
    intros b. split; [|exact I]. intros lp cs k outer cur st st' _ _ _ _ Hc. split.
    + intros fuel Hsz. cbn [size2h_e] in Hsz. destruct fuel as [|f]; [lia|]. apply ck_bool.
    + rewrite ce_bool in Hc. inversion Hc. apply wfacts_same. reflexivity.
  - (* EIf *)
    intros c t alt [IHc _] IHt IHa. split; [|exact I]. intros lp cs k outer cur st st' HF Hs Hfl Hlp Hc.
    rewrite f2he_if in HF. apply andb_prop in HF. destruct HF as [HF Hfa].
    apply andb_prop in HF. destruct HF as [Hfc Hft].
    rewrite ce_if in Hc. cbv zeta in Hc.
    apply bind_ok in Hc. destruct Hc as [st1 [H1 Hc]].
    apply bind_ok in Hc. destruct Hc as [st3 [H3 Hc]].
    apply bind_ok in Hc. destruct Hc as [t1 [_ Hc]].
    apply bind_ok in Hc. destruct Hc as [st5 [H5 Hc]].
    apply bind_ok in Hc. destruct Hc as [st6 [H6 Hc]].
    apply bind_ok in Hc. destruct Hc as [t2 [_ Hc]].
    destruct (hexpr_facts c false st st1 k outer cur Hfc Hs H1) as [[k1 Hs1] _].
    set (st2 := emit_u16 JUMP_PLACEHOLDER (emit_opcode OJumpIfFalse st1)) in *.
    assert (c_symbols st2 = stab k1 outer cur) as Hs2 by exact Hs1.
    destruct (hbv_facts t lp st2 st3 k1 outer cur Hft Hs2 H3) as [[k3 Hs3] _].
    set (st4 := emit_u16 JUMP_PLACEHOLDER (emit_opcode OJump st3)) in *.
    destruct (change_jump_consts _ _ _ _ H5) as [A2 A1].
    assert (c_symbols st5 = stab k3 outer cur) as Hs5 by (rewrite A1; exact Hs3).
    destruct (change_jump_consts _ _ _ _ Hc) as [B2 _].
    destruct (IHc false cs k outer cur st st1 Hfc Hs Hfl ltac:(discriminate) H1) as [C1 W1].
    destruct (chk_block_value t (chkL_of_forall t IHt) lp cs k1 outer cur st2 st3 Hft Hs2 Hfl Hlp H3) as [C2 W2].
    assert ((forall f, (match alt with Some b => size2h_b b | None => 0%nat end <= f)%nat ->
               match alt with Some b => check_block f (s_push cs) b | None => None end = None) /\
            wfacts (match alt with Some b => lits_b b | None => [] end) st5 st6) as [C3 W3].
    { destruct alt as [bl|].
      - exact (chk_block_value bl (chkL_of_forall bl IHa) lp cs k3 outer cur st5 st6 Hfa Hs5 Hfl Hlp H6).
      - split; [reflexivity|]. inversion H6. apply wfacts_same. reflexivity. }
    split.
    + intros fuel Hsz. rewrite size2h_if in Hsz. destruct fuel as [|f]; [lia|]. rewrite ck_if.
      rewrite (C1 f) by lia. cbn [first_err]. rewrite (C2 f) by lia. cbn [first_err].
      destruct alt as [bl|]; [apply C3; lia|reflexivity].
    + rewrite lits_if. apply (wfacts_post _ _ st6); [|exact B2].
      apply (wfacts_trans _ _ _ _ _ W1). apply (wfacts_trans _ _ st1 st5).
      * apply (wfacts_post _ _ st3); [|rewrite A2; reflexivity].
        apply (wfacts_pre _ st1 st2); [reflexivity|exact W2].
      * exact W3.
  - (* EIdent *)
    intros x. split; [|exact I]. intros lp cs k outer cur st st' _ Hs Hfl _ Hc. split.
    + intros fuel Hsz. cbn [size2h_e] in Hsz. destruct fuel as [|f]; [lia|].
      rewrite ck_ident, (visible_flat _ _ _ Hfl).
      rewrite ce_ident, Hs, resolve_stab in Hc.
      destruct (rposition x (flat outer cur)); [reflexivity|discriminate Hc].
    + rewrite ce_ident in Hc. destruct (resolve (c_symbols st) x) as [sy|]; [|discriminate Hc].
      apply wfacts_same. exact (proj1 (proj2 (emit_sym_spec _ _ _ _ Hc))).
  - intros n ps body _. split; [|exact I]. intros lp cs k outer cur st st' HF. discriminate HF.
  - (* ECall *)
    intros h args _ IHargs. split; [|exact I]. intros lp cs k outer cur st st' HF Hs Hfl Hlp Hc.
    assert (Forall chkE args) as IHa.
    { apply Forall_forall. intros e Hin. exact (proj1 (proj1 (Forall_forall _ _) IHargs e Hin)). }
    rewrite f2he_call in HF. apply andb_prop in HF. destruct HF as [Hfn Hargs].
    destruct h as [| | | | | |x| | | | | | |]; try discriminate Hfn.
    pose proof Hfn as Hb. unfold is_builtin_name in Hb.
    destruct (assoc_text x builtin_names) as [b|] eqn:Eb; [|discriminate Hb].
    rewrite (ce_call_builtin x b args st Eb) in Hc. apply bind_ok in Hc. destruct Hc as [st1 [H1 Hc]].
    apply bind_ok in Hc. destruct Hc as [n [_ Hc]]. inversion Hc; subst st'.
    destruct (chkEL_of_forall args IHa cs k outer cur st st1 Hargs Hs Hfl H1) as [C1 W1]. split.
    + intros fuel Hsz. rewrite size2h_call in Hsz. destruct fuel as [|f]; [lia|].
      rewrite (ck_call_builtin f cs x args Hfn). rewrite (C1 f) by lia. reflexivity.
    + rewrite lits_call. cbn [lits_e]. rewrite app_nil_r. apply (wfacts_post _ _ st1 _ W1). reflexivity.
  - (* EAssign *)
    intros l r [_ IHl] [IHr _]. split; [|exact I]. intros lp cs k outer cur st st' HF Hs Hfl Hlp Hc.
    destruct l as [| | | | | |x| | | | | |bs i|]; try discriminate HF.
    + rewrite f2he_assign in HF.
      rewrite ce_assign_ident, Hs, resolve_stab in Hc.
      destruct (rposition x (flat outer cur)) eqn:Er; [|discriminate Hc]. cbn [option_map] in Hc.
      apply bind_ok in Hc. destruct Hc as [st1 [H1 Hc]]. apply bind_ok in Hc. destruct Hc as [st2 [H2 H3]].
      destruct (IHr false cs k outer cur st st1 HF Hs Hfl ltac:(discriminate) H1) as [C1 W1]. split.
      * intros fuel Hsz. cbn [size2h_e] in Hsz. destruct fuel as [|f]; [lia|].
        rewrite ck_assign_ident, (visible_flat _ _ _ Hfl), Er. apply C1. lia.
      * rewrite lits_assign. cbn [lits_e app]. apply (wfacts_post _ _ st1 _ W1).
        rewrite (proj1 (proj2 (emit_sym_spec _ _ _ _ H3))). exact (proj1 (proj2 (emit_sym_spec _ _ _ _ H2))).
    + destruct IHl as [IHb IHi].
      rewrite f2he_assign_index in HF. apply andb_prop in HF. destruct HF as [HF H3f].
      apply andb_prop in HF. destruct HF as [H1f H2f].
      rewrite ce_assign_index in Hc. apply bind_ok in Hc. destruct Hc as [st1 [H1 Hc]].
      apply bind_ok in Hc. destruct Hc as [st2 [H2 Hc]]. apply bind_ok in Hc. destruct Hc as [st3 [H3 Hc]].
      inversion Hc; subst st'.
      destruct (hexpr_facts bs false st st1 k outer cur H1f Hs H1) as [[k1 Hs1] _].
      destruct (hexpr_facts i false st1 st2 k1 outer cur H2f Hs1 H2) as [[k2 Hs2] _].
      destruct (IHb false cs k outer cur st st1 H1f Hs Hfl ltac:(discriminate) H1) as [C1 W1].
      destruct (IHi false cs k1 outer cur st1 st2 H2f Hs1 Hfl ltac:(discriminate) H2) as [C2 W2].
      destruct (IHr false cs k2 outer cur st2 st3 H3f Hs2 Hfl ltac:(discriminate) H3) as [C3 W3]. split.
      * intros fuel Hsz. cbn [size2h_e] in Hsz. destruct fuel as [|f]; [lia|]. rewrite ck_assign_index.
        rewrite (C1 f) by lia. cbn [first_err]. rewrite (C2 f) by lia. cbn [first_err]. apply C3. lia.
      * rewrite lits_assign, lits_index. apply (wfacts_post _ _ st3); [|reflexivity].
        exact (wfacts_trans _ _ _ _ _ (wfacts_trans _ _ _ _ _ W1 W2) W3).
  - (* EString *)
    intros x. split; [|exact I]. intros lp cs k outer cur st st' _ _ _ _ Hc. split.
    + intros fuel Hsz. cbn [size2h_e] in Hsz. destruct fuel as [|f]; [lia|]. apply ck_string.
    + rewrite ce_string in Hc.
      exact (wfacts_emit_const (KStr x) (count_alloc st) st st' eq_refl (const_eqb_str_refl x) Hc).
  - (* EArray *)
    intros vs IHvs. split; [|exact I]. intros lp cs k outer cur st st' HF Hs Hfl Hlp Hc.
    assert (Forall chkE vs) as IHa.
    { apply Forall_forall. intros e Hin. exact (proj1 (proj1 (Forall_forall _ _) IHvs e Hin)). }
    rewrite f2he_array in HF. rewrite ce_array in Hc. apply bind_ok in Hc. destruct Hc as [st1 [H1 Hc]].
    apply bind_ok in Hc. destruct Hc as [n [_ Hc]]. inversion Hc; subst st'.
    destruct (chkEL_of_forall vs IHa cs k outer cur st st1 HF Hs Hfl H1) as [C1 W1]. split.
    + intros fuel Hsz. rewrite size2h_array in Hsz. destruct fuel as [|f]; [lia|]. rewrite ck_array. apply C1. lia.
    + rewrite lits_array. apply (wfacts_post _ _ st1 _ W1). reflexivity.
  - (* EIndex *)
    intros b i [IHb _] [IHi _]. split; [|split; assumption]. intros lp cs k outer cur st st' HF Hs Hfl Hlp Hc.
    rewrite f2he_index in HF. apply andb_prop in HF. destruct HF as [H1f H2f].
    rewrite ce_index in Hc. apply bind_ok in Hc. destruct Hc as [st1 [H1 Hc]].
    apply bind_ok in Hc. destruct Hc as [st2 [H2 Hc]]. inversion Hc; subst st'.
    destruct (hexpr_facts b false st st1 k outer cur H1f Hs H1) as [[k1 Hs1] _].
    destruct (IHb false cs k outer cur st st1 H1f Hs Hfl ltac:(discriminate) H1) as [C1 W1].
    destruct (IHi false cs k1 outer cur st1 st2 H2f Hs1 Hfl ltac:(discriminate) H2) as [C2 W2]. split.
    + intros fuel Hsz. cbn [size2h_e] in Hsz. destruct fuel as [|f]; [lia|]. rewrite ck_index.
      rewrite (C1 f) by lia. cbn [first_err]. apply C2. lia.
    + rewrite lits_index. apply (wfacts_post _ _ st2); [|reflexivity]. exact (wfacts_trans _ _ _ _ _ W1 W2).
  - (* EWhile *)
    intros c body [IHc _] IHb. split; [|exact I]. intros lp cs k outer cur st st' HF Hs Hfl Hlp Hc.
    rewrite f2he_while in HF. apply andb_prop in HF. destruct HF as [Hfc Hfb].
    rewrite ce_while in Hc. cbv zeta in Hc.
    apply bind_ok in Hc. destruct Hc as [st3 [H3 Hc]].
    apply bind_ok in Hc. destruct Hc as [st5 [H5 Hc]].
    apply bind_ok in Hc. destruct Hc as [back [_ Hc]].
    apply bind_ok in Hc. destruct Hc as [target [_ Hc]].
    apply bind_ok in Hc. destruct Hc as [st8 [H8 Hc]].
    set (st2 := set_loops (emit_opcode ONull st) (c_loops (emit_opcode ONull st) ++
                 [mkLoop (code_len (emit_opcode ONull st)) []])) in *.
    assert (c_symbols st2 = stab k outer cur) as Hs2 by exact Hs.
    destruct (hexpr_facts c false st2 st3 k outer cur Hfc Hs2 H3) as [[k3 Hs3] _].
    set (cs' := mkS (s_local cs) (s_global cs) (S (s_loops cs))).
    pose proof (sflat_loop cs _ Hfl) as Hfl'. fold cs' in Hfl'.
    set (st4 := emit_opcode OPop (emit_u16 JUMP_PLACEHOLDER (emit_opcode OJumpIfFalse st3))) in *.
    assert (c_symbols st4 = stab k3 outer cur) as Hs4 by exact Hs3.
    destruct (IHc false cs' k outer cur st2 st3 Hfc Hs2 Hfl' ltac:(discriminate) H3) as [C1 W1].
    destruct (chk_block_value body (chkL_of_forall body IHb) true cs' k3 outer cur st4 st5 Hfb Hs4 Hfl'
                ltac:(intros _; discriminate) H5) as [C2 W2].
    assert (c_constants st' = c_constants st5) as Hk'.
    { destruct (change_jump_consts _ _ _ _ H8) as [K8 _].
      destruct (rev (c_loops st8)) as [|ctx rest]; [discriminate Hc|].
      rewrite (patch_breaks_consts _ _ _ Hc). cbn [set_loops c_constants]. rewrite K8. reflexivity. }
    split.
    + intros fuel Hsz. rewrite size2h_while in Hsz. destruct fuel as [|f]; [lia|]. rewrite ck_while.
      fold cs'. rewrite (C1 f) by lia. cbn [first_err]. apply C2. lia.
    + rewrite lits_while. apply (wfacts_post _ _ st5); [|exact Hk'].
      apply (wfacts_pre _ st st2); [reflexivity|]. apply (wfacts_trans _ _ _ _ _ W1).
      apply (wfacts_pre _ st3 st4); [reflexivity|exact W2].
  - (* SLet *)
    intros x e [IHe _] r IHr lp cs k outer cur st st' HF Hs Hfl Hlp Hc.
    rewrite f2hb_cons in HF. apply andb_prop in HF. destruct HF as [HFe HFr]. cbn [f2hs] in HFe.
    apply andb_prop in HFe. destruct HFe as [HFe _].
    cbn [compile_statements] in Hc. apply bind_ok in Hc. destruct Hc as [st2 [H2 Hc]].
    rewrite cs_let, Hs, define_stab in H2.
    apply bind_ok in H2. destruct H2 as [st1 [H1 H2]].
    set (st0 := set_symbols st (stab (S k) outer (cur ++ [x]))) in *.
    destruct (hexpr_facts e false st0 st1 (S k) outer (cur ++ [x]) HFe eq_refl H1) as [[k1 Hs1] _].
    assert (c_symbols st2 = stab k1 outer (cur ++ [x])) as Hs2.
    { rewrite (proj1 (emit_sym_spec _ _ _ _ H2)). exact Hs1. }
    pose proof (sflat_declare cs _ x Hfl) as Hfl'. rewrite <- flat_snoc in Hfl'.
    destruct (IHe false (s_declare cs x) (S k) outer (cur ++ [x]) st0 st1 HFe eq_refl Hfl' ltac:(discriminate) H1) as [C1 W1].
    assert (lp = true -> s_loops (s_declare cs x) <> O) as Hlp'.
    { intros E. specialize (Hlp E). unfold s_declare. destruct (s_local cs); exact Hlp. }
    destruct (IHr lp (s_declare cs x) k1 outer (cur ++ [x]) st2 st' HFr Hs2 Hfl' Hlp' Hc) as [C2 W2]. split.
    + intros fuel Hsz. cbn [size2h_b size2h_s] in Hsz. destruct fuel as [|f]; [lia|]. rewrite cb_let.
      rewrite (C1 f) by lia. cbn [first_err]. apply C2. lia.
    + rewrite lits_b_cons. cbn [lits_s]. apply (wfacts_trans _ _ st st2 st'); [|exact W2].
      apply (wfacts_post _ _ st1); [|exact (proj1 (proj2 (emit_sym_spec _ _ _ _ H2)))].
      apply (wfacts_pre _ st st0); [reflexivity|exact W1].
  - (* SReturn *)
    intros e _ r _ lp cs k outer cur st st' HF. rewrite f2hb_cons in HF. discriminate HF.
  - (* SExpr *)
    intros e [IHe _] r IHr lp cs k outer cur st st' HF Hs Hfl Hlp Hc.
    rewrite f2hb_cons in HF. apply andb_prop in HF. destruct HF as [HFe HFr]. cbn [f2hs] in HFe.
    cbn [compile_statements] in Hc. apply bind_ok in Hc. destruct Hc as [st2 [H2 Hc]].
    rewrite cs_expr in H2. apply bind_ok in H2. destruct H2 as [st1 [H1 H2]]. inversion H2; subst st2.
    destruct (hexpr_facts e lp st st1 k outer cur HFe Hs H1) as [[k1 Hs1] _].
    destruct (IHe lp cs k outer cur st st1 HFe Hs Hfl Hlp H1) as [C1 W1].
    destruct (IHr lp cs k1 outer cur (emit_opcode OPop st1) st' HFr Hs1 Hfl Hlp Hc) as [C2 W2]. split.
    + intros fuel Hsz. cbn [size2h_b size2h_s] in Hsz. destruct fuel as [|f]; [lia|].
      rewrite (cb_expr_h f cs e r lp HFe). rewrite (C1 f) by lia. cbn [first_err]. apply C2. lia.
    + rewrite lits_b_cons. cbn [lits_s]. apply (wfacts_trans _ _ st (emit_opcode OPop st1) st'); [|exact W2].
      apply (wfacts_post _ _ st1 _ W1). reflexivity.
  - (* SBlock *)
    intros b IHb r IHr lp cs k outer cur st st' HF Hs Hfl Hlp Hc.
    rewrite f2hb_cons in HF. apply andb_prop in HF. destruct HF as [HFb HFr]. rewrite f2hs_block in HFb.
    cbn [compile_statements] in Hc. apply bind_ok in Hc. destruct Hc as [st2 [H2 Hc]].
    rewrite cs_block in H2. pose proof (chkL_of_forall b IHb) as Lb.
    destruct b as [|s0 b'].
    + cbn [is_nil] in H2. inversion H2; subst st2.
      destruct (IHr lp cs k outer cur (emit_opcode OPop (emit_opcode ONull st)) st' HFr Hs Hfl Hlp Hc) as [C2 W2]. split.
      * intros fuel Hsz. cbn [size2h_b] in Hsz. rewrite size2h_block in Hsz. cbn [size2h_b] in Hsz.
        destruct fuel as [|f]; [lia|]. rewrite cb_block.
        destruct f as [|f']; [lia|]. rewrite cb_nil. cbn [first_err]. apply C2. lia.
      * rewrite lits_b_cons. cbn [lits_s app]. apply (wfacts_pre _ st (emit_opcode OPop (emit_opcode ONull st))); [reflexivity|exact W2].
    + cbn [is_nil] in H2. apply bind_ok in H2. destruct H2 as [st1 [H1 H2]]. inversion H2; subst st2.
      set (st0 := set_symbols st (enter_scope (c_symbols st))) in *.
      assert (c_symbols st0 = stab k (outer ++ [cur]) []) as Hs0
        by (unfold st0; cbn [set_symbols c_symbols]; rewrite Hs; reflexivity).
      destruct (hstmts_facts (s0 :: b') lp st0 st1 k (outer ++ [cur]) [] HFb Hs0 H1) as [[k1 Hs1] _].
      assert (sflat (s_push cs) (flat (outer ++ [cur]) [])) as Hfl0 by (rewrite flat_enter; apply sflat_push; exact Hfl).
      destruct (Lb lp (s_push cs) k (outer ++ [cur]) [] st0 st1 HFb Hs0 Hfl0 Hlp H1) as [C1 W1].
      set (st1' := set_symbols st1 (leave_scope (c_symbols st1))) in *.
      assert (c_symbols st1' = stab k1 outer cur) as Hs1'.
      { unfold st1'. cbn [set_symbols c_symbols]. rewrite Hs1. apply leave_stab. }
      destruct (IHr lp cs k1 outer cur st1' st' HFr Hs1' Hfl Hlp Hc) as [C2 W2]. split.
      * intros fuel Hsz. cbn [size2h_b] in Hsz. rewrite size2h_block in Hsz.
        destruct fuel as [|f]; [lia|]. rewrite cb_block. rewrite (C1 f) by lia. cbn [first_err]. apply C2. lia.
      * rewrite lits_b_cons, lits_s_block. apply (wfacts_trans _ _ st st1' st'); [|exact W2].
        apply (wfacts_post _ _ st1); [|reflexivity]. apply (wfacts_pre _ st st0); [reflexivity|exact W1].
  - (* SBreak *)
    intros r IHr lp cs k outer cur st st' HF Hs Hfl Hlp Hc.
    rewrite f2hb_cons in HF. apply andb_prop in HF. destruct HF as [HFs HFr]. cbn [f2hs] in HFs.
    cbn [compile_statements] in Hc. apply bind_ok in Hc. destruct Hc as [st2 [H2 Hc]].
    destruct (break_innermost _ _ H2) as [ol [ctx [_ [_ [_ [Hsy Hk]]]]]].
    assert (c_symbols st2 = stab k outer cur) as Hs2 by congruence.
    destruct (IHr lp cs k outer cur st2 st' HFr Hs2 Hfl Hlp Hc) as [C2 W2]. split.
    + intros fuel Hsz. cbn [size2h_b size2h_s] in Hsz. destruct fuel as [|f]; [lia|]. rewrite cb_break.
      specialize (Hlp HFs). destruct (s_loops cs) as [|nl] eqn:El; [contradiction|]. apply C2. lia.
    + rewrite lits_b_cons. cbn [lits_s app]. apply (wfacts_pre _ st st2); [exact Hk|exact W2].
  - (* SContinue *)
    intros r IHr lp cs k outer cur st st' HF Hs Hfl Hlp Hc.
    rewrite f2hb_cons in HF. apply andb_prop in HF. destruct HF as [HFs HFr]. cbn [f2hs] in HFs.
    cbn [compile_statements] in Hc. apply bind_ok in Hc. destruct Hc as [st2 [H2 Hc]].
    destruct (continue_innermost _ _ H2) as [ol [ctx [_ [_ [_ [_ [Hsy Hk]]]]]]].
    assert (c_symbols st2 = stab k outer cur) as Hs2 by congruence.
    destruct (IHr lp cs k outer cur st2 st' HFr Hs2 Hfl Hlp Hc) as [C2 W2]. split.
    + intros fuel Hsz. cbn [size2h_b size2h_s] in Hsz. destruct fuel as [|f]; [lia|]. rewrite cb_continue.
      specialize (Hlp HFs). destruct (s_loops cs) as [|nl] eqn:El; [contradiction|]. apply C2. lia.
    + rewrite lits_b_cons. cbn [lits_s app]. apply (wfacts_pre _ st st2); [exact Hk|exact W2].
Qed.

Lemma chkL_all : forall l, chkL l.
Proof. intros l. apply chkL_of_forall. apply Forall_forall. intros s _. apply (proj2 chk_all2). Qed.

Theorem static_accepts_F2h : forall p bc fuel, in_F2h p = true -> compile p = Ok bc ->
  (size2h_b p <= fuel)%nat -> static_check fuel p = None.
Proof.
  intros p bc fuel HF Hc Hsz. destruct (compile_inv p bc Hc) as [st1 [H1 _]].
  unfold static_check.
  apply (proj1 (chkL_all p false (mkS [[]] None 0) O [] [] compiler_new st1 HF eq_refl
                  (conj eq_refl eq_refl) ltac:(discriminate) H1)). exact Hsz.
Qed.

(* the literals of the program are in the pool; the floats of the pool are literals of the program *)
Theorem compile_pool_facts : forall p bc, in_F2h p = true -> compile p = Ok bc ->
  pres (lits_b p) (b_constants bc) /\ (forall f, In (KFloat f) (b_constants bc) -> In (KFloat f) (lits_b p)).
Proof.
  intros p bc HF Hc. destruct (compile_inv p bc Hc) as [st1 [H1 ->]]. cbn [b_constants].
  destruct (proj2 (chkL_all p false (mkS [[]] None 0) O [] [] compiler_new st1 HF eq_refl
                     (conj eq_refl eq_refl) ltac:(discriminate) H1)) as [_ [P V]].
  split; [exact P|]. intros f Hin. destruct (V f Hin) as [[]|H]. exact H.
Qed.

(** * Runs of the machine: the collector's invariant along the way, the halt instruction *)

Lemma steps_inv : forall orc prog n s s', VMInv prog s -> steps orc prog n s = Ok s' -> VMInv prog s'.
Proof.
  intros orc prog n. induction n as [|n IH]; intros s s' Hi H; cbn [steps] in H.
  - inversion H; subst. exact Hi.
  - destruct (step orc prog s) as [[s1|v s1]| | |] eqn:E; try discriminate H.
    exact (IH s1 s' (vm_inv_step orc prog s s1 Hi E) H).
Qed.

Lemma halt_step : forall orc prog s rest, VMInv prog s ->
  code_at prog (v_ip s) (byte_of_opcode OHalt :: rest) ->
  exists s', step orc prog s = Ok (Halted (v_final s) s') /\ v_out s' = v_out s /\ v_heap s' = v_heap s.
Proof.
  intros orc prog s rest Hi Hc. apply vminv_sinv in Hi.
  unfold step. rewrite (code_at_0 _ _ _ _ Hc), (opcode_roundtrip OHalt). cbv beta iota zeta.
  cbn [upd_ip v_heap v_gc v_final].
  assert (roots_ok (v_heap s) [v_final s]) as Hok.
  { intros v [<-|[]]. apply (si_final _ _ Hi). }
  destruct (untrace_strong _ _ (v_final s) (hi_gc _ _ (si_heap _ _ Hi))
              (oks_roots_managed _ _ _ (si_heap _ _ Hi) Hok) Hok) as [g' [E _]].
  rewrite E. cbn [bind]. eexists. split; [reflexivity|]. split; reflexivity.
Qed.

Lemma run_program_obs : forall orc bc budget consts h0 r s lhs,
  load_consts (b_constants bc) empty_heap = (consts, h0) ->
  run_loop orc (mkProgram (b_code bc) consts) budget (vm_start vm_new consts h0) = (r, s, lhs) ->
  run_program orc bc budget =
  mkObs r (v_out s) (budget - lhs) (do gh <- gc_destroy (v_heap s) (v_gc s); Ok (snd gh)).
Proof.
  intros orc bc budget consts h0 r s lhs Hl Hr. unfold run_program. rewrite Hl, Hr. f_equal.
  destruct (gc_destroy (v_heap s) (v_gc s)) as [[g h]| | |]; reflexivity.
Qed.

(** * The constants of a program at run time *)

Lemma map_snd_combine : forall A B (a : list A) (b : list B), length a = length b -> map snd (combine a b) = b.
Proof.
  intros A B a. induction a as [|x a IH]; intros [|y b] H; cbn [combine map snd length] in *; try discriminate H;
    try reflexivity. f_equal. apply IH. lia.
Qed.
Lemma map_fst_combine : forall A B (a : list A) (b : list B), length a = length b -> map fst (combine a b) = a.
Proof.
  intros A B a. induction a as [|x a IH]; intros [|y b] H; cbn [combine map fst length] in *; try discriminate H;
    try reflexivity. f_equal. apply IH. lia.
Qed.

Definition const_at (h : heap) (c : const) (v : val) : Prop :=
  match c with
  | KInt z => v = VInt z
  | KFun ip n => v = VFun ip n
  | KFloat f => exists l, v = VFloat l /\ h_get h l = Ok (OFloat f)
  | KStr s => exists l, v = VStr l /\ h_get h l = Ok (OStr s)
  end.

Lemma load_consts_pool : forall ks h vs h', load_consts ks h = (vs, h') -> heap_ok h -> heap_ints h ->
  length vs = length ks /\ heap_ok h' /\ heap_ints h' /\ n_alloc h' <= n_alloc h + Z.of_nat (length ks) /\
  (forall l o, h_get h l = Ok o -> h_get h' l = Ok o) /\
  (forall c v, In (c, v) (combine ks vs) -> const_at h' c v).
Proof.
  induction ks as [|k r IH]; intros h vs h' H Hok Hin; cbn [load_consts] in H.
  - inversion H; subst. cbn [length combine]. split; [reflexivity|]. split; [exact Hok|]. split; [exact Hin|].
    split; [lia|]. split; [auto|]. intros c v [].
  - set (vh := match k with
               | KInt z => (VInt z, h)
               | KFun ip n => (VFun ip n, h)
               | KFloat f => let '(l, h1) := h_alloc h (OFloat f) in (VFloat l, h1)
               | KStr s => let '(l, h1) := h_alloc h (OStr s) in (VStr l, h1)
               end) in *.
    destruct vh as [v h1] eqn:Evh. destruct (load_consts r h1) as [vs2 h2] eqn:El. inversion H; subst vs h'; clear H.
    assert (heap_ok h1 /\ heap_ints h1 /\ n_alloc h1 <= n_alloc h + 1 /\
            (forall l o, h_get h l = Ok o -> h_get h1 l = Ok o) /\ const_at h1 k v) as [O1 [I1 [N1 [F1 C1]]]].
    { subst vh. destruct k; cbn [h_alloc] in Evh; inversion Evh; subst v h1; clear Evh.
      - split; [exact Hok|]. split; [exact Hin|]. split; [lia|]. split; [auto|reflexivity].
      - split; [apply (heap_ok_alloc h (OFloat f) Hok)|]. split; [apply (hi_alloc h (OFloat f) Hin I)|].
        split; [cbn [n_alloc]; lia|]. split.
        + intros l o G. change (h_get (snd (h_alloc h (OFloat f))) l = Ok o). rewrite h_get_alloc_other; [exact G|].
          pose proof (h_get_lt _ _ _ Hok G). lia.
        + exists (next_loc h). split; [reflexivity|]. exact (h_get_alloc_new h (OFloat f)).
      - split; [apply (heap_ok_alloc h (OStr s) Hok)|]. split; [apply (hi_alloc h (OStr s) Hin I)|].
        split; [cbn [n_alloc]; lia|]. split.
        + intros l o G. change (h_get (snd (h_alloc h (OStr s))) l = Ok o). rewrite h_get_alloc_other; [exact G|].
          pose proof (h_get_lt _ _ _ Hok G). lia.
        + exists (next_loc h). split; [reflexivity|]. exact (h_get_alloc_new h (OStr s)).
      - split; [exact Hok|]. split; [exact Hin|]. split; [lia|]. split; [auto|reflexivity]. }
    destruct (IH h1 vs2 h2 El O1 I1) as [L2 [O2 [I2 [N2 [F2 C2]]]]].
    cbn [length combine]. split; [lia|]. split; [exact O2|]. split; [exact I2|]. split; [lia|]. split.
    + intros l o G. exact (F2 _ _ (F1 _ _ G)).
    + intros c w [E|Hcw]; [|exact (C2 c w Hcw)]. inversion E; subst c w.
      destruct k; cbn [const_at] in *; auto.
      * destruct C1 as [l [E1 G1]]. exists l. split; [exact E1|exact (F2 _ _ G1)].
      * destruct C1 as [l [E1 G1]]. exists l. split; [exact E1|exact (F2 _ _ G1)].
Qed.

Lemma hi_empty_heap : heap_ints empty_heap.
Proof. intros l b vs H. cbn [empty_heap cells] in H. rewrite PM.gempty in H. discriminate H. Qed.

(* nothing is related yet *)
Definition R0 : loc_rel := fun _ _ => False.

Lemma RelS_initial : forall ks consts h0, load_consts ks empty_heap = (consts, h0) ->
  RelS (Z.of_nat (length ks)) (combine ks consts) [] [] R0 sem_init (hst_of (vm_start vm_new consts h0)).
Proof.
  intros ks consts h0 El.
  destruct (load_consts_pool ks empty_heap consts h0 El heap_ok_empty hi_empty_heap) as [L [O [I0 [N [_ C]]]]].
  constructor; cbn [hst_of vm_start vm_new hs_heap hs_gl hs_out sem_init st_heap st_out st_next st_cells v_heap v_globals v_out map].
  - constructor.
    + constructor; [intros l l' []|intros l l1 l2 []|intros l1 l2 l' []].
    + exact heap_ok_empty.
    + exact O.
    + lia.
    + cbn [empty_heap n_alloc] in *. lia.
  - reflexivity.
  - constructor.
  - intros [|i] y c H; discriminate H.
  - intros c [].
  - intros c _. apply PM.gempty.
  - intros c v Hin. specialize (C c v Hin). destruct c; cbn [const_at] in C; auto.
    destruct C as [l [E G]]. exists l. split; [exact E|]. split; [exact G|]. intros ls [].
  - constructor.
  - exact I0.
Qed.

(** * Whole programs on the machine *)

Section Run.
  Variable orc : oracle.

  Theorem compile_run_F2h : forall p bc consts h0, in_F2h p = true -> ends_pop p = true -> compile p = Ok bc ->
    load_consts (b_constants bc) empty_heap = (consts, h0) ->
    forall fuel,
    match hstmts orc (combine (b_constants bc) consts) fuel [] p VNull (hst_of (vm_start vm_new consts h0)) with
    | HOk v m' =>
        exists n sF s', steps orc (mkProgram (b_code bc) consts) n (vm_start vm_new consts h0) = Ok sF /\
                        step orc (mkProgram (b_code bc) consts) sF = Ok (Halted v s') /\
                        v_heap s' = hs_heap m' /\ v_out s' = hs_out m'
    | HErr k out => stops orc (mkProgram (b_code bc) consts) (vm_start vm_new consts h0) (Err k) out
    | HFault f out => stops orc (mkProgram (b_code bc) consts) (vm_start vm_new consts h0) (Fault f) out
    | _ => True
    end.
  Proof.
    intros p bc consts h0 HF Hpop H El fuel. destruct (compile_inv p bc H) as [st1 [Hc ->]]. clear H.
    cbn [b_constants b_code] in *.
    set (pl := combine (c_constants st1) consts).
    destruct (hlsim_all orc pl p false compiler_new st1 O [] [] HF eq_refl Hc) as [ce [nb L]].
    pose proof L as [CF _].
    pose proof (cfh_nbnil _ _ _ _ _ _ CF eq_refl) as ->.
    pose proof (cfh_code _ _ _ _ _ _ CF) as Hce. cbn [compiler_new c_code app] in Hce.
    destruct (load_consts_pool _ _ _ _ El heap_ok_empty hi_empty_heap) as [Llen [_ [_ [_ [_ Cat]]]]].
    set (prog := mkProgram (ce ++ [byte_of_opcode OHalt]) consts).
    set (s0 := vm_start vm_new consts h0).
    assert (code_len st1 = zlength ce) as Lce by (unfold code_len; rewrite Hce; reflexivity).
    assert (envh pl prog compiler_new st1 (canon false ce) [] 0) as E.
    { constructor.
      - split; [reflexivity|]. intros i b Hi _. unfold byte_at. change (code_len compiler_new) with 0.
        cbn [Z.add]. destruct (Z.of_nat i <? 0) eqn:Ei; [apply Z.ltb_lt in Ei; lia|].
        rewrite Nat2Z.id. cbn [prog p_code]. rewrite nth_error_app1; [exact Hi|].
        apply nth_error_Some. unfold canon in Hi. rewrite Hi. discriminate.
      - split.
        + split; [apply map_snd_combine; symmetry; exact Llen|].
          exists []. rewrite app_nil_r. apply map_fst_combine. symmetry. exact Llen.
        + intros c v Hin. specialize (Cat c v Hin). destruct c; cbn [const_at] in Cat; auto.
          * destruct Cat as [l [E1 _]]. exists l. exact E1.
          * destruct Cat as [l [E1 _]]. exists l. exact E1.
      - intros ip []. }
    pose proof (hstmt_mode orc pl p compiler_new st1 [] [] ce [] L prog 0 E ltac:(lia) ltac:(cbn; lia) fuel s0 VNull eq_refl)
      as Hsim.
    change (flat [] []) with (@nil text) in Hsim. rewrite Hpop in Hsim. rewrite Hce. fold prog s0.
    destruct (hstmts orc pl fuel [] p VNull (hst_of s0)) as [v m'|m'|m'|e o|y o|]; cbn [simh_full] in *; try exact I;
      try exact Hsim.
    destruct Hsim as [fin' [[n Hn] Hfin]]. rewrite (Hfin eq_refl) in Hn.
    set (sF := seth s0 (v_stack s0) (v_slen s0) (code_len st1) m' v) in *.
    assert (code_at prog (v_ip sF) [byte_of_opcode OHalt]) as Hh.
    { exists ce, []. split; [reflexivity|]. symmetry. exact Lce. }
    assert (VMInv prog sF) as Hinv.
    { apply (steps_inv orc prog n s0 sF); [|exact Hn]. exact (vm_inv_initial _ _ consts h0 El). }
    destruct (halt_step orc prog sF [] Hinv Hh) as [s' [Hst [Hout Hheap]]].
    exists n, sF, s'. split; [exact Hn|]. split; [exact Hst|]. split; [exact Hheap|exact Hout].
  Qed.
End Run.

(** * The result graph after the collector has been dropped *)

Lemma h_get_find : forall h l o, h_get h l = Ok o -> PM.find l (cells h) = Some (true, o).
Proof.
  intros h l o H. unfold h_get in H. destruct (PM.find l (cells h)) as [[[|] x]|]; try discriminate H.
  inversion H; reflexivity.
Qed.

Lemma h_get_same_find : forall h h' l, PM.find l (cells h') = PM.find l (cells h) -> h_get h' l = h_get h l.
Proof. intros h h' l H. unfold h_get. rewrite H. reflexivity. Qed.

Lemma vals_lift : forall (R Rf : loc_rel) vs vs', Forall2 (val_rel R) vs vs' ->
  (forall a a', val_rel R a a' -> In a' vs' -> val_rel Rf a a') -> Forall2 (val_rel Rf) vs vs'.
Proof.
  intros R Rf vs vs' H. induction H as [|x x' r r' Hx Hr IH]; intros Hl; constructor.
  - apply Hl; [exact Hx|left; reflexivity].
  - apply IH. intros a a' Ha Hin. apply Hl; [exact Ha|right; exact Hin].
Qed.

(* dropping the collector releases only boxes that are not reachable from the result: the result
   graph read in the heap after the drop is the graph the program built *)
Lemma graph_after_drop : forall R hs hm hm2 v v',
  graph_rel R hs hm -> val_rel R v v' ->
  (forall l, reach hm [v'] l -> PM.find l (cells hm2) = PM.find l (cells hm)) ->
  graph_eq hs v hm2 v'.
Proof.
  intros R hs hm hm2 v v' [G1 G2 G3] Hv Hsame.
  set (Rf := fun l l' => R l l' /\ reach hm [v'] l').
  assert (forall a a', val_rel R a a' -> (forall k, val_loc a' = Some k -> reach hm [v'] k) -> val_rel Rf a a') as Hlift.
  { intros a a' Ha Hr. destruct Ha; constructor; split; try assumption; apply Hr; reflexivity. }
  exists Rf. split.
  - apply Hlift; [exact Hv|]. intros k Hk. apply (reach_root hm [v'] v' k); [left; reflexivity|exact Hk].
  - constructor.
    + intros l l' [Hr Hre]. destruct (G1 l l' Hr) as [o [o' [A [B C]]]]. exists o, o'.
      split; [exact A|]. split; [rewrite (h_get_same_find hm hm2 l' (Hsame l' Hre)); exact B|].
      destruct o; destruct o'; cbn [obj_rel] in *; try contradiction; try exact C.
      pose proof (h_get_find _ _ _ B) as Hf.
      assert (forall x', In x' vs0 -> forall k, val_loc x' = Some k -> reach hm [v'] k) as Hel.
      { intros x' Hin k Hk. exact (reach_elem hm [v'] l' true vs0 x' k Hre Hf Hin Hk). }
      apply (vals_lift R Rf _ _ C). intros a a' Ha Hin. apply Hlift; [exact Ha|].
      intros k Hk. exact (Hel a' Hin k Hk).
    + intros l l1 l2 [H1 _] [H2 _]. exact (G2 l l1 l2 H1 H2).
    + intros l1 l2 l' [H1 Hre] [H2 _]. destruct (G3 l1 l2 l' H1 H2) as [E|[f Hf]]; [left; exact E|right].
      exists f. rewrite (h_get_same_find hm hm2 l' (Hsame l' Hre)). exact Hf.
Qed.

(** * The literals of the program at run time *)

Lemma lits_good : forall p bc consts, in_F2h p = true -> compile p = Ok bc -> lits_exact (lits_b p) ->
  length consts = length (b_constants bc) ->
  Forall (lit_good (combine (b_constants bc) consts)) (lits_b p).
Proof.
  intros p bc consts HF Hc Hex Hlen. destruct (compile_pool_facts p bc HF Hc) as [P V].
  apply Forall_forall. intros c Hin. set (pl := combine (b_constants bc) consts).
  assert (map fst pl = b_constants bc) as Hfst by (apply map_fst_combine; symmetry; exact Hlen).
  assert (map snd pl = consts) as Hsnd by (apply map_snd_combine; symmetry; exact Hlen).
  destruct (const_position c (b_constants bc)) as [i|] eqn:Ep; [|exfalso; exact (P c Hin Ep)].
  pose proof (const_position_lt _ _ _ Ep) as Hlt.
  destruct (nth_error consts i) as [v|] eqn:En; [|apply nth_error_None in En; lia].
  assert (pool_find c pl = Some v) as Hfind by (rewrite pool_find_position, Hfst, Ep, Hsnd; exact En).
  exists v. split; [exact Hfind|].
  destruct (pool_find_in _ _ _ Hfind) as [c' [Hin' He]].
  assert (c' = c) as ->; [|exact Hin'].
  destruct c as [z|f|s|ip n].
  - apply const_eqb_exact; [intros f; discriminate|exact He].
  - destruct c' as [z'|f'|s'|ip' n']; try discriminate He. cbn [const_eqb] in He.
    f_equal. apply Hex; [|exact Hin|exact He]. apply V. rewrite <- Hfst.
    apply (in_map fst pl (KFloat f', v)) in Hin'. exact Hin'.
  - apply const_eqb_exact; [intros f; discriminate|exact He].
  - apply const_eqb_exact; [intros f; discriminate|exact He].
Qed.

(** * Compiler correctness for F2h *)

(* Main theorem.  As for F2 the fuel of the static pass is made sufficient explicitly.  Two
   hypotheses are new: `lits_exact` (the constant pool merges IEEE-equal float literals; a program
   that writes both 0.0 and -0.0 - which no source text can - is outside the statement) and
   `sem_small` (fewer than 2^60 boxes: the address space of a heap word). *)
Theorem compile_correct_F2h : forall orc p, in_F2h p = true -> ends_expr p = true ->
  lits_exact (lits_b p) ->
  forall bc, compile p = Ok bc ->
  forall fuel, (size2h_b p <= fuel)%nat -> sem_program orc fuel p <> SemFuel ->
  sem_small orc fuel p (length (b_constants bc)) ->
  exists budget, obs_eq_h (run_program orc bc budget) (sem_program orc fuel p).
Proof.
  intros orc p HF HE Hex bc Hc fuel Hsz Hnf Hsmall. unfold sem_program in *.
  rewrite (static_accepts_F2h p bc fuel HF Hc Hsz) in *.
  destruct p as [|s0 r].
  - (* the empty program *)
    vm_compute in Hc. inversion Hc; subst bc. cbn [size2h_b] in Hsz. destruct fuel as [|f]; [lia|].
    rewrite eb_nil. exists 1%nat. cbn [obs_eq_h sem_init st_heap st_out].
    eexists; eexists. split; [vm_compute; reflexivity|]. split; [vm_compute; reflexivity|]. split; [vm_compute; reflexivity|].
    exists R0. split; [constructor|]. constructor; [intros l l' []|intros l l1 l2 []|intros l1 l2 l' []].
  - assert (ends_pop (s0 :: r) = true) as Hpop by (apply ends_expr_pop; [discriminate|exact HE]).
    set (p := s0 :: r) in *.
    destruct (load_consts (b_constants bc) empty_heap) as [consts h0] eqn:El.
    set (K := Z.of_nat (length (b_constants bc))).
    set (pl := combine (b_constants bc) consts).
    set (prog := mkProgram (b_code bc) consts).
    set (sv0 := vm_start vm_new consts h0).
    destruct (load_consts_pool _ _ _ _ El heap_ok_empty hi_empty_heap) as [Llen _].
    pose proof (compile_run_F2h orc p bc consts h0 HF Hpop Hc El fuel) as Hrun. fold pl prog sv0 in Hrun.
    pose proof (RelS_initial (b_constants bc) consts h0 El) as HR0. fold K pl sv0 in HR0.
    assert (bounded K (exec_block orc fuel (mkD [[]] None) p VNull sem_init)) as Hbd.
    { unfold bounded. unfold sem_small, sem_final_state in Hsmall.
      destruct (exec_block orc fuel (mkD [[]] None) p VNull sem_init) as [v s|sg s|k s|x s|]; cbn [rstate];
        try exact I; apply Hsmall; reflexivity. }
    pose proof (proj2 (proj2 (sem_heval orc K pl fuel)) false p (mkD [[]] None) [] sem_init (hst_of sv0) [] R0 VNull VNull HF
                  (lits_good p bc consts HF Hc Hex Llen)
                  (conj eq_refl eq_refl) HR0 (fun h (H : In h []) => match H with end)
                  (fun h y c (H : In h []) => match H with end) (Pval_null R0) Hbd) as Hsem.
    change (map fst (@nil (text * positive))) with (@nil text) in Hsem.
    pose proof (proj2 (proj2 (heval_nosig orc pl fuel)) p [] VNull (hst_of sv0) HF) as Hns.
    pose proof (vm_inv_initial (b_code bc) _ consts h0 El) as Hinv0. fold prog sv0 in Hinv0.
    destruct (exec_block orc fuel (mkD [[]] None) p VNull sem_init) as [v s2|sg s2|k s2|x s2|];
      destruct (hstmts orc pl fuel [] p VNull (hst_of sv0)) as [v' m'|m'|m'|k' o|f' o|];
      cbn [corr corrg hnosig] in Hsem, Hns; try contradiction; try (destruct sg as [| |rv]; contradiction).
    + (* a value *)
      destruct Hsem as [R' [_ [[Hv _] HR']]]. destruct Hrun as [n [sF [s' [Hn [Hst [Hheap Hout]]]]]].
      exists (n + 1)%nat.
      assert (run_loop orc prog (n + 1) sv0 = (Ok v', s', O)) as Hloop.
      { rewrite (run_loop_reach orc prog n sv0 sF 1 Hn). cbn [run_loop]. rewrite Hst. reflexivity. }
      destruct (result_survives_drop orc prog (n + 1) sv0 v' s' O Hinv0 Hloop) as [g' [hf [Ed [Hpres _]]]].
      rewrite (run_program_obs orc bc (n + 1) consts h0 _ _ _ El Hloop). cbn [obs_eq_h o_result o_heap o_out].
      exists v', hf. split; [reflexivity|]. split; [rewrite Ed; reflexivity|].
      split; [rewrite Hout; symmetry; exact (RS_out _ _ _ _ _ _ _ HR')|].
      apply (graph_after_drop R' (st_heap s2) (v_heap s') hf v v').
      * rewrite Hheap. exact (hr_graph _ _ _ _ (RS_hr _ _ _ _ _ _ _ HR')).
      * exact Hv.
      * intros l Hl. exact (proj1 (Hpres l Hl)).
    + (* an error *)
      destruct Hsem as [-> Ho]. destruct Hrun as [n [s1 [Hn [Hst Hout]]]]. exists (n + 1)%nat.
      assert (run_loop orc prog (n + 1) sv0 = (Err k', s1, O)) as Hloop.
      { rewrite (run_loop_reach orc prog n sv0 s1 1 Hn). cbn [run_loop]. rewrite Hst. reflexivity. }
      rewrite (run_program_obs orc bc (n + 1) consts h0 _ _ _ El Hloop). cbn [obs_eq_h o_result o_out].
      split; [reflexivity|congruence].
    + (* a fault *)
      destruct Hsem as [-> Ho]. destruct Hrun as [n [s1 [Hn [Hst Hout]]]]. exists (n + 1)%nat.
      assert (run_loop orc prog (n + 1) sv0 = (Fault f', s1, O)) as Hloop.
      { rewrite (run_loop_reach orc prog n sv0 s1 1 Hn). cbn [run_loop]. rewrite Hst. reflexivity. }
      rewrite (run_program_obs orc bc (n + 1) consts h0 _ _ _ El Hloop). cbn [obs_eq_h o_result o_out].
      split; [reflexivity|congruence].
Qed.

Print Assumptions compile_correct_F2h.

(** * Corollaries (properties C13 / C14 at source level) *)

(* everything printed: same text, in the same order, also when the run ends in an error *)
Definition sem_out (r : sem_result) : option text :=
  match r with
  | SemValue _ _ out | SemError _ out | SemFault _ out => Some out
  | _ => None
  end.

Corollary print_output_order : forall orc p, in_F2h p = true -> ends_expr p = true ->
  lits_exact (lits_b p) ->
  forall bc, compile p = Ok bc ->
  forall fuel, (size2h_b p <= fuel)%nat -> sem_program orc fuel p <> SemFuel ->
  sem_small orc fuel p (length (b_constants bc)) ->
  exists budget, sem_out (sem_program orc fuel p) = Some (o_out (run_program orc bc budget)).
Proof.
  intros orc p HF HE Hex bc Hc fuel Hsz Hnf Hsm.
  destruct (compile_correct_F2h orc p HF HE Hex bc Hc fuel Hsz Hnf Hsm) as [budget H]. exists budget.
  destruct (sem_program orc fuel p) as [k|v h out|k out|f out|]; cbn [obs_eq_h sem_out] in *; try contradiction.
  - destruct H as [v' [hm [_ [_ [Ho _]]]]]. rewrite Ho. reflexivity.
  - destruct H as [_ Ho]. rewrite Ho. reflexivity.
  - destruct H as [_ Ho]. rewrite Ho. reflexivity.
Qed.

(* a builtin call appends what it prints to the output, and only print prints *)
Lemma builtin_out_appends : forall orc m b args v m', h_builtin orc m b args = Ok (v, m') ->
  exists t, hs_out m' = hs_out m ++ t /\ (b <> BPrint -> t = []).
Proof.
  intros orc m b args v m' H. unfold h_builtin in H.
  destruct (call_builtin orc b (hs_heap m) args) as [[[w h'] t]| | |] eqn:E; try discriminate H.
  cbn [bind fst snd] in H. inversion H; subst. exists t. split; [reflexivity|].
  intros Hb. destruct b; try contradiction; cbn [call_builtin] in E;
    match type of E with (do r <- ?x; Ok (r, [])) = _ => destruct x; cbn [bind] in E; inversion E; reflexivity end.
Qed.

(* the indexing rule: a[i] for a negative i counts from the back, on both sides *)
Corollary index_rule_source : forall z len, 0 <= len -> MIN_INT <= z ->
  (0 <= z < len -> spec_index z len = Some (Z.to_nat z) /\ norm_index z len = Ok z) /\
  (- len <= z < 0 -> spec_index z len = Some (Z.to_nat (len + z)) /\ norm_index z len = Ok (len + z)) /\
  (z < - len \/ len <= z -> spec_index z len = None /\ norm_index z len = Err EIndexError).
Proof.
  intros z len Hlen Hz.
  assert (- WORD <= z) as Hw by (apply (int_lb_word z); cbn [int_lb]; apply Z.leb_le; exact Hz).
  rewrite (norm_index_spec z len Hlen Hw). unfold spec_index, in_range, norm.
  split; [|split]; intros Hr;
    destruct (Z.leb_spec 0 z); destruct (Z.ltb_spec z len); destruct (Z.ltb_spec z 0);
    destruct (Z.leb_spec (- len) z); cbn [andb]; try lia;
    (split; first [reflexivity | f_equal; lia | f_equal; f_equal; lia]).
Qed.

(* ... and the two evaluators give related answers for related operands (arrays and strings,
   negative indices, index and type errors) *)
Corollary index_get_agrees : forall K pl holes ds R sst m base base' idx idx', RelS K pl holes ds R sst m ->
  Pval R base base' -> Pval R idx idx' ->
  corr K pl holes ds R (sem_index_get sst base idx) (hlift_o m (h_index_get m base' idx')).
Proof. exact index_get_corr. Qed.

(* aliasing: two names hold the same array in Sem exactly when they do on the machine (l1' is an
   array box: every array value a program can build points to one) *)
Corollary alias_same_on_both_sides : forall K pl holes ds R sst m i j y1 c1 y2 c2 l1 l2 l1' l2' vs,
  RelS K pl holes ds R sst m ->
  nth_error ds i = Some (y1, c1) -> nth_error ds j = Some (y2, c2) -> ~ In i holes -> ~ In j holes ->
  get_cell c1 sst = VArr l1 -> get_cell c2 sst = VArr l2 ->
  nth i (hs_gl m) VNull = VArr l1' -> nth j (hs_gl m) VNull = VArr l2' ->
  get_arr (hs_heap m) l1' = Ok vs ->
  (l1 = l2 <-> l1' = l2').
Proof.
  intros K pl holes ds R sst m i j y1 c1 y2 c2 l1 l2 l1' l2' vs HR Hi Hj Hni Hnj G1 G2 M1 M2 Harr.
  pose proof (RS_val _ _ _ _ _ _ _ HR i y1 c1 Hi Hni) as V1. rewrite G1, M1 in V1.
  pose proof (RS_val _ _ _ _ _ _ _ HR j y2 c2 Hj Hnj) as V2. rewrite G2, M2 in V2.
  inversion V1 as [| | | | |a a' Ha]; subst. inversion V2 as [| | | | |b b' Hb]; subst.
  pose proof (hr_graph _ _ _ _ (RS_hr _ _ _ _ _ _ _ HR)) as [G1' G2' G3']. split.
  - intros ->. exact (G2' _ _ _ Ha Hb).
  - intros ->. destruct (G3' _ _ _ Ha Hb) as [E|[f Hf]]; [exact E|].
    apply get_arr_inv in Harr. rewrite Harr in Hf. discriminate Hf.
Qed.

(* a write through one name is seen through every other name of the same array (Sem; the machine
   answers the same by compile_correct_F2h, and holds the same aliases by the corollary above) *)
Corollary alias_through_variables : forall st l z v st' vs,
  get_arr (st_heap st) l = Ok vs ->
  sem_index_set st (VArr l) (VInt z) v = ROk v st' ->
  sem_index_get st' (VArr l) (VInt z) = ROk v st'.
Proof.
  intros st l z v st' vs Hg H. unfold sem_index_set in H. rewrite Hg in H. cbn [lift_plain rbind] in H.
  destruct (spec_index z (zlength vs)) as [n|] eqn:Es; [|discriminate H].
  pose proof (get_arr_inv _ _ _ Hg) as Hg'. rewrite (h_set_ok _ _ _ _ Hg') in H. cbn [lift_plain rbind] in H.
  inversion H; subst st'. clear H.
  unfold sem_index_get. cbn [with_heap st_heap]. rewrite (get_arr_of _ _ _ (h_get_set_cell_same _ _ _)).
  cbn [lift_plain rbind].
  assert (zlength (replace_nth n v vs) = zlength vs) as -> by (unfold zlength; rewrite length_replace_nth; reflexivity).
  rewrite Es.
  assert (n < length vs)%nat as Hn.
  { unfold spec_index in Es. unfold zlength in Es.
    destruct ((0 <=? z) && (z <? Z.of_nat (length vs))) eqn:E1.
    - inversion Es. apply andb_prop in E1. destruct E1 as [A B]. apply Z.leb_le in A. apply Z.ltb_lt in B. lia.
    - destruct ((z <? 0) && (- Z.of_nat (length vs) <=? z)) eqn:E2; [|discriminate Es].
      inversion Es. apply andb_prop in E2. destruct E2 as [A B]. apply Z.ltb_lt in A. apply Z.leb_le in B. lia. }
  assert (nth_error (replace_nth n v vs) n = Some v) as ->.
  { clear -Hn. revert n Hn. induction vs as [|x r IH]; intros n Hn; cbn [length] in Hn; [lia|].
    destruct n; cbn [replace_nth nth_error]; [reflexivity|]. apply IH. lia. }
  reflexivity.
Qed.

(* a failed write: the error is raised before anything changed - in Sem the state at the error is
   the state before the write, in the evaluator (and on the machine: VMIndexProofs.set_failure_unchanged,
   run_loop returns the state before the failing instruction) no new state exists, and nothing was
   printed *)
Corollary failed_write_leaves_sequence_unchanged : forall st base idx v k st',
  sem_index_set st base idx v = RErr k st' -> st' = st.
Proof.
  intros st base idx v k st' H. unfold sem_index_set in H.
  destruct idx; try (inversion H; reflexivity). destruct base; try (inversion H; reflexivity).
  - destruct (get_str (st_heap st) l) as [t| | |]; cbn [lift_plain rbind] in H; try discriminate H;
      try (inversion H; reflexivity).
    destruct (spec_index z (zlength t)); [|inversion H; reflexivity].
    destruct v; try (inversion H; reflexivity).
    destruct (get_str (st_heap st) l0) as [repl| | |]; cbn [lift_plain rbind] in H; try discriminate H;
      try (inversion H; reflexivity).
    destruct (h_set (st_heap st) l _) as [h'| | |]; cbn [lift_plain rbind] in H; try discriminate H;
      inversion H; reflexivity.
  - destruct (get_arr (st_heap st) l) as [vs| | |]; cbn [lift_plain rbind] in H; try discriminate H;
      try (inversion H; reflexivity).
    destruct (spec_index z (zlength vs)); [|inversion H; reflexivity].
    destruct (h_set (st_heap st) l _) as [h'| | |]; cbn [lift_plain rbind] in H; try discriminate H;
      inversion H; reflexivity.
Qed.

Corollary failed_write_machine : forall m lhs idx v k out,
  hlift_o m (h_index_set m lhs idx v) = HErr k out -> out = hs_out m.
Proof.
  intros m lhs idx v k out H. destruct (h_index_set m lhs idx v) as [[x m']| | |]; cbn [hlift_o] in H;
    try discriminate H. inversion H; reflexivity.
Qed.

(** * F2h contains F2 *)

Lemma f2_in_f2h : (forall e lp, f2e lp e = true -> f2he lp e = true) /\
                  (forall s lp, f2s lp s = true -> f2hs lp s = true).
Proof.
  assert (forall l, Forall (fun s => forall lp, f2s lp s = true -> f2hs lp s = true) l ->
                    forall lp, f2b lp l = true -> f2hb lp l = true) as Hb.
  { intros l H. induction H as [|s r Hs Hr IH]; intros lp HF; [reflexivity|].
    rewrite f2b_cons in HF. apply andb_prop in HF. destruct HF as [H1 H2].
    rewrite f2hb_cons, (Hs lp H1), (IH lp H2). reflexivity. }
  apply expr_stmt_ind.
  - intros l o r IHl IHr lp HF. cbn [f2e] in HF. apply andb_prop in HF. destruct HF as [HF Hr].
    apply andb_prop in HF. destruct HF as [Ho Hl]. rewrite f2he_infix, Ho, (IHl false Hl), (IHr false Hr). reflexivity.
  - intros o r IHr lp HF. cbn [f2e] in HF. apply andb_prop in HF. destruct HF as [Ho Hr].
    rewrite f2he_prefix, Ho, (IHr false Hr). reflexivity.
  - intros z lp HF. exact HF.
  - intros x lp HF. discriminate HF.
  - intros b lp HF. reflexivity.
  - intros c t alt IHc IHt IHa lp HF. rewrite f2e_if in HF. apply andb_prop in HF. destruct HF as [HF Ha].
    apply andb_prop in HF. destruct HF as [Hc Ht]. rewrite f2he_if, (IHc false Hc), (Hb t IHt lp Ht). cbn [andb].
    destruct alt as [bl|]; [exact (Hb bl IHa lp Ha)|reflexivity].
  - intros x lp HF. reflexivity.
  - intros n ps body _ lp HF. discriminate HF.
  - intros h args _ _ lp HF. discriminate HF.
  - intros l r _ IHr lp HF. cbn [f2e] in HF. destruct l; try discriminate HF. rewrite f2he_assign. exact (IHr false HF).
  - intros x lp HF. discriminate HF.
  - intros vs _ lp HF. discriminate HF.
  - intros b i _ _ lp HF. discriminate HF.
  - intros c b IHc IHb lp HF. rewrite f2e_while in HF. apply andb_prop in HF. destruct HF as [Hc Hbd].
    rewrite f2he_while, (IHc false Hc), (Hb b IHb true Hbd). reflexivity.
  - intros x e IHe lp HF. cbn [f2s] in HF. apply andb_prop in HF. destruct HF as [He Hm].
    cbn [f2hs]. rewrite (IHe false He), Hm. reflexivity.
  - intros e _ lp HF. discriminate HF.
  - intros e IHe lp HF. exact (IHe lp HF).
  - intros b IHb lp HF. rewrite f2s_block in HF. rewrite f2hs_block. exact (Hb b IHb lp HF).
  - intros lp HF. exact HF.
  - intros lp HF. exact HF.
Qed.

Corollary in_F2_in_F2h : forall p, in_F2 p = true -> in_F2h p = true.
Proof.
  intros p. unfold in_F2, in_F2h. generalize false. induction p as [|s r IH]; intros lp HF; [reflexivity|].
  rewrite f2b_cons in HF. apply andb_prop in HF. destruct HF as [H1 H2].
  rewrite f2hb_cons, (proj2 f2_in_f2h s lp H1), (IH lp H2). reflexivity.
Qed.

(** * Examples: the hypotheses are satisfiable, the statements say what they should *)

Definition exh_orc : oracle := mkOracle (fun _ => [102%N]) (fun _ => None) (fun x _ => x).
Definition xa : text := [97%N].
Definition xb : text := [98%N].
Definition xs : text := [115%N].
Definition t_print : text := str_cps "print".
Definition t_lengte : text := str_cps "lengte".
Definition t_type : text := str_cps "type".

(* stel a = [1, 2.5, "hi"]; stel b = a; b[0] = 10; print("{} {}", a[0], lengte(a));
   stel s = "abc"; s[-1] = "xyz"; print(s); a[1] = a[1] + 0.5; print(type(a[1])); a *)
Definition exh_prog : block :=
  [ SLet xa (EArray [EInt 1; EFloat 2.5%float; EString (str_cps "hi")]);
    SLet xb (EIdent xa);
    SExpr (EAssign (EIndex (EIdent xb) (EInt 0)) (EInt 10));
    SExpr (ECall (EIdent t_print) [EString (str_cps "{} {}"); EIndex (EIdent xa) (EInt 0);
                                   ECall (EIdent t_lengte) [EIdent xa]]);
    SLet xs (EString (str_cps "abc"));
    SExpr (EAssign (EIndex (EIdent xs) (EPrefix OpSubtract (EInt 1))) (EString (str_cps "xyz")));
    SExpr (ECall (EIdent t_print) [EIdent xs]);
    SExpr (EAssign (EIndex (EIdent xa) (EInt 1)) (EInfix (EIndex (EIdent xa) (EInt 1)) OpAdd (EFloat 0.5%float)));
    SExpr (ECall (EIdent t_print) [ECall (EIdent t_type) [EIndex (EIdent xa) (EInt 1)]]);
    SExpr (EIdent xa) ].

Example exh_in_fragment : in_F2h exh_prog = true /\ ends_expr exh_prog = true /\ in_F2 exh_prog = false.
Proof. vm_compute. repeat split; reflexivity. Qed.

Example exh_lits_exact : lits_exact (lits_b exh_prog).
Proof.
  intros f g Hf Hg He. cbn in Hf, Hg.
  repeat (destruct Hf as [Hf|Hf]; [try discriminate Hf; inversion Hf; subst f|]); try contradiction;
    repeat (destruct Hg as [Hg|Hg]; [try discriminate Hg; inversion Hg; subst g|]); try contradiction;
    try reflexivity; vm_compute in He; discriminate He.
Qed.

(* what the machine does: the alias b sees the write, the output is "10 3\nabxyz\nfloat\n",
   the final value is the array *)
Example exh_runs :
  match compile exh_prog with
  | Ok bc =>
      o_out (run_program exh_orc bc 1000) = str_cps "10 3" ++ [10%N] ++ str_cps "abxyz" ++ [10%N] ++ str_cps "float" ++ [10%N]
      /\ (exists l, o_result (run_program exh_orc bc 1000) = Ok (VArr l))
      /\ sem_out (sem_program exh_orc 100 exh_prog) = Some (o_out (run_program exh_orc bc 1000))
  | _ => False
  end.
Proof. vm_compute. split; [reflexivity|]. split; [eexists; reflexivity|reflexivity]. Qed.

Example exh_by_theorem : forall bc, compile exh_prog = Ok bc ->
  exists budget, obs_eq_h (run_program exh_orc bc budget) (sem_program exh_orc 100 exh_prog).
Proof.
  intros bc H.
  apply (compile_correct_F2h exh_orc exh_prog (proj1 exh_in_fragment) (proj1 (proj2 exh_in_fragment))
           exh_lits_exact bc H 100).
  - vm_compute. lia.
  - vm_compute. discriminate.
  - vm_compute in H. inversion H; subst bc. intros st Hst. vm_compute in Hst. inversion Hst; subst st.
    vm_compute. reflexivity.
Qed.

(* an index error is raised at the same point, after the same output *)
Definition exh_err : block :=
  [ SLet xa (EArray [EInt 1; EInt 2]);
    SExpr (ECall (EIdent t_print) [EIndex (EIdent xa) (EPrefix OpSubtract (EInt 1))]);
    SExpr (EIndex (EIdent xa) (EInt 2)) ].

Example exh_err_runs :
  in_F2h exh_err = true /\
  match compile exh_err with
  | Ok bc => o_result (run_program exh_orc bc 1000) = Err EIndexError
             /\ o_out (run_program exh_orc bc 1000) = [50%N; 10%N]
             /\ sem_program exh_orc 100 exh_err = SemError EIndexError [50%N; 10%N]
  | _ => False
  end.
Proof. vm_compute. repeat split; reflexivity. Qed.

(* WHY obs_eq_h compares graphs under a location correspondence that may identify floats, and not
   the canonical renderings of corr/CorrRun.v / CorrSem.v: the machine pushes the pooled box of a
   float constant, Sem allocates a box per evaluation.  [1.5, 1.5]: one shared box on the machine,
   two boxes in Sem.  (Unobservable in the language: floats are immutable and `==` compares
   contents.) *)
Definition exh_shared : block := [ SExpr (EArray [EFloat 1.5%float; EFloat 1.5%float]) ].
Example exh_shared_float :
  in_F2h exh_shared = true /\
  match compile exh_shared with
  | Ok bc =>
      match o_result (run_program exh_orc bc 100), o_heap (run_program exh_orc bc 100),
            sem_program exh_orc 100 exh_shared with
      | Ok (VArr l), Ok hm, SemValue (VArr ls) hs _ =>
          (exists k, h_get hm l = Ok (OArr [VFloat k; VFloat k])) /\
          (exists k1 k2, h_get hs ls = Ok (OArr [VFloat k1; VFloat k2]) /\ k1 <> k2)
      | _, _, _ => False
      end
  | _ => False
  end.
Proof.
  vm_compute. split; [reflexivity|]. split; [eexists; reflexivity|].
  eexists; eexists. split; [reflexivity|discriminate].
Qed.

(* WHY lits_exact is assumed: 0.0 and -0.0 are IEEE-equal, the pool keeps one of them
   (PoolProofs.zero_and_negzero_share_a_slot); 1 / x tells them apart *)
Definition exh_negzero : block :=
  [ SExpr (EFloat 0%float);
    SExpr (EInfix (EFloat 1%float) OpDivide (EFloat (-0)%float)) ].
Example exh_negzero_differs :
  in_F2h exh_negzero = true /\ ~ lits_exact (lits_b exh_negzero) /\
  match compile exh_negzero with
  | Ok bc =>
      match o_result (run_program exh_orc bc 100), o_heap (run_program exh_orc bc 100),
            sem_program exh_orc 100 exh_negzero with
      | Ok (VFloat l), Ok hm, SemValue (VFloat ls) hs _ =>
          h_get hm l = Ok (OFloat infinity) /\ h_get hs ls = Ok (OFloat neg_infinity)
      | _, _, _ => False
      end
  | _ => False
  end.
Proof.
  split; [vm_compute; reflexivity|]. split.
  - intros H. specialize (H 0%float (-0)%float). cbn in H.
    assert (0%float = (-0)%float) as E by (apply H; auto; vm_compute; reflexivity).
    assert (PrimFloat.eqb (1 / 0)%float (1 / (-0))%float = true) as E2 by (rewrite <- E; vm_compute; reflexivity).
    vm_compute in E2. discriminate E2.
  - vm_compute. split; reflexivity.
Qed.

Print Assumptions compile_correct_F2h.
Print Assumptions static_accepts_F2h.
Print Assumptions compile_run_F2h.
Print Assumptions print_output_order.
Print Assumptions alias_same_on_both_sides.
Print Assumptions alias_through_variables.
Print Assumptions index_rule_source.
Print Assumptions failed_write_leaves_sequence_unchanged.
