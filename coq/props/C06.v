(* C06 - operators are exact over the whole value range, negatives and limits included.
   Property theorems only (proofs in proofs/OpsProofs.v). *)
From NL.Model Require Import Ops.
From NL.Spec Require Import ArithSpec.
From NL.Proofs Require OpsProofs.
Open Scope Z_scope.

(* The chain is: source operator o --(compile_operator, regenerated)--> opcode c
   --(VM dispatch, regenerated)--> method m --(object.rs macros as modelled in Ops.v)--> result.
   For ALL operands of all seven types the result is the specification's. *)
Theorem ops_exact : forall orc o c m h a b xa xb,
  assoc operator_eqb o compile_operator_table = Some c ->
  assoc opcode_eqb c binary_dispatch = Some m ->
  wf_val a = true -> wf_val b = true ->
  sval_of h a = Some xa -> sval_of h b = Some xb ->
  binop orc m h a b = lift_sres h (spec_binop (float_rem orc) o xa xb).
Proof. exact OpsProofs.ops_exact. Qed.

(* all 13 binary operators of the language are covered by the chain *)
Theorem ops_chain_total : forall o,
  In o [OpAdd; OpSubtract; OpMultiply; OpDivide; OpModulo; OpLt; OpLte; OpGt; OpGte; OpEq; OpNeq; OpAnd; OpOr] ->
  exists c m, assoc operator_eqb o compile_operator_table = Some c
              /\ assoc opcode_eqb c binary_dispatch = Some m.
Proof. exact OpsProofs.ops_chain_total. Qed.

(* integer corollary, spelled out: exact in Z, errors exactly outside the range / on zero divisor *)
Theorem int_ops_exact : forall orc o c m h a b,
  assoc operator_eqb o compile_operator_table = Some c ->
  assoc opcode_eqb c binary_dispatch = Some m ->
  MIN_INT <= a <= MAX_INT -> MIN_INT <= b <= MAX_INT ->
  binop orc m h (VInt a) (VInt b) = lift_sres h (spec_int o a b).
Proof. exact OpsProofs.int_ops_exact. Qed.

(* comparison on integers is the order of Z: total, antisymmetric, transitive, and
   a < b is the negation of a >= b *)
Theorem int_order_agrees : forall orc h a b,
  MIN_INT <= a <= MAX_INT -> MIN_INT <= b <= MAX_INT ->
  binop orc "lt" h (VInt a) (VInt b) = Ok (VBool (a <? b), h)
  /\ binop orc "lte" h (VInt a) (VInt b) = Ok (VBool (a <=? b), h)
  /\ binop orc "gt" h (VInt a) (VInt b) = Ok (VBool (b <? a), h)
  /\ binop orc "gte" h (VInt a) (VInt b) = Ok (VBool (b <=? a), h)
  /\ binop orc "eq" h (VInt a) (VInt b) = Ok (VBool (a =? b), h)
  /\ binop orc "neq" h (VInt a) (VInt b) = Ok (VBool (negb (a =? b)), h).
Proof. exact OpsProofs.int_order_agrees. Qed.

(* unary minus *)
Theorem negate_exact : forall h z, MIN_INT <= z <= MAX_INT ->
  negate h (VInt z) = if in_int_range (- z) then Ok (VInt (- z), h) else Err ETypeError.
Proof. exact OpsProofs.negate_exact. Qed.

(* the fused variable-op-constant instructions dispatch to the same method as the generic
   instruction of the same operator (regenerated tables; by computation) *)
Theorem fused_same_method : forall o c1 c2 m1,
  assoc operator_eqb o compile_operator_table = Some c1 ->
  assoc operator_eqb o fused_table = Some c2 ->
  assoc opcode_eqb c1 binary_dispatch = Some m1 ->
  assoc opcode_eqb c2 fused_dispatch = Some m1.
Proof. exact OpsProofs.fused_same_method. Qed.

(* the mirror table used when the literal stands on the left is sound:
   c op x = x op' c for every integer literal c and every value x of any type *)
Theorem mirror_sound : forall frem o o' c b,
  assoc operator_eqb o mirror_table = Some o' ->
  spec_binop frem o (XInt c) b = spec_binop frem o' b (XInt c).
Proof. exact OpsProofs.mirror_sound. Qed.

Example ops_exact_nonvacuous :
  wf_val (VInt (-1)) = true /\ sval_of empty_heap (VInt (-1)) = Some (XInt (-1))
  /\ assoc operator_eqb OpLt compile_operator_table = Some OLt
  /\ assoc opcode_eqb OLt binary_dispatch = Some "lt"%string.
Proof. vm_compute. repeat split. Qed.

Check ops_exact : forall orc o c m h a b xa xb,
  assoc operator_eqb o compile_operator_table = Some c ->
  assoc opcode_eqb c binary_dispatch = Some m ->
  wf_val a = true -> wf_val b = true ->
  sval_of h a = Some xa -> sval_of h b = Some xb ->
  binop orc m h a b = lift_sres h (spec_binop (float_rem orc) o xa xb).

Print Assumptions ops_exact.
Print Assumptions ops_chain_total.
Print Assumptions int_ops_exact.
Print Assumptions int_order_agrees.
Print Assumptions negate_exact.
Print Assumptions fused_same_method.
Print Assumptions mirror_sound.
