(* C12 - calls bind arguments, isolate activations and resume the caller intact. Property theorems only. SOURCE level (proofs/CompileCorrectE.v ... I.v, fragment F3: scalar and function values): calls evaluate their arguments left to right then the callee, bind by position, run in a fresh activation, and return to a caller whose variables and pending operands are intact - by simulation against the definitional semantics, recursion and first-class functions included. MACHINE level (proofs/VMStepProofs.v): Call / Return / ReturnValue for EVERY machine state and program. *)
From NL.Model Require Import VM Pipeline.
From NL.Spec Require Import Sem Fragment3.
From NL.Proofs Require VMStepProofs CompileCorrectI.
From NL.Spec Require Import Sem Fragment Fragment2 Fragment2h Fragment3 Fragment4.
From NL.Proofs Require CompileCorrectJ9 CompileCorrectJ10.
Import VMStepProofs.
Open Scope Z_scope.

(* source level, whole programs of fragment F3: direct, mutual (through variables) and deep recursion within the machine's limits, functions stored, passed and returned, calls nested in expressions and argument lists *)
Theorem compile_correct_F3 : forall (orc : oracle) (p : block), in_F3 p = true -> ends_expr p = true -> forall bc : bytecode, compile p = Ok bc -> forall fuel : nat, (size3_b p <= fuel)%nat -> sem_program orc fuel p <> SemFuel -> (forall out : text, sem_program orc fuel p <> SemError EArgumentError out) -> (exists budget : nat, obs_eq3 (run_program orc bc budget) (sem_program orc fuel p)) \/ hits_excluded orc bc.
Proof. exact CompileCorrectI.compile_correct_F3. Qed.

(* arguments are evaluated left to right, then the callee, on both sides of the simulation *)
Theorem args_left_to_right : forall (orc : oracle) (f : nat) (c : dctx) (st : cstate) (fn : expr) (args : list expr) (sst : sstate) (y : CompileCorrectE.yst), is_builtin_callee fn = false -> eval_expr orc (S f) c (ECall fn args) sst = (rdo (vs, s1)<- CompileCorrectG.sem_list orc f c args sst; rdo (fv, s2)<- eval_expr orc f c fn s1; CompileCorrectG.sem_call orc f fv vs s2) /\ (forall (x : expr) (r : list expr) (s : sstate), CompileCorrectG.sem_list orc f c (x :: r) s = (rdo (v, s1)<- eval_expr orc f c x s; rdo (vs, s2)<- CompileCorrectG.sem_list orc f c r s1; ROk (v :: vs) s2)) /\ CompileCorrectE.yeval orc (S f) st (ECall fn args) y = CompileCorrectE.ybind (CompileCorrectE.yargs orc f st args y) (fun (vs : list val) (y1 : CompileCorrectE.yst) => match CompilerNames.compile_exprs args st with | Ok st1 => CompileCorrectE.ybind (CompileCorrectE.yeval orc f st1 fn y1) (fun (fv : val) (y2 : CompileCorrectE.yst) => CompileCorrectE.ycall orc f fv vs y2) | _ => CompileCorrectE.YFault FUnwrap end) /\ (forall (x : expr) (r : list expr) (st0 : cstate) (y0 : CompileCorrectE.yst), CompileCorrectE.yargs orc f st0 (x :: r) y0 = CompileCorrectE.ybind (CompileCorrectE.yeval orc f st0 x y0) (fun (v : val) (y1 : CompileCorrectE.yst) => match compile_expression x st0 with | Ok st1 => CompileCorrectE.ybind (CompileCorrectE.yargs orc f st1 r y1) (fun (vs : list val) (y2 : CompileCorrectE.yst) => CompileCorrectE.YOk (v :: vs) y2) | _ => CompileCorrectE.YFault FUnwrap end)) /\ CompileCorrectF.esim orc (ECall fn args).
Proof. exact CompileCorrectI.args_left_to_right. Qed.

(* after a call returns, the caller's environment and everything older in the store are unchanged (frame), and the simulation relation holds again *)
Theorem caller_intact : forall (orc : oracle) (p : block) (st1 : cstate), in_F3 p = true -> compile_statements p compiler_new = Ok st1 -> forall (f : nat) (E : CompileCorrectG.cenv) (F : list CompileCorrectE.fentry) (sst : sstate) (y : CompileCorrectE.yst) (fv fv' : val) (vs vs' : list val) (v : val) (sst' : sstate), CompileCorrectG.Rel3 (CompileCorrectH.lits p) E F sst y -> CompileCorrectG.vrel F fv fv' -> Forall2 (CompileCorrectG.vrel F) vs vs' -> CompileCorrectG.sem_call orc f fv vs sst = ROk v sst' -> match CompileCorrectE.ycall orc f fv' vs' y with | CompileCorrectE.YOk v' y' => CompileCorrectE.y_loc y' = CompileCorrectE.y_loc y /\ (exists X : list CompileCorrectE.fentry, CompileCorrectG.vrel (F ++ X) v v' /\ CompileCorrectG.Rel3 (CompileCorrectH.lits p) E (F ++ X) sst' y' /\ CompileCorrectG.frame E sst sst') | CompileCorrectE.YExcl => True | _ => False end.
Proof. exact CompileCorrectI.caller_intact. Qed.

(* a call pops the function value, keeps the arguments as the first locals, pads the remaining locals with null, saves the return address and the caller's base pointer *)
Theorem call_frame : forall (orc : oracle) (prog : program) (s : vm) (argc ip n : Z) (args_rev rest : list val) (cur : frame) (frs : list frame) (r : list Z), VMStepProofs.code_at prog (v_ip s) (byte_of_opcode OCall :: argc :: r) -> v_stack s = VFun ip n :: args_rev ++ rest -> v_slen s = zlength (v_stack s) -> zlength args_rev = argc -> argc <= n -> v_slen s - 1 + n <= MAX_STACK_SIZE -> v_frames s = cur :: frs -> zlength (v_frames s) < MAX_FRAMES -> step orc prog s = Ok (Continue (VMStepProofs.called s ip n argc args_rev rest cur frs)).
Proof. exact VMStepProofs.call_frame. Qed.

(* local i is the i-th argument in source order *)
Theorem call_binds_by_position : forall (s : vm) (ip n argc : Z) (args_rev rest : list val) (cur : frame) (frs : list frame) (i : Z), zlength args_rev = argc -> argc <= n -> 0 <= i < argc -> exists v : val, nth_error (rev args_rev) (Z.to_nat i) = Some v /\ get_local i (VMStepProofs.called s ip n argc args_rev rest cur frs) = Ok v.
Proof. exact VMStepProofs.call_binds_by_position. Qed.

(* the other locals start as null *)
Theorem call_pads_with_null : forall (s : vm) (ip n argc : Z) (args_rev rest : list val) (cur : frame) (frs : list frame) (i : Z), zlength args_rev = argc -> argc <= i < n -> get_local i (VMStepProofs.called s ip n argc args_rev rest cur frs) = Ok VNull.
Proof. exact VMStepProofs.call_pads_with_null. Qed.

(* a call touches neither globals, heap, output nor the last statement value *)
Theorem call_preserves : forall (s : vm) (ip n argc : Z) (args_rev rest : list val) (cur : frame) (frs : list frame), let s' := VMStepProofs.called s ip n argc args_rev rest cur frs in v_globals s' = v_globals s /\ v_heap s' = v_heap s /\ v_gc s' = v_gc s /\ v_out s' = v_out s /\ v_final s' = v_final s /\ v_ip s' = ip /\ v_bp s' = zlength rest /\ v_frames s' = {| f_ip := ip; f_bp := zlength rest |} :: {| f_ip := v_ip s + 2; f_bp := f_bp cur |} :: frs.
Proof. exact VMStepProofs.call_preserves. Qed.

(* more arguments than the function has locals is an argument error, never a negative count *)
Theorem arity_checked : forall (orc : oracle) (prog : program) (s : vm) (argc ip n : Z) (st : list val) (r : list Z), VMStepProofs.code_at prog (v_ip s) (byte_of_opcode OCall :: argc :: r) -> v_stack s = VFun ip n :: st -> n < argc -> step orc prog s = Err EArgumentError.
Proof. exact VMStepProofs.arity_checked. Qed.

(* a stack or frame list at its limit is an error, never a wrapped 16-bit base pointer *)
Theorem depth_limit : forall (orc : oracle) (prog : program) (s : vm) (argc ip n : Z) (st : list val) (r : list Z), VMStepProofs.code_at prog (v_ip s) (byte_of_opcode OCall :: argc :: r) -> v_stack s = VFun ip n :: st -> argc <= n -> MAX_STACK_SIZE < v_slen s - 1 + n \/ MAX_FRAMES <= zlength (v_frames s) -> step orc prog s = Err ETypeError.
Proof. exact VMStepProofs.depth_limit. Qed.

(* calling a non-function is a type error *)
Theorem call_non_function : forall (orc : oracle) (prog : program) (s : vm) (argc : Z) (f : val) (st : list val) (r : list Z), VMStepProofs.code_at prog (v_ip s) (byte_of_opcode OCall :: argc :: r) -> v_stack s = f :: st -> (forall ip n : Z, f <> VFun ip n) -> step orc prog s = Err ETypeError.
Proof. exact VMStepProofs.call_non_function. Qed.

(* these are all the outcomes of a call *)
Theorem call_outcomes : forall (orc : oracle) (prog : program) (s : vm) (argc : Z) (f : val) (st : list val) (r : list Z), VMStepProofs.code_at prog (v_ip s) (byte_of_opcode OCall :: argc :: r) -> v_stack s = f :: st -> step orc prog s = Err ETypeError \/ step orc prog s = Err EArgumentError \/ step orc prog s = Fault FCallUnderflow \/ step orc prog s = Fault FNoFrame \/ (exists (ip n : Z) (s' : vm), f = VFun ip n /\ step orc prog s = Ok (Continue s') /\ argc <= n /\ v_slen s' = v_slen s - 1 + (n - argc) /\ v_slen s - 1 + n <= MAX_STACK_SIZE /\ zlength (v_frames s) < MAX_FRAMES /\ v_bp s' = v_slen s - 1 - argc /\ 0 <= v_bp s' /\ v_ip s' = ip).
Proof. exact VMStepProofs.call_outcomes. Qed.

(* ReturnValue hands the result back to a caller whose stack below the callee's base - its locals and half-evaluated operands - is IDENTICAL, with its base pointer and return address restored; only the collector touches the heap *)
Theorem return_restores : forall (orc : oracle) (prog : program) (s : vm) (result : val) (above rest : list val) (fr : frame) (ret cbp : Z) (frs : list frame) (s' : vm), byte_at prog (v_ip s) = Some (byte_of_opcode OReturnValue) -> v_stack s = result :: above ++ rest -> v_slen s = zlength (v_stack s) -> v_frames s = fr :: {| f_ip := ret; f_bp := cbp |} :: frs -> f_bp fr = zlength rest -> step orc prog s = Ok (Continue s') -> v_stack s' = result :: rest /\ v_slen s' = zlength (v_stack s') /\ v_ip s' = ret /\ v_bp s' = cbp /\ v_frames s' = {| f_ip := ret; f_bp := cbp |} :: frs /\ v_globals s' = v_globals s /\ v_final s' = v_final s /\ v_out s' = v_out s /\ gc_run (v_heap s) (v_gc s) (roots prog (VMStepProofs.resumed s rest ret cbp frs) [v_final s; result]) = Ok (v_gc s', v_heap s').
Proof. exact VMStepProofs.return_restores. Qed.

(* Return likewise, with null *)
Theorem return_null_restores : forall (orc : oracle) (prog : program) (s : vm) (above rest : list val) (fr : frame) (ret cbp : Z) (frs : list frame) (s' : vm), byte_at prog (v_ip s) = Some (byte_of_opcode OReturn) -> v_stack s = above ++ rest -> v_slen s = zlength (v_stack s) -> v_frames s = fr :: {| f_ip := ret; f_bp := cbp |} :: frs -> f_bp fr = zlength rest -> step orc prog s = Ok (Continue s') -> v_stack s' = VNull :: rest /\ v_slen s' = zlength (v_stack s') /\ v_ip s' = ret /\ v_bp s' = cbp /\ v_frames s' = {| f_ip := ret; f_bp := cbp |} :: frs /\ v_globals s' = v_globals s /\ v_final s' = v_final s /\ v_out s' = v_out s /\ gc_run (v_heap s) (v_gc s) (roots prog (VMStepProofs.resumed s rest ret cbp frs) [v_final s]) = Ok (v_gc s', v_heap s').
Proof. exact VMStepProofs.return_null_restores. Qed.

(* call then return, whatever the callee did above its base in between *)
Theorem call_return_roundtrip : forall (orc : oracle) (prog : program) (s0 : vm) (argc ip n : Z) (args_rev rest : list val) (cur : frame) (frs : list frame) (s : vm) (result : val) (above : list val) (s' : vm), v_frames s0 = cur :: frs -> v_frames s = v_frames (VMStepProofs.called s0 ip n argc args_rev rest cur frs) -> byte_at prog (v_ip s) = Some (byte_of_opcode OReturnValue) -> v_stack s = result :: above ++ rest -> v_slen s = zlength (v_stack s) -> step orc prog s = Ok (Continue s') -> v_stack s' = result :: rest /\ v_ip s' = v_ip s0 + 2 /\ v_bp s' = f_bp cur /\ v_frames s' = {| f_ip := v_ip s0 + 2; f_bp := f_bp cur |} :: frs /\ v_globals s' = v_globals s /\ v_out s' = v_out s.
Proof. exact VMStepProofs.call_return_roundtrip. Qed.

(* the callee's locals occupy stack positions above everything the caller owns *)
Theorem activations_disjoint : forall (s : vm) (ip n argc : Z) (args_rev rest : list val) (cur : frame) (frs : list frame), zlength args_rev = argc -> argc <= n -> let s' := VMStepProofs.called s ip n argc args_rev rest cur frs in (forall pos : Z, 0 <= pos < zlength rest -> VMStepProofs.slot s' pos = nth_error rest (Z.to_nat (zlength rest - 1 - pos))) /\ (forall i : Z, 0 <= i < n -> zlength rest <= v_bp s' + i < v_slen s' /\ get_local i s' = match VMStepProofs.slot s' (v_bp s' + i) with | Some v => Ok v | None => Fault FLocalSlot end /\ VMStepProofs.slot s' (v_bp s' + i) <> None) /\ (forall (i : Z) (v : val), 0 <= i < n -> exists top' : list val, set_local i v s' = Ok (upd_stack s' (top' ++ rest) (v_slen s')) /\ zlength top' = n).
Proof. exact VMStepProofs.activations_disjoint. Qed.

(* two live activations never share a slot *)
Theorem nested_activations_disjoint : forall (s1 : vm) (ip1 n1 argc1 : Z) (args1 rest1 : list val) (cur1 : frame) (frs1 : list frame) (s2 : vm) (ip2 n2 argc2 : Z) (args2 : list val) (cur2 : frame) (frs2 : list frame) (mid locals1 : list val), zlength locals1 = n1 -> let a1 := VMStepProofs.called s1 ip1 n1 argc1 args1 rest1 cur1 frs1 in let a2 := VMStepProofs.called s2 ip2 n2 argc2 args2 (mid ++ locals1 ++ rest1) cur2 frs2 in v_bp a1 + n1 <= v_bp a2.
Proof. exact VMStepProofs.nested_activations_disjoint. Qed.

(* the frame bookkeeping invariant (stack length, base pointers) holds in every reachable state *)
Theorem step_preserves_wf : forall (orc : oracle) (prog : program) (s : vm) (r : stepres), VMStepProofs.vm_wf s -> step orc prog s = Ok r -> VMStepProofs.vm_wf (VMStepProofs.state_of r).
Proof. exact VMStepProofs.step_preserves_wf. Qed.

(* SOURCE level, WHOLE language outside the exclusions of DESIGN 4.3 (functions, heap values, builtins together, collector running): the compiled program computes exactly what the definitional semantics assigns to the tree - which decides this property for every such program of the model *)
Theorem compile_correct_F4 : forall (orc : oracle) (p : block), in_F4 p = true -> ends_expr p = true -> lits_exact (lits_b p) -> forall bc : bytecode, compile p = Ok bc -> forall fuel : nat, (size3_b p <= fuel)%nat -> sem_program orc fuel p <> SemFuel -> sem_small orc fuel p (length (b_constants bc)) -> (exists budget : nat, obs_eq4 (run_program orc bc budget) (sem_program orc fuel p)) \/ hits_excluded4 (CompileCorrectJ5.fun_table p) orc bc.
Proof. exact CompileCorrectJ9.compile_correct_F4. Qed.

(* across a call the location correspondence only grows: every box the caller knew - an array passed as argument in particular - keeps its partner, with related contents after the call (modified in the callee = modified for the caller) *)
Theorem arrays_shared_across_calls : forall (orc : oracle) (K : Z) (pl : list (const * val)) (Bd : Z), Bd + K + 1 < 2 ^ 60 -> forall (f : nat) (fv fv' : val) (vs vs' : list val) (yS yM : CompileCorrectJ2.yst) (R : loc_rel) (v : val) (y3 : CompileCorrectJ2.yst), CompileCorrectJ6.vrm R fv fv' -> Forall2 (CompileCorrectJ6.vrm R) vs vs' -> CompileCorrectJ7.YR K pl R yS yM -> CompileCorrectJ2.ycall orc CompileCorrectJ2.lit_fresh f fv vs yS = CompileCorrectJ2.YOk v y3 -> CompileCorrectJ3.yn y3 <= Bd -> exists (v' : val) (y3' : CompileCorrectJ2.yst) (R' : loc_rel), CompileCorrectJ2.ycall orc (CompileCorrectJ2.lit_pool pl) f fv' vs' yM = CompileCorrectJ2.YOk v' y3' /\ CompileCorrectH3.rel_incl R R' /\ CompileCorrectJ6.vrm R' v v' /\ CompileCorrectJ7.YR K pl R' y3 y3' /\ (forall l l' : positive, R l l' -> exists o o' : obj, h_get (CompileCorrectH1.hs_heap (CompileCorrectJ2.y_m y3)) l = Ok o /\ h_get (CompileCorrectH1.hs_heap (CompileCorrectJ2.y_m y3')) l' = Ok o' /\ CompileCorrectJ6.orm R' o o').
Proof. exact CompileCorrectJ10.arrays_shared_across_calls. Qed.


Print Assumptions compile_correct_F3.
Print Assumptions args_left_to_right.
Print Assumptions caller_intact.
Print Assumptions call_frame.
Print Assumptions call_binds_by_position.
Print Assumptions call_pads_with_null.
Print Assumptions call_preserves.
Print Assumptions arity_checked.
Print Assumptions depth_limit.
Print Assumptions call_non_function.
Print Assumptions call_outcomes.
Print Assumptions return_restores.
Print Assumptions return_null_restores.
Print Assumptions call_return_roundtrip.
Print Assumptions activations_disjoint.
Print Assumptions nested_activations_disjoint.
Print Assumptions step_preserves_wf.
Print Assumptions compile_correct_F4.
Print Assumptions arrays_shared_across_calls.
