(* C07 - source text denotes one tree: precedence, associativity, layout-independence. Property theorems only; layout-independence in spec/Layout.v, proofs/LayoutProofs.v, proofs/TextRoundTrip.v (printer and the boolean image of the parser in spec/Printer.v; proofs in proofs/PrinterProofs.v, PrinterFinal.v). For EVERY tree in the parser's image, parsing its printed form (minimal parentheses computed from the regenerated precedence table) gives back exactly that tree, with the fuel the model really uses. *)
From NL.Model Require Import Parser.
From NL.Spec Require Import Printer RenderSpec Layout.
From NL.Proofs Require PrinterProofs PrinterFinal LayoutProofs TextRoundTrip.


(* THE property: parse (print t) = t for every well-formed tree, every float oracle that reads back what the printer writes *)
Theorem parse_tokens_print : forall (pf : text -> option float) (show_f : float -> text) (b : block), wf_tree b = true -> (forall x : float, pf (show_f x) = Some x) -> parse_tokens pf (print_program show_f b) = Ok b.
Proof. exact PrinterFinal.parse_tokens_print. Qed.

(* ... unconditionally for trees without float literals *)
Theorem parse_tokens_print_nofloat : forall (pf : text -> option float) (show_f : float -> text) (b : block), wf_tree_nofloat b = true -> parse_tokens pf (print_program show_f b) = Ok b.
Proof. exact PrinterFinal.parse_tokens_print_nofloat. Qed.

(* the Pratt invariant behind it: an expression printed for context (p, f) followed by anything that binds no tighter than f is read back by parse_expr p, leaving the rest *)
Theorem parse_print_expr : forall (pf : text -> option float) (show_f : float -> text) (fok : float -> bool), (forall x : float, fok x = true -> pf (show_f x) = Some x) -> forall (e : expr) (p f : prec) (rest : list token), wf_expr fok e = true -> PrinterProofs.p_ok p -> PrinterProofs.follow f rest -> (prec_rank f <= prec_rank p)%nat -> exists n : nat, forall fuel : nat, (n <= fuel)%nat -> parse_expr pf fuel p (print_expr show_f p f e ++ rest) = Ok (e, rest).
Proof. exact PrinterProofs.parse_print_expr. Qed.

(* wf_tree is exactly the parser's image: everything the parser returns is well-formed (so the round trip covers all trees a program can have) *)
Theorem wf_complete : forall (pf : text -> option float) (fuel : nat) (ts : list token) (b : block), parse_program pf fuel ts = Ok b -> wf_tree b = true.
Proof. exact PrinterProofs.wf_complete. Qed.

(* * / % above + - above < <= > >= above == != above && || above =, calls and indexing above all: by computation on the regenerated table *)
Theorem precedence_documented : PrinterProofs.op_rank OpMultiply = PrinterProofs.op_rank OpDivide /\ PrinterProofs.op_rank OpDivide = PrinterProofs.op_rank OpModulo /\ (PrinterProofs.op_rank OpAdd < PrinterProofs.op_rank OpModulo)%nat /\ PrinterProofs.op_rank OpAdd = PrinterProofs.op_rank OpSubtract /\ (PrinterProofs.op_rank OpLt < PrinterProofs.op_rank OpAdd)%nat /\ PrinterProofs.op_rank OpLt = PrinterProofs.op_rank OpLte /\ PrinterProofs.op_rank OpLte = PrinterProofs.op_rank OpGt /\ PrinterProofs.op_rank OpGt = PrinterProofs.op_rank OpGte /\ (PrinterProofs.op_rank OpEq < PrinterProofs.op_rank OpLt)%nat /\ PrinterProofs.op_rank OpEq = PrinterProofs.op_rank OpNeq /\ (PrinterProofs.op_rank OpAnd < PrinterProofs.op_rank OpEq)%nat /\ PrinterProofs.op_rank OpAnd = PrinterProofs.op_rank OpOr /\ (tok_rank KAssign < PrinterProofs.op_rank OpAnd)%nat /\ (0 < tok_rank KAssign)%nat /\ (forall o : operator, is_infix_op o = true -> (PrinterProofs.op_rank o < tok_rank KOpenParen)%nat) /\ (forall o : operator, is_infix_op o = true -> (PrinterProofs.op_rank o < tok_rank KOpenBracket)%nat) /\ (tok_rank KOpenBracket < inf_rank)%nat /\ (tok_rank KOpenParen < inf_rank)%nat.
Proof. exact PrinterProofs.precedence_documented. Qed.

(* equal levels associate to the left *)
Theorem left_assoc : forall (pf : text -> option float) (o1 o2 : operator) (a b c : text) (rest : list token), is_infix_op o1 = true -> is_infix_op o2 = true -> PrinterProofs.op_rank o1 = PrinterProofs.op_rank o2 -> PrinterProofs.follow PLowest rest -> exists n : nat, forall fuel : nat, (n <= fuel)%nat -> parse_expr pf fuel PLowest (TIdent a :: TFix (infix_tok o1) :: TIdent b :: TFix (infix_tok o2) :: TIdent c :: rest) = Ok (EInfix (EInfix (EIdent a) o1 (EIdent b)) o2 (EIdent c), rest).
Proof. exact PrinterProofs.left_assoc. Qed.

(* a higher level binds tighter on either side *)
Theorem higher_binds_tighter : forall (pf : text -> option float) (o1 o2 : operator) (a b c : text) (rest : list token), is_infix_op o1 = true -> is_infix_op o2 = true -> PrinterProofs.follow PLowest rest -> ((PrinterProofs.op_rank o1 < PrinterProofs.op_rank o2)%nat -> exists n : nat, forall fuel : nat, (n <= fuel)%nat -> parse_expr pf fuel PLowest (TIdent a :: TFix (infix_tok o1) :: TIdent b :: TFix (infix_tok o2) :: TIdent c :: rest) = Ok (EInfix (EIdent a) o1 (EInfix (EIdent b) o2 (EIdent c)), rest)) /\ ((PrinterProofs.op_rank o2 < PrinterProofs.op_rank o1)%nat -> exists n : nat, forall fuel : nat, (n <= fuel)%nat -> parse_expr pf fuel PLowest (TIdent a :: TFix (infix_tok o1) :: TIdent b :: TFix (infix_tok o2) :: TIdent c :: rest) = Ok (EInfix (EInfix (EIdent a) o1 (EIdent b)) o2 (EIdent c), rest)).
Proof. exact PrinterProofs.higher_binds_tighter. Qed.

(* the actual rule for prefix operators (operand read with the operator token's infix level): -a*b = -(a*b), -a+b = (-a)+b, !a==b = !(a==b) *)
Theorem prefix_quirk : forall (pf : text -> option float) (a b : text) (rest : list token), PrinterProofs.follow PLowest rest -> (exists n : nat, forall fuel : nat, (n <= fuel)%nat -> parse_expr pf fuel PLowest (TFix KMinus :: TIdent a :: TFix KStar :: TIdent b :: rest) = Ok (EPrefix OpSubtract (EInfix (EIdent a) OpMultiply (EIdent b)), rest)) /\ (exists n : nat, forall fuel : nat, (n <= fuel)%nat -> parse_expr pf fuel PLowest (TFix KMinus :: TIdent a :: TFix KPlus :: TIdent b :: rest) = Ok (EInfix (EPrefix OpSubtract (EIdent a)) OpAdd (EIdent b), rest)) /\ (exists n : nat, forall fuel : nat, (n <= fuel)%nat -> parse_expr pf fuel PLowest (TFix KBang :: TIdent a :: TFix KEq :: TIdent b :: rest) = Ok (EPrefix OpNot (EInfix (EIdent a) OpEq (EIdent b)), rest)).
Proof. exact PrinterProofs.prefix_quirk. Qed.

(* `a o= e` means `a = a o (e)` for every infix operator o and every expression e *)
Theorem op_assign_desugars : forall (pf : text -> option float) (show_f : float -> text) (fok : float -> bool), (forall x : float, fok x = true -> pf (show_f x) = Some x) -> forall (a : text) (o : operator) (e : expr) (rest : list token), is_infix_op o = true -> wf_expr fok e = true -> PrinterProofs.follow PLowest rest -> let t := EAssign (EIdent a) (EInfix (EIdent a) o e) in let pe := print_expr show_f PLowest PLowest e in exists n : nat, forall fuel : nat, (n <= fuel)%nat -> parse_expr pf fuel PLowest (TIdent a :: TFix (infix_tok o) :: TFix KAssign :: pe ++ rest) = Ok (t, rest) /\ parse_expr pf fuel PLowest (TIdent a :: TFix KAssign :: TIdent a :: TFix (infix_tok o) :: TFix KOpenParen :: pe ++ TFix KCloseParen :: rest) = Ok (t, rest) /\ parse_expr pf fuel PLowest (print_expr show_f PLowest PLowest t ++ rest) = Ok (t, rest).
Proof. exact PrinterProofs.op_assign_desugars. Qed.

(* string literals: decoding the quoted form gives back the text *)
Theorem decode_quote : forall s : text, decode_string (Printer.quote s) = s.
Proof. exact PrinterProofs.decode_quote. Qed.

(* integer literals keep their value *)
Theorem parse_digits_show_N : forall n : N, parse_digits (show_N n) 0 = Some n.
Proof. exact PrinterProofs.parse_digits_show_N. Qed.

(* LAYOUT-INDEPENDENCE at token level: for EVERY layout oracle - any number of redundant parentheses around any expression, every optional ; and , omitted wherever not required, trailing separators, `anders als` chains where harmless - parsing gives back the same tree *)
Theorem parse_tokens_print_lay : forall (pf : text -> option float) (show_f : float -> text) (lay : layout) (b : block), wf_tree b = true -> (forall x : float, pf (show_f x) = Some x) -> parse_tokens pf (print_program_lay show_f lay b) = Ok b.
Proof. exact LayoutProofs.parse_tokens_print_lay. Qed.

(* the layout printer with the default layout is the minimal printer (so the above strictly generalises parse_tokens_print) *)
Theorem print_program_lay_plain : forall (show_f : float -> text) (b : block), print_program_lay show_f plain b = print_program show_f b.
Proof. exact LayoutProofs.print_program_lay_plain. Qed.

(* which separators are required: exactly before a statement/item starting with ( [ or - *)
Theorem continues_stmt_start : forall t : token, LayoutProofs.stmt_start t = true -> continues t = true <-> t = TFix KOpenParen \/ t = TFix KOpenBracket \/ t = TFix KMinus.
Proof. exact LayoutProofs.continues_stmt_start. Qed.

(* `anders als` chains nest to the right and denote the same tree as `anders { als ... }` *)
Theorem else_if_chain : forall (pf : text -> option float) (show_f : float -> text) (fok : float -> bool), (forall x : float, fok x = true -> pf (show_f x) = Some x) -> forall (c : expr) (t : list stmt) (e2 : expr) (semi : bool) (rest : list token), wf_expr fok (EIf c t (Some [SExpr e2])) = true -> is_if e2 = true -> LayoutProofs.boundary rest -> continues (cur rest) = false -> let tree := SExpr (EIf c t (Some [SExpr e2])) in exists n : nat, forall fuel : nat, (n <= fuel)%nat -> parse_statement pf fuel (TFix KIf :: print_expr show_f PLowest PLowest c ++ print_block show_f t ++ TFix KElse :: print_expr show_f PLowest PLowest e2 ++ (if semi then [TFix KSemi] else []) ++ rest) = Ok (tree, rest) /\ parse_statement pf fuel (print_stmt show_f tree ++ rest) = Ok (tree, rest).
Proof. exact LayoutProofs.else_if_chain. Qed.

(* TEXT level: parse (text of the printed tree) = tree, through the real lexer model, for printable trees *)
Theorem parse_render_spaces : forall (u : unicode) (pf : text -> option float) (show_f : float -> text) (b : block), wf_tree b = true -> tree_printable u show_f b = true -> (forall x : float, pf (show_f x) = Some x) -> parse u pf (render_spaces (print_program show_f b)) = Ok b.
Proof. exact TextRoundTrip.parse_render_spaces. Qed.

(* TEXT level, every layout and every admissible separator choice (all white-space forms, comments, nothing where tokens do not fuse): white space, comments, redundant parentheses and optional separators never change the tree *)
Theorem parse_render_print_lay : forall (u : unicode) (pf : text -> option float) (show_f : float -> text) (lay : layout) (b : block) (items : list (text * token)) (trail : text), wf_tree b = true -> (forall x : float, pf (show_f x) = Some x) -> map snd items = print_program_lay show_f lay b -> admissible u None items -> trailgap u trail -> trail_admissible (last_tok None items) trail -> parse u pf (render items trail) = Ok b.
Proof. exact TextRoundTrip.parse_render_print_lay. Qed.

(* two layouts of one tree parse to the same tree *)
Theorem layout_irrelevant : forall (u : unicode) (pf : text -> option float) (show_f : float -> text) (lay1 lay2 : layout) (b : block), wf_tree b = true -> tree_printable u show_f b = true -> (forall x : float, pf (show_f x) = Some x) -> parse u pf (render_spaces (print_program_lay show_f lay1 b)) = parse u pf (render_spaces (print_program_lay show_f lay2 b)).
Proof. exact TextRoundTrip.layout_irrelevant. Qed.


Print Assumptions parse_tokens_print.
Print Assumptions parse_tokens_print_nofloat.
Print Assumptions parse_print_expr.
Print Assumptions wf_complete.
Print Assumptions precedence_documented.
Print Assumptions left_assoc.
Print Assumptions higher_binds_tighter.
Print Assumptions prefix_quirk.
Print Assumptions op_assign_desugars.
Print Assumptions decode_quote.
Print Assumptions parse_digits_show_N.
Print Assumptions parse_tokens_print_lay.
Print Assumptions print_program_lay_plain.
Print Assumptions continues_stmt_start.
Print Assumptions else_if_chain.
Print Assumptions parse_render_spaces.
Print Assumptions parse_render_print_lay.
Print Assumptions layout_irrelevant.
