(* C04 - garbage is reclaimed and a finished run leaves nothing behind.
   Property theorems only.  Part 1: the collector. *)
From NL.Spec Require Import GCInv.
From NL.Proofs Require GCProofs.
Open Scope Z_scope.

(* after a collection the collector holds exactly the managed objects reachable from the roots *)
Theorem run_collects : forall h g roots g' h',
  GCInv h g -> roots_managed g roots -> roots_ok h roots -> gc_run h g roots = Ok (g', h') ->
  forall v, In v (objects g') <->
            (In v (objects g) /\ exists l, val_loc v = Some l /\ reach h roots l).
Proof. exact GCProofs.run_collects. Qed.

(* every unreachable managed box is released, exactly once (the ledger counts them) *)
Theorem run_frees_garbage_once : forall h g roots g' h',
  GCInv h g -> roots_managed g roots -> gc_run h g roots = Ok (g', h') ->
  (forall l, managed g l -> ~ reach h roots l -> h_alive h' l = false)
  /\ n_freed h' = n_freed h + Z.of_nat (length (objects g)) - Z.of_nat (length (objects g'))
  /\ n_alloc h' = n_alloc h.
Proof. exact GCProofs.run_frees_garbage_once. Qed.

(* dropping the collector releases everything it still manages, each box once *)
Theorem destroy_frees_all : forall h g, GCInv h g ->
  exists g' h', gc_destroy h g = Ok (g', h') /\ objects g' = []
    /\ (forall l, managed g l -> h_alive h' l = false)
    /\ (forall l, ~ managed g l -> PM.find l (cells h') = PM.find l (cells h))
    /\ n_freed h' = n_freed h + Z.of_nat (length (objects g)).
Proof. exact GCProofs.destroy_frees_all. Qed.

(* handing a result over to the caller: untrace removes exactly the managed objects reachable
   from it (each once, terminating on cycles) and frees nothing *)
Theorem untrace_spec : forall h g o, GCInv h g -> roots_managed g [o] -> roots_ok h [o] ->
  exists g', untrace h g o = Ok g'
    /\ NoDup (map val_loc (objects g'))
    /\ (forall v, In v (objects g') <->
                  (In v (objects g) /\ forall l, val_loc v = Some l -> ~ reach h [o] l)).
Proof. exact GCProofs.untrace_spec. Qed.

Check run_collects : forall h g roots g' h',
  GCInv h g -> roots_managed g roots -> roots_ok h roots -> gc_run h g roots = Ok (g', h') ->
  forall v, In v (objects g') <->
            (In v (objects g) /\ exists l, val_loc v = Some l /\ reach h roots l).

Print Assumptions run_collects.
Print Assumptions run_frees_garbage_once.
Print Assumptions destroy_frees_all.
Print Assumptions untrace_spec.
