(* C04 - garbage is reclaimed and a finished run leaves nothing behind. Property theorems only. Part 1: the collector (proofs/GCProofs.v). Part 2: the whole machine (proofs/VMGCProofs.v): after every collection only reachable values are held, and for EVERY bytecode and EVERY instruction budget (= every abort point; the budget exit is the path a run-time error takes) the run ends with exactly the result graph allocated - nothing for an error. *)
From NL.Model Require Import VM.
From NL.Spec Require Import GCInv VMInv.
From NL.Proofs Require GCProofs VMGCProofs.
Open Scope Z_scope.

(* after a collection the collector holds exactly the managed objects reachable from the roots *)
Theorem run_collects : forall (h : heap) (g : gc) (roots : list val) (g' : gc) (h' : heap), GCInv h g -> roots_managed g roots -> roots_ok h roots -> gc_run h g roots = Ok (g', h') -> forall v : val, In v (objects g') <-> In v (objects g) /\ (exists l : positive, val_loc v = Some l /\ reach h roots l).
Proof. exact GCProofs.run_collects. Qed.

(* every unreachable managed box is released exactly once (ledger) *)
Theorem run_frees_garbage_once : forall (h : heap) (g : gc) (roots : list val) (g' : gc) (h' : heap), GCInv h g -> roots_managed g roots -> gc_run h g roots = Ok (g', h') -> (forall l : positive, managed g l -> ~ reach h roots l -> h_alive h' l = false) /\ n_freed h' = n_freed h + Z.of_nat (length (objects g)) - Z.of_nat (length (objects g')) /\ n_alloc h' = n_alloc h.
Proof. exact GCProofs.run_frees_garbage_once. Qed.

(* dropping the collector releases everything it still manages, each box once *)
Theorem destroy_frees_all : forall (h : heap) (g : gc), GCInv h g -> exists (g' : gc) (h' : heap), gc_destroy h g = Ok (g', h') /\ objects g' = [] /\ (forall l : positive, managed g l -> h_alive h' l = false) /\ (forall l : positive, ~ managed g l -> PM.find l (cells h') = PM.find l (cells h)) /\ n_freed h' = n_freed h + Z.of_nat (length (objects g)).
Proof. exact GCProofs.destroy_frees_all. Qed.

(* handing a result over removes exactly the managed objects reachable from it and frees nothing *)
Theorem untrace_spec : forall (h : heap) (g : gc) (o : val), GCInv h g -> roots_managed g [o] -> roots_ok h [o] -> exists g' : gc, untrace h g o = Ok g' /\ NoDup (map val_loc (objects g')) /\ (forall v : val, In v (objects g') <-> In v (objects g) /\ (forall l : positive, val_loc v = Some l -> ~ reach h [o] l)).
Proof. exact GCProofs.untrace_spec. Qed.

(* MACHINE level: after the collection at Return/ReturnValue, managed = alive = reachable from what the machine keeps, and the ledger counts exactly the boxes released *)
Theorem vm_collect_exact : forall (orc : oracle) (prog : program) (s s' : vm), VMInv prog s -> at_return prog s -> step orc prog s = Ok (Continue s') -> (forall l : positive, managed (v_gc s') l <-> reach (v_heap s) (vm_vals prog s') l) /\ (forall l : positive, h_alive (v_heap s') l = true <-> reach (v_heap s) (vm_vals prog s') l) /\ (forall l : positive, reach (v_heap s') (vm_vals prog s') l <-> reach (v_heap s) (vm_vals prog s') l) /\ n_alloc (v_heap s') = n_alloc (v_heap s) /\ n_freed (v_heap s') = n_freed (v_heap s) + Z.of_nat (length (objects (v_gc s))) - Z.of_nat (length (objects (v_gc s'))).
Proof. exact VMGCProofs.vm_collect_exact. Qed.

(* THE property: for every bytecode and every budget the run ends with the ledger balanced: an error / abort at ANY point leaves nothing allocated; a normal end leaves exactly the result graph, alive and intact *)
Theorem ledger_balanced : forall (orc : oracle) (bc : bytecode) (n : nat) (r : outcome val) (out : text) (steps : nat) (oh : outcome heap), run_program orc bc n = {| o_result := r; o_out := out; o_steps := steps; o_heap := oh |} -> exists h : heap, oh = Ok h /\ h_live_count h = Z.of_nat (alive_count h) /\ match r with | Ok v => val_ok h v = true /\ (forall l : positive, h_alive h l = true <-> reach h [v] l) /\ (forall (la : positive) (a : bool) (vs : list val) (x : val), reach h [v] la -> PM.find la (cells h) = Some (a, OArr vs) -> In x vs -> val_ok h x = true) | _ => (forall l : positive, h_alive h l = false) /\ n_alloc h = n_freed h end.
Proof. exact VMGCProofs.ledger_balanced. Qed.

(* the returned result stays valid after the interpreter (its collector) is gone *)
Theorem result_survives_drop : forall (orc : oracle) (prog : program) (n : nat) (s : vm) (v : val) (s' : vm) (k : nat), VMInv prog s -> run_loop orc prog n s = (Ok v, s', k) -> exists (g' : gc) (h : heap), gc_destroy (v_heap s') (v_gc s') = Ok (g', h) /\ (forall l : positive, reach (v_heap s') [v] l -> PM.find l (cells h) = PM.find l (cells (v_heap s')) /\ h_alive h l = true) /\ (forall l : positive, reach h [v] l <-> reach (v_heap s') [v] l).
Proof. exact VMGCProofs.result_survives_drop. Qed.

(* an instruction allocates at most one box *)
Theorem vm_step_alloc : forall (orc : oracle) (prog : program) (s s' : vm), VMInv prog s -> step orc prog s = Ok (Continue s') -> n_alloc (v_heap s) <= n_alloc (v_heap s') <= n_alloc (v_heap s) + 1.
Proof. exact VMGCProofs.vm_step_alloc. Qed.


Print Assumptions run_collects.
Print Assumptions run_frees_garbage_once.
Print Assumptions destroy_frees_all.
Print Assumptions untrace_spec.
Print Assumptions vm_collect_exact.
Print Assumptions ledger_balanced.
Print Assumptions result_survives_drop.
Print Assumptions vm_step_alloc.
