(* C17 - a retained session behaves like one growing program. Property theorems only (model/Session.v, spec/SemSession.v, proofs/SessionProofs.v, SymbolsProofs.v): what a failed line leaves behind. The refinement `session = one growing program` itself is decided by complete enumeration of short sessions against SemSession.v (see the check), outside the recorded finding class heap_or_function_across_lines. *)
From NL.Model Require Import Session.
From NL.Spec Require Import ScopeSpec.
From NL.Proofs Require SymbolsProofs SessionProofs.
Open Scope Z_scope.

(* a compile that fails at ANY statement position leaves no half-finished code, no entered loop, no new constant index, and the symbol table rolled back *)
Theorem failed_compile_harmless : forall (ast : block) (st st' : cstate) (k : errkind), compile_ast ast st = (st', Err k) -> c_code st' = [] /\ c_last st' = None /\ c_loops st' = [] /\ c_constants st' = c_constants st /\ c_symbols st' = rollback (c_symbols st) (checkpoint (c_symbols st)).
Proof. exact SessionProofs.failed_compile_harmless. Qed.

(* ... at top level the rollback restores exactly the table before the line: none of the failed line's declarations survives *)
Theorem failed_compile_restores_names : forall (ast : block) (st st' : cstate) (k : errkind), top_level (c_symbols st) -> compile_ast ast st = (st', Err k) -> c_symbols st' = c_symbols st.
Proof. exact SessionProofs.failed_compile_restores_names. Qed.

(* ... for every way the failed line may have left blocks and functions open, every name resolves as before the line *)
Theorem rollback_after_open_body : forall (t : symtab) (ops : list sop), top_level t -> wf_tab t -> open_body ops -> forall x : text, resolve (rollback (run_ops t ops) (checkpoint t)) x = resolve t x.
Proof. exact SymbolsProofs.rollback_after_open_body. Qed.

(* a line that fails to parse changes nothing *)
Theorem failed_parse_harmless : forall (u : unicode) (orc : oracle) (budget : nat) (s : session) (src : text) (k : errkind), parse u (parse_float orc) src = Err k -> fst (run_line u orc budget s src) = s.
Proof. exact SessionProofs.failed_parse_harmless. Qed.

(* a line that fails to compile leaves machine and pool untouched *)
Theorem failed_compile_line_harmless : forall (u : unicode) (orc : oracle) (budget : nat) (s : session) (src : text) (ast : block) (st' : cstate) (k : errkind), parse u (parse_float orc) src = Ok ast -> compile_ast ast (ss_compiler s) = (st', Err k) -> let s' := fst (run_line u orc budget s src) in ss_vm s' = ss_vm s /\ ss_pool s' = ss_pool s /\ ss_compiler s' = st' /\ lo_result (snd (run_line u orc budget s src)) = Err k.
Proof. exact SessionProofs.failed_compile_line_harmless. Qed.

(* whatever a failed or aborted run left on the operand stack and in the frames, the next run starts clean and keeps only the globals *)
Theorem run_starts_clean : forall (s : vm) (consts : list val) (h : heap), let s0 := vm_start s consts h in v_stack s0 = [] /\ v_slen s0 = 0 /\ v_frames s0 = [{| f_ip := 0; f_bp := 0 |}] /\ v_ip s0 = 0 /\ v_bp s0 = 0 /\ v_final s0 = VNull /\ v_globals s0 = v_globals s.
Proof. exact SessionProofs.run_starts_clean. Qed.

(* a successful compile hands its code over *)
Theorem successful_compile_clean : forall (ast : block) (st st' : cstate) (bc : bytecode), compile_ast ast st = (st', Ok bc) -> c_code st' = [].
Proof. exact SessionProofs.successful_compile_clean. Qed.


Print Assumptions failed_compile_harmless.
Print Assumptions failed_compile_restores_names.
Print Assumptions rollback_after_open_body.
Print Assumptions failed_parse_harmless.
Print Assumptions failed_compile_line_harmless.
Print Assumptions run_starts_clean.
Print Assumptions successful_compile_clean.
