(* C17 - a retained session behaves like one growing program. Property theorems only (model/Session.v, spec/SemSession.v; proofs/SessionRefine.v ... SessionRefineG.v, SessionProofs.v). The refinement is proved for sessions whose lines are in fragment F2 (scalar top-level code with nested block scopes, als / anders als / anders as statement and value, zolang with stop / volgende; any number of statements per line), failing lines of every kind included (session_refines_program_F2; F1 = the same without blocks and control flow, kept as session_refines_program_F1). Excluded, each shown NECESSARY by a machine-checked counterexample: heap values and functions across lines (recorded finding D24ab), declarations standing after the point where a line failed at run time (D29, hypothesis decls_done), a line failing inside the initialiser of a top-level stel (D30, hypothesis init_done: the declared name may sit on a dead block-local's slot and read its stale value). Outside F2 the refinement is decided by complete enumeration of short sessions against SemSession.v. *)
From NL.Model Require Import Session.
From NL.Spec Require Import ScopeSpec Sem SemSession Fragment Fragment2.
From NL.Proofs Require SymbolsProofs SessionProofs SessionRefine SessionRefineB SessionRefineE SessionRefineF SessionRefineG.
Open Scope Z_scope.

(* THE property on fragment F2 (blocks, if-chains, loops): line by line, what the retained compiler + machine produce is what the session MEANS under the definitional semantics with one carried environment *)
Theorem session_refines_program_F2 : forall (u : unicode) (orc : oracle) (fuel : nat) (srcs : list text) (asts : list block), Forall2 (fun (src : text) (a : block) => parse u (parse_float orc) src = Ok a) srcs asts -> SessionRefineE.session_hyps2 orc fuel compiler_new sem_session_new asts -> exists N : nat, forall budget : nat, (N <= budget)%nat -> SessionRefineE.lines_corr2 asts (run_session u orc budget session_new srcs) (SessionRefineB.sem_session_run orc fuel sem_session_new asts).
Proof. exact SessionRefineE.session_refines_program_F2. Qed.

(* one F2 line from any related pair of states: accepted and run, rejected, or failing at run time after some assignments; the relation SRel2 is re-established *)
Theorem line_refines_F2 : forall (u : unicode) (orc : oracle) (fuel : nat) (s : session) (sem : sem_session) (src : text) (ast : block), SessionRefineE.SRel2 s sem -> parse u (parse_float orc) src = Ok ast -> in_F2 ast = true -> (CompilerNames.bsize ast <= fuel)%nat -> snd (sem_line' orc fuel sem ast) <> LFuel -> snd (compile_ast ast (ss_compiler s)) <> Err ESyntaxError -> SessionRefine.decls_done orc fuel sem ast -> SessionRefineD.init_done orc fuel sem ast -> exists (n : nat) (s' : session) (o : line_obs), (forall budget : nat, (n <= budget)%nat -> run_line u orc budget s src = (s', o)) /\ SessionRefineE.SRel2 s' (fst (sem_line' orc fuel sem ast)) /\ SessionRefineE.obs_corr2 ast o (snd (sem_line' orc fuel sem ast)) /\ ss_compiler s' = fst (compile_ast ast (ss_compiler s)).
Proof. exact SessionRefineE.line_refines_F2. Qed.

(* a session of F2 lines that all succeed gives the last line the value it has as the last line of the single program made of all lines *)
Theorem session_equals_single_program_F2 : forall (u : unicode) (orc : oracle) (fuel : nat) (srcs : list text) (asts : list block), Forall2 (fun (src : text) (a : block) => parse u (parse_float orc) src = Ok a) srcs asts -> SessionRefineE.session_hyps2 orc fuel compiler_new sem_session_new asts -> (forall r : line_result, In r (SessionRefineB.sem_session_run orc fuel sem_session_new asts) -> exists (v : val) (h : heap) (out : text), r = LValue v h out) -> asts <> [] -> ends_expr (last asts []) = true -> last asts [] <> [] -> exists (v : val) (h : heap) (N F : nat), forall budget fuel' : nat, (N <= budget)%nat -> (F <= fuel')%nat -> sem_program orc fuel' (concat asts) = SemValue v h [] /\ (let o := last (run_session u orc budget session_new srcs) (front_obs session_new OutOfFuel) in lo_result o = Ok v /\ lo_out o = []).
Proof. exact SessionRefineG.session_equals_single_program_F2. Qed.

(* a rejected F2 line changes neither the machine, the pool, the symbols nor the meaning *)
Theorem rejected_line_keeps_both_states_F2 : forall (u : unicode) (orc : oracle) (fuel budget : nat) (s : session) (sem : sem_session) (src : text) (ast : block) (st' : cstate) (e : errkind), SessionRefineE.SRel2 s sem -> parse u (parse_float orc) src = Ok ast -> in_F2 ast = true -> (CompilerNames.bsize ast <= fuel)%nat -> compile_ast ast (ss_compiler s) = (st', Err e) -> e <> ESyntaxError -> let s' := fst (run_line u orc budget s src) in ss_vm s' = ss_vm s /\ ss_pool s' = ss_pool s /\ c_symbols (ss_compiler s') = c_symbols (ss_compiler s) /\ c_constants (ss_compiler s') = c_constants (ss_compiler s) /\ c_code (ss_compiler s') = [] /\ c_loops (ss_compiler s') = [] /\ sem_line' orc fuel sem ast = (sem, LRejected e).
Proof. exact SessionRefineE.rejected_line_keeps_both_states_F2. Qed.

(* the definitional semantics of the WHOLE language is monotone in its fuel: more fuel never changes a result that was not out-of-fuel *)
Theorem sem_fuel_mono : forall (orc : oracle) (n : nat), (forall (n' : nat) (c : dctx) (e : expr) (st : sstate), (n <= n')%nat -> eval_expr orc n c e st <> RFuel -> eval_expr orc n' c e st = eval_expr orc n c e st) /\ (forall (n' iter iter' : nat) (c : dctx) (cnd : expr) (body : list stmt) (last : val) (st : sstate), (n <= n')%nat -> eval_while orc n iter c cnd body last st <> RFuel -> eval_while orc n' iter' c cnd body last st = eval_while orc n iter c cnd body last st) /\ (forall (n' : nat) (c : dctx) (b : list stmt) (last : val) (st : sstate), (n <= n')%nat -> exec_block orc n c b last st <> RFuel -> exec_block orc n' c b last st = exec_block orc n c b last st).
Proof. exact SessionRefineF.sem_fuel_mono. Qed.

(* THE property on fragment F1: line by line, what the retained compiler + machine produce is what the session MEANS under the definitional semantics with one carried environment - values, error kinds, no output - with one budget for all lines *)
Theorem session_refines_program_F1 : forall (u : unicode) (orc : oracle) (fuel : nat) (srcs : list text) (asts : list block), Forall2 (fun (src : text) (a : block) => parse u (parse_float orc) src = Ok a) srcs asts -> SessionRefineB.session_hyps orc fuel compiler_new sem_session_new asts -> exists N : nat, forall budget : nat, (N <= budget)%nat -> SessionRefineB.lines_corr asts (run_session u orc budget session_new srcs) (SessionRefineB.sem_session_run orc fuel sem_session_new asts).
Proof. exact SessionRefineB.session_refines_program_F1. Qed.

(* one line: accepted and run, rejected by the front end (both sides keep their state), or failing at run time after some assignments (exactly the completed effects persist on both sides); the simulation relation is re-established *)
Theorem line_refines : forall (u : unicode) (orc : oracle) (fuel : nat) (s : session) (sem : sem_session) (src : text) (ast : block), SessionRefine.SRel s sem -> parse u (parse_float orc) src = Ok ast -> in_F1 ast = true -> (size_block ast <= fuel)%nat -> snd (sem_line' orc fuel sem ast) <> LFuel -> snd (compile_ast ast (ss_compiler s)) <> Err ESyntaxError -> SessionRefine.decls_done orc fuel sem ast -> exists (n : nat) (s' : session) (o : line_obs), (forall budget : nat, (n <= budget)%nat -> run_line u orc budget s src = (s', o)) /\ SessionRefine.SRel s' (fst (sem_line' orc fuel sem ast)) /\ SessionRefine.obs_corr ast o (snd (sem_line' orc fuel sem ast)) /\ ss_compiler s' = fst (compile_ast ast (ss_compiler s)).
Proof. exact SessionRefine.line_refines. Qed.

(* a session of lines that all succeed gives the last line the value it has as the last line of the single program made of all lines *)
Theorem session_equals_single_program : forall (u : unicode) (orc : oracle) (fuel : nat) (srcs : list text) (asts : list block), Forall2 (fun (src : text) (a : block) => parse u (parse_float orc) src = Ok a) srcs asts -> SessionRefineB.session_hyps orc fuel compiler_new sem_session_new asts -> (forall r : line_result, In r (SessionRefineB.sem_session_run orc fuel sem_session_new asts) -> exists (v : val) (h : heap) (out : text), r = LValue v h out) -> asts <> [] -> ends_expr (last asts []) = true -> last asts [] <> [] -> exists (v : val) (h : heap) (N F : nat), forall budget fuel' : nat, (N <= budget)%nat -> (F <= fuel')%nat -> sem_program orc fuel' (concat asts) = SemValue v h [] /\ (let o := last (run_session u orc budget session_new srcs) (front_obs session_new OutOfFuel) in lo_result o = Ok v /\ lo_out o = []).
Proof. exact SessionRefineB.session_equals_single_program. Qed.

(* lines that do not parse can be deleted from a session without changing any other observation *)
Theorem unparsable_lines_ignored : forall (u : unicode) (orc : oracle) (budget : nat) (srcs : list text) (s : session), map snd (filter (fun p : text * line_obs => SessionRefineB.parses u orc (fst p)) (combine srcs (run_session u orc budget s srcs))) = run_session u orc budget s (filter (SessionRefineB.parses u orc) srcs).
Proof. exact SessionRefineB.unparsable_lines_ignored. Qed.

(* a line rejected at compile time changes neither the machine, the pool, the symbols nor the meaning *)
Theorem rejected_line_keeps_both_states : forall (u : unicode) (orc : oracle) (fuel budget : nat) (s : session) (sem : sem_session) (src : text) (ast : block) (st' : cstate), SessionRefine.SRel s sem -> parse u (parse_float orc) src = Ok ast -> in_F1 ast = true -> (size_block ast <= fuel)%nat -> compile_ast ast (ss_compiler s) = (st', Err EReferenceError) -> let s' := fst (run_line u orc budget s src) in ss_vm s' = ss_vm s /\ ss_pool s' = ss_pool s /\ c_symbols (ss_compiler s') = c_symbols (ss_compiler s) /\ c_constants (ss_compiler s') = c_constants (ss_compiler s) /\ c_code (ss_compiler s') = [] /\ c_loops (ss_compiler s') = [] /\ sem_line' orc fuel sem ast = (sem, LRejected EReferenceError).
Proof. exact SessionRefine.rejected_line_keeps_both_states. Qed.

(* under the relation, a name resolves in the compiler iff it is bound in the session's environment, and its slot holds the cell's value *)
Theorem SRel_sees : forall (s : session) (sem : sem_session) (x : text), SessionRefine.SRel s sem -> match resolve (c_symbols (ss_compiler s)) x with | Some sy => s_scope sy = SGlobal /\ (exists cell : positive, d_lookup (sm_dyn sem) x = Some cell /\ get_cell cell (sm_state sem) = nth (s_index sy) (v_globals (ss_vm s)) VNull) | None => d_lookup (sm_dyn sem) x = None end.
Proof. exact SessionRefineB.SRel_sees. Qed.

(* a compile that fails at ANY statement position leaves no half-finished code, no entered loop, no new constant index, and the symbol table rolled back *)
Theorem failed_compile_harmless : forall (ast : block) (st st' : cstate) (k : errkind), compile_ast ast st = (st', Err k) -> c_code st' = [] /\ c_last st' = None /\ c_loops st' = [] /\ c_constants st' = c_constants st /\ c_symbols st' = rollback (c_symbols st) (checkpoint (c_symbols st)).
Proof. exact SessionProofs.failed_compile_harmless. Qed.

(* ... at top level the rollback restores exactly the table before the line: none of the failed line's declarations survives *)
Theorem failed_compile_restores_names : forall (ast : block) (st st' : cstate) (k : errkind), top_level (c_symbols st) -> compile_ast ast st = (st', Err k) -> c_symbols st' = c_symbols st.
Proof. exact SessionProofs.failed_compile_restores_names. Qed.

(* ... for every way the failed line may have left blocks and functions open, every name resolves as before the line *)
Theorem rollback_after_open_body : forall (t : symtab) (ops : list sop), top_level t -> wf_tab t -> open_body ops -> forall x : text, resolve (rollback (run_ops t ops) (checkpoint t)) x = resolve t x.
Proof. exact SymbolsProofs.rollback_after_open_body. Qed.

(* a line that fails to parse changes nothing *)
Theorem failed_parse_harmless : forall (u : unicode) (orc : oracle) (budget : nat) (s : session) (src : text) (k : errkind), parse u (parse_float orc) src = Err k -> fst (run_line u orc budget s src) = s.
Proof. exact SessionProofs.failed_parse_harmless. Qed.

(* a line that fails to compile leaves machine and pool untouched *)
Theorem failed_compile_line_harmless : forall (u : unicode) (orc : oracle) (budget : nat) (s : session) (src : text) (ast : block) (st' : cstate) (k : errkind), parse u (parse_float orc) src = Ok ast -> compile_ast ast (ss_compiler s) = (st', Err k) -> let s' := fst (run_line u orc budget s src) in ss_vm s' = ss_vm s /\ ss_pool s' = ss_pool s /\ ss_compiler s' = st' /\ lo_result (snd (run_line u orc budget s src)) = Err k.
Proof. exact SessionProofs.failed_compile_line_harmless. Qed.

(* whatever a failed or aborted run left on the operand stack and in the frames, the next run starts clean and keeps only the globals *)
Theorem run_starts_clean : forall (s : vm) (consts : list val) (h : heap), let s0 := vm_start s consts h in v_stack s0 = [] /\ v_slen s0 = 0 /\ v_frames s0 = [{| f_ip := 0; f_bp := 0 |}] /\ v_ip s0 = 0 /\ v_bp s0 = 0 /\ v_final s0 = VNull /\ v_globals s0 = v_globals s.
Proof. exact SessionProofs.run_starts_clean. Qed.

(* a successful compile hands its code over *)
Theorem successful_compile_clean : forall (ast : block) (st st' : cstate) (bc : bytecode), compile_ast ast st = (st', Ok bc) -> c_code st' = [].
Proof. exact SessionProofs.successful_compile_clean. Qed.


Print Assumptions session_refines_program_F2.
Print Assumptions line_refines_F2.
Print Assumptions session_equals_single_program_F2.
Print Assumptions rejected_line_keeps_both_states_F2.
Print Assumptions sem_fuel_mono.
Print Assumptions session_refines_program_F1.
Print Assumptions line_refines.
Print Assumptions session_equals_single_program.
Print Assumptions unparsable_lines_ignored.
Print Assumptions rejected_line_keeps_both_states.
Print Assumptions SRel_sees.
Print Assumptions failed_compile_harmless.
Print Assumptions failed_compile_restores_names.
Print Assumptions rollback_after_open_body.
Print Assumptions failed_parse_harmless.
Print Assumptions failed_compile_line_harmless.
Print Assumptions run_starts_clean.
Print Assumptions successful_compile_clean.
