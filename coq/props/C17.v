(* C17 - a retained session behaves like one growing program. Property theorems only (model/Session.v, spec/SemSession.v; proofs/SessionRefine.v, SessionRefineB.v, SessionProofs.v). The refinement is proved for sessions whose lines are in fragment F1 (scalar top-level code, any number of statements per line), failing lines of every kind included; heap values and functions across lines are the recorded finding D24ab, declarations standing after the point where a line failed at run time the recorded finding D29 (its exclusion `decls_done` is shown necessary by a counterexample). Outside F1 the refinement is decided by complete enumeration of short sessions against SemSession.v. *)
From NL.Model Require Import Session.
From NL.Spec Require Import ScopeSpec Sem SemSession Fragment.
From NL.Proofs Require SymbolsProofs SessionProofs SessionRefine SessionRefineB.
Open Scope Z_scope.

(* THE property on fragment F1: line by line, what the retained compiler + machine produce is what the session MEANS under the definitional semantics with one carried environment - values, error kinds, no output - with one budget for all lines *)
Theorem session_refines_program_F1 : forall (u : unicode) (orc : oracle) (fuel : nat) (srcs : list text) (asts : list block), Forall2 (fun (src : text) (a : block) => parse u (parse_float orc) src = Ok a) srcs asts -> SessionRefineB.session_hyps orc fuel compiler_new sem_session_new asts -> exists N : nat, forall budget : nat, (N <= budget)%nat -> SessionRefineB.lines_corr asts (run_session u orc budget session_new srcs) (SessionRefineB.sem_session_run orc fuel sem_session_new asts).
Proof. exact SessionRefineB.session_refines_program_F1. Qed.

(* one line: accepted and run, rejected by the front end (both sides keep their state), or failing at run time after some assignments (exactly the completed effects persist on both sides); the simulation relation is re-established *)
Theorem line_refines : forall (u : unicode) (orc : oracle) (fuel : nat) (s : session) (sem : sem_session) (src : text) (ast : block), SessionRefine.SRel s sem -> parse u (parse_float orc) src = Ok ast -> in_F1 ast = true -> (size_block ast <= fuel)%nat -> snd (sem_line' orc fuel sem ast) <> LFuel -> snd (compile_ast ast (ss_compiler s)) <> Err ESyntaxError -> SessionRefine.decls_done orc fuel sem ast -> exists (n : nat) (s' : session) (o : line_obs), (forall budget : nat, (n <= budget)%nat -> run_line u orc budget s src = (s', o)) /\ SessionRefine.SRel s' (fst (sem_line' orc fuel sem ast)) /\ SessionRefine.obs_corr ast o (snd (sem_line' orc fuel sem ast)) /\ ss_compiler s' = fst (compile_ast ast (ss_compiler s)).
Proof. exact SessionRefine.line_refines. Qed.

(* a session of lines that all succeed gives the last line the value it has as the last line of the single program made of all lines *)
Theorem session_equals_single_program : forall (u : unicode) (orc : oracle) (fuel : nat) (srcs : list text) (asts : list block), Forall2 (fun (src : text) (a : block) => parse u (parse_float orc) src = Ok a) srcs asts -> SessionRefineB.session_hyps orc fuel compiler_new sem_session_new asts -> (forall r : line_result, In r (SessionRefineB.sem_session_run orc fuel sem_session_new asts) -> exists (v : val) (h : heap) (out : text), r = LValue v h out) -> asts <> [] -> ends_expr (last asts []) = true -> last asts [] <> [] -> exists (v : val) (h : heap) (N F : nat), forall budget fuel' : nat, (N <= budget)%nat -> (F <= fuel')%nat -> sem_program orc fuel' (concat asts) = SemValue v h [] /\ (let o := last (run_session u orc budget session_new srcs) (front_obs session_new OutOfFuel) in lo_result o = Ok v /\ lo_out o = []).
Proof. exact SessionRefineB.session_equals_single_program. Qed.

(* lines that do not parse can be deleted from a session without changing any other observation *)
Theorem unparsable_lines_ignored : forall (u : unicode) (orc : oracle) (budget : nat) (srcs : list text) (s : session), map snd (filter (fun p : text * line_obs => SessionRefineB.parses u orc (fst p)) (combine srcs (run_session u orc budget s srcs))) = run_session u orc budget s (filter (SessionRefineB.parses u orc) srcs).
Proof. exact SessionRefineB.unparsable_lines_ignored. Qed.

(* a line rejected at compile time changes neither the machine, the pool, the symbols nor the meaning *)
Theorem rejected_line_keeps_both_states : forall (u : unicode) (orc : oracle) (fuel budget : nat) (s : session) (sem : sem_session) (src : text) (ast : block) (st' : cstate), SessionRefine.SRel s sem -> parse u (parse_float orc) src = Ok ast -> in_F1 ast = true -> (size_block ast <= fuel)%nat -> compile_ast ast (ss_compiler s) = (st', Err EReferenceError) -> let s' := fst (run_line u orc budget s src) in ss_vm s' = ss_vm s /\ ss_pool s' = ss_pool s /\ c_symbols (ss_compiler s') = c_symbols (ss_compiler s) /\ c_constants (ss_compiler s') = c_constants (ss_compiler s) /\ c_code (ss_compiler s') = [] /\ c_loops (ss_compiler s') = [] /\ sem_line' orc fuel sem ast = (sem, LRejected EReferenceError).
Proof. exact SessionRefine.rejected_line_keeps_both_states. Qed.

(* under the relation, a name resolves in the compiler iff it is bound in the session's environment, and its slot holds the cell's value *)
Theorem SRel_sees : forall (s : session) (sem : sem_session) (x : text), SessionRefine.SRel s sem -> match resolve (c_symbols (ss_compiler s)) x with | Some sy => s_scope sy = SGlobal /\ (exists cell : positive, d_lookup (sm_dyn sem) x = Some cell /\ get_cell cell (sm_state sem) = nth (s_index sy) (v_globals (ss_vm s)) VNull) | None => d_lookup (sm_dyn sem) x = None end.
Proof. exact SessionRefineB.SRel_sees. Qed.

(* a compile that fails at ANY statement position leaves no half-finished code, no entered loop, no new constant index, and the symbol table rolled back *)
Theorem failed_compile_harmless : forall (ast : block) (st st' : cstate) (k : errkind), compile_ast ast st = (st', Err k) -> c_code st' = [] /\ c_last st' = None /\ c_loops st' = [] /\ c_constants st' = c_constants st /\ c_symbols st' = rollback (c_symbols st) (checkpoint (c_symbols st)).
Proof. exact SessionProofs.failed_compile_harmless. Qed.

(* ... at top level the rollback restores exactly the table before the line: none of the failed line's declarations survives *)
Theorem failed_compile_restores_names : forall (ast : block) (st st' : cstate) (k : errkind), top_level (c_symbols st) -> compile_ast ast st = (st', Err k) -> c_symbols st' = c_symbols st.
Proof. exact SessionProofs.failed_compile_restores_names. Qed.

(* ... for every way the failed line may have left blocks and functions open, every name resolves as before the line *)
Theorem rollback_after_open_body : forall (t : symtab) (ops : list sop), top_level t -> wf_tab t -> open_body ops -> forall x : text, resolve (rollback (run_ops t ops) (checkpoint t)) x = resolve t x.
Proof. exact SymbolsProofs.rollback_after_open_body. Qed.

(* a line that fails to parse changes nothing *)
Theorem failed_parse_harmless : forall (u : unicode) (orc : oracle) (budget : nat) (s : session) (src : text) (k : errkind), parse u (parse_float orc) src = Err k -> fst (run_line u orc budget s src) = s.
Proof. exact SessionProofs.failed_parse_harmless. Qed.

(* a line that fails to compile leaves machine and pool untouched *)
Theorem failed_compile_line_harmless : forall (u : unicode) (orc : oracle) (budget : nat) (s : session) (src : text) (ast : block) (st' : cstate) (k : errkind), parse u (parse_float orc) src = Ok ast -> compile_ast ast (ss_compiler s) = (st', Err k) -> let s' := fst (run_line u orc budget s src) in ss_vm s' = ss_vm s /\ ss_pool s' = ss_pool s /\ ss_compiler s' = st' /\ lo_result (snd (run_line u orc budget s src)) = Err k.
Proof. exact SessionProofs.failed_compile_line_harmless. Qed.

(* whatever a failed or aborted run left on the operand stack and in the frames, the next run starts clean and keeps only the globals *)
Theorem run_starts_clean : forall (s : vm) (consts : list val) (h : heap), let s0 := vm_start s consts h in v_stack s0 = [] /\ v_slen s0 = 0 /\ v_frames s0 = [{| f_ip := 0; f_bp := 0 |}] /\ v_ip s0 = 0 /\ v_bp s0 = 0 /\ v_final s0 = VNull /\ v_globals s0 = v_globals s.
Proof. exact SessionProofs.run_starts_clean. Qed.

(* a successful compile hands its code over *)
Theorem successful_compile_clean : forall (ast : block) (st st' : cstate) (bc : bytecode), compile_ast ast st = (st', Ok bc) -> c_code st' = [].
Proof. exact SessionProofs.successful_compile_clean. Qed.


Print Assumptions session_refines_program_F1.
Print Assumptions line_refines.
Print Assumptions session_equals_single_program.
Print Assumptions unparsable_lines_ignored.
Print Assumptions rejected_line_keeps_both_states.
Print Assumptions SRel_sees.
Print Assumptions failed_compile_harmless.
Print Assumptions failed_compile_restores_names.
Print Assumptions rollback_after_open_body.
Print Assumptions failed_parse_harmless.
Print Assumptions failed_compile_line_harmless.
Print Assumptions run_starts_clean.
Print Assumptions successful_compile_clean.
