(* C02 - execution never leaves the interpreter's own memory (no underflow, no wild jump). Property theorems only (checker in spec/Verify.v, proofs in proofs/VerifyProofs.v). A certificate maps instruction boundaries to (mode, lower bound on the operand-stack height above the frame base); `check` validates it; soundness is about ALL execution paths of the bytecode, all machine states satisfying the invariant, all budgets. *)
From NL.Model Require Import VM.
From NL.Spec Require Import Verify.
From NL.Proofs Require VerifyProofs.
Import VerifyProofs.
Open Scope Z_scope.

(* one step from any state satisfying the invariant never performs an out-of-contract access (pop on empty stack, fetch or operand outside the code, invalid opcode / builtin byte, local slot or constant index out of range, missing frame, call underflow) and re-establishes the invariant *)
Theorem verify_sound : forall (orc : oracle) (p : program) (c : cert), check p c = true -> forall s : vm, VerifyProofs.Inv p c s -> match step orc p s with | Ok (Continue s') => VerifyProofs.Inv p c s' | Fault f => c02_fault f = false | _ => True end.
Proof. exact VerifyProofs.verify_sound. Qed.

(* hence no run of any length does *)
Theorem run_never_leaves_memory : forall (orc : oracle) (p : program) (c : cert), check p c = true -> forall (n : nat) (s0 : vm), VerifyProofs.Inv p c s0 -> forall (r : outcome val) (s : vm) (k : nat), run_loop orc p n s0 = (r, s, k) -> forall f : fault, r = Fault f -> c02_fault f = false.
Proof. exact VerifyProofs.run_never_leaves_memory. Qed.

(* the invariant holds in the initial state of a run (any retained globals whose function values are certified) *)
Theorem inv_initial : forall (p : program) (c : cert) (gl : list val) (h : heap) (g : gc) (out : text), check p c = true -> VerifyProofs.vals_ok c gl -> VerifyProofs.heap_ok c h -> VerifyProofs.Inv p c {| v_stack := []; v_slen := 0; v_globals := gl; v_frames := [{| f_ip := 0; f_bp := 0 |}]; v_ip := 0; v_bp := 0; v_final := VNull; v_heap := h; v_gc := g; v_out := out |}.
Proof. exact VerifyProofs.inv_initial. Qed.

(* in particular for the fresh machine of eval *)
Theorem inv_fresh_start : forall (p : program) (c : cert) (consts : list val) (h : heap), check p c = true -> VerifyProofs.heap_ok c h -> VerifyProofs.Inv p c (vm_start vm_new consts h).
Proof. exact VerifyProofs.inv_fresh_start. Qed.

(* end to end for the pipeline: bytecode accepted by `verify` never faults in run_program, whatever the budget *)
Theorem verified_program_never_leaves_memory : forall (orc : oracle) (bc : bytecode) (budget : nat) (f : fault), verify {| p_code := b_code bc; p_consts := fst (load_consts (b_constants bc) empty_heap) |} = true -> o_result (run_program orc bc budget) = Fault f -> c02_fault f = false.
Proof. exact VerifyProofs.verified_program_never_leaves_memory. Qed.

(* soundness depends on `check` only; `infer` is an untrusted proposer *)
Theorem verify_check : forall p : program, verify p = true -> exists c : cert, check p c = true.
Proof. exact VerifyProofs.verify_check. Qed.

(* the executable checker reads the code through a map that agrees with the list view used in the proofs *)
Theorem fetch_map_correct : forall (p : program) (pc : Z), fetch_map (code_map (p_code p)) pc = byte_at p pc.
Proof. exact VerifyProofs.fetch_map_correct. Qed.

Example nonvacuous : VerifyProofs.ex_program <> None.
Proof. destruct VerifyProofs.ex_inv as [p [c [H _]]]. rewrite H. discriminate. Qed.
Print Assumptions verify_sound.
Print Assumptions run_never_leaves_memory.
Print Assumptions inv_initial.
Print Assumptions inv_fresh_start.
Print Assumptions verified_program_never_leaves_memory.
Print Assumptions verify_check.
Print Assumptions fetch_map_correct.
