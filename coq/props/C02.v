(* C02 - execution never leaves the interpreter's own memory (no underflow, no wild jump). Property theorems only (checker in spec/Verify.v; proofs in proofs/VerifyProofs.v, Certify*.v). (1) verify_sound: a bytecode verifier (certificate = mode + lower bound on the operand-stack height above the frame base at every instruction boundary) is sound against VM.v for ALL bytecode, certificates, states and run lengths. (2) compile_certifies: the compiler ALWAYS emits code that the verifier accepts, for every tree in the parser's image. (3) Hence for EVERY source text the front end accepts, running it never performs an out-of-contract access, on any path, for any budget. *)
From NL.Model Require Import VM Pipeline.
From NL.Spec Require Import Verify Printer.
From NL.Proofs Require VerifyProofs CertifyProofsC CertifyBoundaries CertifyFinal.
Import VerifyProofs.
Open Scope Z_scope.

(* THE property: for every source text the front end accepts, no run of it (any budget) pops an empty stack, fetches or reads operands outside the code, decodes an invalid opcode / builtin byte, touches a local slot or constant out of range, returns without a frame or underflows at a call *)
Theorem accepted_program_never_leaves_memory : forall (u : unicode) (orc : oracle) (src : text) (bc : bytecode) (budget : nat) (f : fault), front u orc src = Ok bc -> o_result (run_program orc bc budget) = Fault f -> c02_fault f = false.
Proof. exact CertifyFinal.accepted_program_never_leaves_memory. Qed.

(* ... stated on eval *)
Theorem eval_never_leaves_memory : forall (u : unicode) (orc : oracle) (src : text) (budget : nat) (extra : Z) (o : observation) (f : fault), eval u orc src budget = Ran extra o -> o_result o = Fault f -> c02_fault f = false.
Proof. exact CertifyFinal.eval_never_leaves_memory. Qed.

(* the compiler always emits verifiable code: for every tree in the parser's image that compiles there is a certificate the checker accepts *)
Theorem compile_certifies : forall (b : block) (bc : bytecode), wf_tree b = true -> compile b = Ok bc -> exists c : cert, check {| p_code := b_code bc; p_consts := fst (load_consts (b_constants bc) empty_heap) |} c = true.
Proof. exact CertifyProofsC.compile_certifies. Qed.

(* ... for every accepted source text *)
Theorem front_certifies : forall (u : unicode) (orc : oracle) (src : text) (bc : bytecode), front u orc src = Ok bc -> exists c : cert, check {| p_code := b_code bc; p_consts := fst (load_consts (b_constants bc) empty_heap) |} c = true.
Proof. exact CertifyProofsC.front_certifies. Qed.

(* every jump of compiled code lands on an instruction boundary inside the code *)
Theorem jump_targets_in_code : forall (b : block) (bc : bytecode), wf_tree b = true -> compile b = Ok bc -> forall pc bt : Z, In pc (CertifyBoundaries.boundaries (b_code bc)) -> CertifyBase.fbyte (b_code bc) pc = Some bt -> CertifyBoundaries.is_jump bt -> exists t : Z, rd16 (CertifyBase.fbyte (b_code bc)) (pc + 1) = Some t /\ In t (CertifyBoundaries.boundaries (b_code bc)) /\ 0 <= t < 2 ^ 16.
Proof. exact CertifyBoundaries.jump_targets_in_code. Qed.

(* compiled code decodes from offset 0 into whole instructions up to its last byte (control cannot run off the end mid-instruction) *)
Theorem compile_decodes : forall (b : block) (bc : bytecode), wf_tree b = true -> compile b = Ok bc -> exists C : list CertifyBase.centry, CertifyBase.contig 0 C (zlength (b_code bc)) /\ CertifyBoundaries.boundaries (b_code bc) = map CertifyBase.e_pc C /\ (forall x : CertifyBase.centry, In x C -> CertifyBase.instr_width (b_code bc) (CertifyBase.e_pc x) = Some (CertifyBase.e_w x)).
Proof. exact CertifyBoundaries.compile_decodes. Qed.

(* one step from any state satisfying the invariant never performs an out-of-contract access (pop on empty stack, fetch or operand outside the code, invalid opcode / builtin byte, local slot or constant index out of range, missing frame, call underflow) and re-establishes the invariant *)
Theorem verify_sound : forall (orc : oracle) (p : program) (c : cert), check p c = true -> forall s : vm, VerifyProofs.Inv p c s -> match step orc p s with | Ok (Continue s') => VerifyProofs.Inv p c s' | Fault f => c02_fault f = false | _ => True end.
Proof. exact VerifyProofs.verify_sound. Qed.

(* hence no run of any length does *)
Theorem run_never_leaves_memory : forall (orc : oracle) (p : program) (c : cert), check p c = true -> forall (n : nat) (s0 : vm), VerifyProofs.Inv p c s0 -> forall (r : outcome val) (s : vm) (k : nat), run_loop orc p n s0 = (r, s, k) -> forall f : fault, r = Fault f -> c02_fault f = false.
Proof. exact VerifyProofs.run_never_leaves_memory. Qed.

(* the invariant holds in the initial state of a run (any retained globals whose function values are certified) *)
Theorem inv_initial : forall (p : program) (c : cert) (gl : list val) (h : heap) (g : gc) (out : text), check p c = true -> VerifyProofs.vals_ok c gl -> VerifyProofs.heap_ok c h -> VerifyProofs.Inv p c {| v_stack := []; v_slen := 0; v_globals := gl; v_frames := [{| f_ip := 0; f_bp := 0 |}]; v_ip := 0; v_bp := 0; v_final := VNull; v_heap := h; v_gc := g; v_out := out |}.
Proof. exact VerifyProofs.inv_initial. Qed.

(* in particular for the fresh machine of eval *)
Theorem inv_fresh_start : forall (p : program) (c : cert) (consts : list val) (h : heap), check p c = true -> VerifyProofs.heap_ok c h -> VerifyProofs.Inv p c (vm_start vm_new consts h).
Proof. exact VerifyProofs.inv_fresh_start. Qed.

(* end to end for the pipeline: bytecode accepted by `verify` never faults in run_program, whatever the budget *)
Theorem verified_program_never_leaves_memory : forall (orc : oracle) (bc : bytecode) (budget : nat) (f : fault), verify {| p_code := b_code bc; p_consts := fst (load_consts (b_constants bc) empty_heap) |} = true -> o_result (run_program orc bc budget) = Fault f -> c02_fault f = false.
Proof. exact VerifyProofs.verified_program_never_leaves_memory. Qed.

(* soundness depends on `check` only; `infer` is an untrusted proposer *)
Theorem verify_check : forall p : program, verify p = true -> exists c : cert, check p c = true.
Proof. exact VerifyProofs.verify_check. Qed.

(* the executable checker reads the code through a map that agrees with the list view used in the proofs *)
Theorem fetch_map_correct : forall (p : program) (pc : Z), fetch_map (code_map (p_code p)) pc = byte_at p pc.
Proof. exact VerifyProofs.fetch_map_correct. Qed.

Example nonvacuous : VerifyProofs.ex_program <> None.
Proof. destruct VerifyProofs.ex_inv as [p [c [H _]]]. rewrite H. discriminate. Qed.
Print Assumptions accepted_program_never_leaves_memory.
Print Assumptions eval_never_leaves_memory.
Print Assumptions compile_certifies.
Print Assumptions front_certifies.
Print Assumptions jump_targets_in_code.
Print Assumptions compile_decodes.
Print Assumptions verify_sound.
Print Assumptions run_never_leaves_memory.
Print Assumptions inv_initial.
Print Assumptions inv_fresh_start.
Print Assumptions verified_program_never_leaves_memory.
Print Assumptions verify_check.
Print Assumptions fetch_map_correct.
