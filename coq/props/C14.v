(* C14 - builtins are total and behave as documented. Property theorems only (proofs in proofs/BuiltinsProofs.v, DecimalProofs.v). All statements hold for EVERY oracle (float text, fmod), heap and value. *)
From NL.Model Require Import Builtins Pipeline.
From NL.Spec Require Import GCInv Sem Fragment Fragment2 Fragment2h.
From NL.Proofs Require DecimalProofs BuiltinsProofs CompileCorrectH3 CompileCorrectH5.
From NL.Spec Require Import Sem Fragment Fragment2 Fragment2h Fragment3 Fragment4.
From NL.Proofs Require CompileCorrectJ9 CompileCorrectJ10.
Import DecimalProofs BuiltinsProofs.
Open Scope Z_scope.

(* every builtin on every argument list of well-formed values returns a value, an argument error or a type error - never a crash; running out of display depth happens only for print on arrays nested deeper than show_depth (cyclic arrays: recorded finding D26, excluded by hypothesis, not hidden) *)
Theorem builtins_total : forall (orc : oracle) (b : builtin) (h : heap) (args : list val), BuiltinsProofs.args_ok b h args -> match call_builtin orc b h args with | Ok _ | Err ETypeError | Err EArgumentError => True | OutOfFuel => b = BPrint /\ (exists v : val, In v args /\ ~ BuiltinsProofs.depth_le h show_depth v) | _ => False end.
Proof. exact BuiltinsProofs.builtins_total. Qed.

(* a wrong number of arguments to anything but print is an argument error *)
Theorem arity_error : forall (orc : oracle) (b : builtin) (h : heap) (args : list val), b <> BPrint -> length args <> 1%nat -> call_builtin orc b h args = Err EArgumentError.
Proof. exact BuiltinsProofs.arity_error. Qed.

(* converting a value to its own type is the identity (same object, heap unchanged) *)
Theorem cast_identity : forall orc : oracle, (forall (h : heap) (b : bool), call_builtin orc BBool h [VBool b] = Ok (VBool b, h, [])) /\ (forall (h : heap) (z : Z), call_builtin orc BInt h [VInt z] = Ok (VInt z, h, [])) /\ (forall (h : heap) (l : positive), call_builtin orc BFloat h [VFloat l] = Ok (VFloat l, h, [])) /\ (forall (h : heap) (l : positive), call_builtin orc BString h [VStr l] = Ok (VStr l, h, [])).
Proof. exact BuiltinsProofs.cast_identity. Qed.

(* bool: README table, one equation per argument type *)
Theorem bool_spec : forall h : heap, call_bool h [VNull] = Ok (VBool false, h) /\ (forall b : bool, call_bool h [VBool b] = Ok (VBool b, h)) /\ (forall z : Z, call_bool h [VInt z] = Ok (VBool (0 <? z), h)) /\ (forall (l : positive) (x : float), get_float h l = Ok x -> call_bool h [VFloat l] = Ok (VBool (0 <? x)%float, h)) /\ (forall (l : positive) (s : text), get_str h l = Ok s -> call_bool h [VStr l] = Ok (VBool (BuiltinsProofs.nonempty s), h)) /\ (forall (l : positive) (vs : list val), get_arr h l = Ok vs -> call_bool h [VArr l] = Ok (VBool (BuiltinsProofs.nonempty vs), h)) /\ (forall ip n : Z, call_bool h [VFun ip n] = Err EArgumentError).
Proof. exact BuiltinsProofs.bool_spec. Qed.

(* int: README table (truncation of floats, decimal text, range check -> argument error) *)
Theorem int_spec : forall h : heap, call_int h [VNull] = Ok (VInt 0, h) /\ call_int h [VBool true] = Ok (VInt 1, h) /\ call_int h [VBool false] = Ok (VInt 0, h) /\ (forall z : Z, call_int h [VInt z] = Ok (VInt z, h)) /\ (forall (l : positive) (x : float), get_float h l = Ok x -> call_int h [VFloat l] = (if in_int_range (trunc_float x) then Ok (VInt (trunc_float x), h) else Err EArgumentError)) /\ (forall (l : positive) (s : text), get_str h l = Ok s -> call_int h [VStr l] = match parse_isize (trim s) with | Some z => if in_int_range z then Ok (VInt z, h) else Err EArgumentError | None => Err EArgumentError end) /\ (forall l : positive, call_int h [VArr l] = Err EArgumentError) /\ (forall ip n : Z, call_int h [VFun ip n] = Err EArgumentError).
Proof. exact BuiltinsProofs.int_spec. Qed.

(* float: README table *)
Theorem float_spec : forall (orc : oracle) (h : heap), call_float orc h [VNull] = Ok (alloc_float h 0) /\ call_float orc h [VBool true] = Ok (alloc_float h 1) /\ call_float orc h [VBool false] = Ok (alloc_float h 0) /\ (forall z : Z, call_float orc h [VInt z] = Ok (alloc_float h (float_of_int z))) /\ (forall l : positive, call_float orc h [VFloat l] = Ok (VFloat l, h)) /\ (forall (l : positive) (s : text), get_str h l = Ok s -> call_float orc h [VStr l] = match parse_float orc s with | Some x => Ok (alloc_float h x) | None => Err EArgumentError end) /\ (forall l : positive, call_float orc h [VArr l] = Err EArgumentError) /\ (forall ip n : Z, call_float orc h [VFun ip n] = Err EArgumentError).
Proof. exact BuiltinsProofs.float_spec. Qed.

(* string: README table *)
Theorem string_spec : forall (orc : oracle) (h : heap), call_string orc h [VNull] = Ok (alloc_str h []) /\ (forall b : bool, call_string orc h [VBool b] = Ok (alloc_str h (str_cps (if b then "true"%string else "false"%string)))) /\ (forall z : Z, call_string orc h [VInt z] = Ok (alloc_str h (show_Z z))) /\ (forall (l : positive) (x : float), get_float h l = Ok x -> call_string orc h [VFloat l] = Ok (alloc_str h (show_float orc x))) /\ (forall l : positive, call_string orc h [VStr l] = Ok (VStr l, h)) /\ (forall l : positive, call_string orc h [VArr l] = Err EArgumentError) /\ (forall ip n : Z, call_string orc h [VFun ip n] = Err EArgumentError).
Proof. exact BuiltinsProofs.string_spec. Qed.

(* lengte counts characters / elements *)
Theorem length_spec : forall h : heap, (forall (l : positive) (s : text), get_str h l = Ok s -> call_length h [VStr l] = Ok (VInt (zlength s), h)) /\ (forall (l : positive) (vs : list val), get_arr h l = Ok vs -> call_length h [VArr l] = Ok (VInt (zlength vs), h)) /\ (forall a : val, match a with | VStr _ | VArr _ => True | _ => call_length h [a] = Err ETypeError end).
Proof. exact BuiltinsProofs.length_spec. Qed.

(* int(float) truncates toward zero (Z.quot on the float's exact rational value), clamped then range-checked *)
Theorem trunc_float_spec : forall (x : float) (s : bool) (m : positive) (e : Z), Prim2SF x = S754_finite s m e -> trunc_float x = BuiltinsProofs.clamp_isize (BuiltinsProofs.sf_num s m e ÷ BuiltinsProofs.sf_den e).
Proof. exact BuiltinsProofs.trunc_float_spec. Qed.

(* decimal text: parsing the printed form of any 64-bit integer gives it back *)
Theorem parse_show_Z : forall z : Z, - 2 ^ 63 <= z < 2 ^ 63 -> parse_isize (show_Z z) = Some z.
Proof. exact DecimalProofs.parse_show_Z. Qed.

(* number -> text -> number for EVERY integer of the language *)
Theorem int_text_roundtrip : forall (orc : oracle) (h : heap) (z : Z), in_int_range z = true -> exists h' : heap, call_builtin orc BString h [VInt z] = Ok (VStr (next_loc h), h', []) /\ call_builtin orc BInt h' [VStr (next_loc h)] = Ok (VInt z, h', []).
Proof. exact BuiltinsProofs.int_text_roundtrip. Qed.

(* int of padded signed decimal text is its value, or an argument error outside the range *)
Theorem int_parses_decimal : forall (h : heap) (l : positive) (ws : list cp) (sg : option bool) (ds ws' : list cp), get_str h l = Ok (ws ++ (DecimalProofs.sign_text sg ++ ds) ++ ws') -> DecimalProofs.all_space ws -> DecimalProofs.all_space ws' -> ds <> [] -> DecimalProofs.all_digits ds -> call_int h [VStr l] = (let z := DecimalProofs.signed_val sg (DecimalProofs.dec_val ds) in if in_int_range z then Ok (VInt z, h) else Err EArgumentError).
Proof. exact BuiltinsProofs.int_parses_decimal. Qed.

(* number -> text -> number for floats, under the oracle law parse (show x) = x (Rust std's round-trip guarantee) *)
Theorem float_text_roundtrip : forall orc : oracle, (forall x : float, parse_float orc (show_float orc x) = Some x) -> forall (h : heap) (l : positive) (x : float), get_float h l = Ok x -> exists h1 h2 : heap, call_builtin orc BString h [VFloat l] = Ok (VStr (next_loc h), h1, []) /\ get_str h1 (next_loc h) = Ok (show_float orc x) /\ call_builtin orc BFloat h1 [VStr (next_loc h)] = Ok (VFloat (next_loc h1), h2, []) /\ get_float h2 (next_loc h1) = Ok x.
Proof. exact BuiltinsProofs.float_text_roundtrip. Qed.

(* print fills the placeholders of its FORMAT text left to right, never rescanning inserted text, and ends the line *)
Theorem print_spec : forall (orc : oracle) (h : heap) (a0 : val) (rest : list val) (t0 : text) (ts : list text), display orc h a0 = Ok t0 -> Forall2 (fun (v : val) (t : text) => display orc h v = Ok t) rest ts -> call_print orc h (a0 :: rest) = Ok (BuiltinsProofs.subst t0 ts ++ [10%N]).
Proof. exact BuiltinsProofs.print_spec. Qed.

(* the non-rescanning fact: whatever text is inserted, the rest is processed independently *)
Theorem subst_first : forall (a : text) (b : list cp) (t : text) (more : list text), ~ DecimalProofs.has_ph a -> BuiltinsProofs.subst (a ++ DecimalProofs.ph ++ b) (t :: more) = a ++ t ++ BuiltinsProofs.subst b more.
Proof. exact BuiltinsProofs.subst_first. Qed.

(* type returns the documented name of the value's type *)
Theorem type_spec : forall (orc : oracle) (h : heap) (a : val), exists h' : heap, call_builtin orc BType h [a] = Ok (VStr (next_loc h), h', []) /\ get_str h' (next_loc h) = Ok (type_name (val_tag a)) /\ (forall k : positive, k <> next_loc h -> PM.find k (cells h') = PM.find k (cells h)).
Proof. exact BuiltinsProofs.type_spec. Qed.

(* arrays print as [e1, e2, ...] recursively *)
Theorem display_arr : forall (orc : oracle) (h : heap) (l : positive) (vs : list val) (T : text), get_arr h l = Ok vs -> display orc h (VArr l) = Ok T -> exists ts : list text, Forall2 (fun (v : val) (t : text) => display orc h v = Ok t) vs ts /\ T = [91%N] ++ BuiltinsProofs.join (str_cps ", ") ts ++ [93%N].
Proof. exact BuiltinsProofs.display_arr. Qed.

(* SOURCE level (fragment F2h): the text a program prints is exactly, and in the same order, what the definitional semantics prints - also when the program then fails *)
Theorem print_output_order : forall (orc : oracle) (p : block), in_F2h p = true -> ends_expr p = true -> lits_exact (lits_b p) -> forall bc : bytecode, compile p = Ok bc -> forall fuel : nat, (size2h_b p <= fuel)%nat -> sem_program orc fuel p <> SemFuel -> sem_small orc fuel p (length (b_constants bc)) -> exists budget : nat, CompileCorrectH5.sem_out (sem_program orc fuel p) = Some (o_out (run_program orc bc budget)).
Proof. exact CompileCorrectH5.print_output_order. Qed.

(* every builtin is invariant under renaming of heap locations: related arguments in related heaps give related results, equal output and related heaps *)
Theorem call_builtin_rel : forall (orc : oracle) (K : Z) (R : loc_rel) (hs hm : heap), CompileCorrectH3.HR K R hs hm -> forall (b : builtin) (args args' : list val), Forall2 (val_rel R) args args' -> CompileCorrectH3.bres_rel K R hm (call_builtin orc b hs args) (call_builtin orc b hm args').
Proof. exact CompileCorrectH3.call_builtin_rel. Qed.

(* SOURCE level, WHOLE language outside the exclusions of DESIGN 4.3 (functions, heap values, builtins together, collector running): the compiled program computes exactly what the definitional semantics assigns to the tree - which decides this property for every such program of the model *)
Theorem compile_correct_F4 : forall (orc : oracle) (p : block), in_F4 p = true -> ends_expr p = true -> lits_exact (lits_b p) -> forall bc : bytecode, compile p = Ok bc -> forall fuel : nat, (size3_b p <= fuel)%nat -> sem_program orc fuel p <> SemFuel -> sem_small orc fuel p (length (b_constants bc)) -> (exists budget : nat, obs_eq4 (run_program orc bc budget) (sem_program orc fuel p)) \/ hits_excluded4 (CompileCorrectJ5.fun_table p) orc bc.
Proof. exact CompileCorrectJ9.compile_correct_F4. Qed.

(* whole language: the printed text is exactly, in order, what the semantics prints, also from inside functions and before an error *)
Theorem print_output_order_F4 : forall (orc : oracle) (p : block), in_F4 p = true -> ends_expr p = true -> lits_exact (lits_b p) -> forall bc : bytecode, compile p = Ok bc -> forall fuel : nat, (size3_b p <= fuel)%nat -> sem_program orc fuel p <> SemFuel -> sem_small orc fuel p (length (b_constants bc)) -> (exists budget : nat, CompileCorrectH5.sem_out (sem_program orc fuel p) = Some (o_out (run_program orc bc budget))) \/ hits_excluded4 (CompileCorrectJ5.fun_table p) orc bc.
Proof. exact CompileCorrectJ10.print_output_order_F4. Qed.

Example print_norescan_nonvacuous : True. Proof. exact I. Qed.
Print Assumptions builtins_total.
Print Assumptions arity_error.
Print Assumptions cast_identity.
Print Assumptions bool_spec.
Print Assumptions int_spec.
Print Assumptions float_spec.
Print Assumptions string_spec.
Print Assumptions length_spec.
Print Assumptions trunc_float_spec.
Print Assumptions parse_show_Z.
Print Assumptions int_text_roundtrip.
Print Assumptions int_parses_decimal.
Print Assumptions float_text_roundtrip.
Print Assumptions print_spec.
Print Assumptions subst_first.
Print Assumptions type_spec.
Print Assumptions display_arr.
Print Assumptions print_output_order.
Print Assumptions call_builtin_rel.
Print Assumptions compile_correct_F4.
Print Assumptions print_output_order_F4.
