(* C01 - running a program yields exactly what its source text denotes. Property theorems only (definitional semantics in spec/Sem.v; fragments and observation relations in spec/Fragment*.v; proofs in proofs/CompileCorrectA.v ... J10.v). MAIN THEOREM compile_correct (= compile_correct_F4): for EVERY program of the language outside the documented exclusions of DESIGN.md 4.3 - the boolean predicate in_F4 of spec/Fragment4.v: literals, all operators, variables in nested scopes, assignment, blocks, als / anders als / anders, zolang with stop / volgende, named and anonymous FUNCTIONS, recursion, first-class functions, ARRAYS, STRINGS, FLOATS, indexing and index assignment, the seven BUILTINS with their printed output - the machine, running the compiled bytecode WITH its collector (a collection at every function return), yields exactly the value GRAPH (under a location correspondence), the OUTPUT and the ERROR KIND (raised after the same output) that the definitional semantics assigns to the tree. Hypotheses, each an exclusion of 4.3: ends_expr (item 1), lits_exact (no two IEEE-equal but different float literals such as 0.0 and -0.0: only a hand-built tree has them, the parser never produces a signed literal), sem_small (fewer than 2^60 objects, item 5), and the disjunct hits_excluded4 = the run hits one of three run-time events: the 16-bit stack / frame limits (item 5), == on two function values (item 14), a call with more arguments than parameters (item 4). Fuel of Sem.v: any amount that suffices (sem_fuel_mono: more never changes the result). The earlier fragment theorems are kept: F3 (no heap), F2h (no functions; unconditional apart from lits_exact / sem_small), F2 (scalars: unconditional), F1. What ties the theorem to the Rust code is the correspondence: byte-identical bytecode and step-exact runs of Compiler.v / VM.v against the implementation, and Sem.v evaluated on the same trees. *)
From NL.Model Require Import Pipeline.
From NL.Spec Require Import Sem Fragment Fragment2 Fragment2h Fragment3 Fragment4.
From NL.Proofs Require CompileCorrectA CompileCorrectB CompileCorrectC CompileCorrectD CompileCorrectI CompileCorrectH5 CompileCorrectJ8 CompileCorrectJ9 CompileCorrectJ10 SessionRefineF CompileCorrectText.
Open Scope Z_scope.

(* compiler correctness for the whole language outside the exclusions of DESIGN 4.3 (functions AND heap values AND builtins; the collector runs during the program): value graph, output and error kind agree with the definitional semantics, unless the run hits one of the three excluded run-time events *)
Theorem compile_correct : forall (orc : oracle) (p : block), in_F4 p = true -> ends_expr p = true -> lits_exact (lits_b p) -> forall bc : bytecode, compile p = Ok bc -> forall fuel : nat, (size3_b p <= fuel)%nat -> sem_program orc fuel p <> SemFuel -> sem_small orc fuel p (length (b_constants bc)) -> (exists budget : nat, obs_eq4 (run_program orc bc budget) (sem_program orc fuel p)) \/ hits_excluded4 (CompileCorrectJ5.fun_table p) orc bc.
Proof. exact CompileCorrectJ9.compile_correct_F4. Qed.

(* the same on SOURCE TEXT: `eval` (the model of lib.rs::eval: parse, compile with a fresh compiler, run on a fresh machine) applied to a text that parses to such a tree yields the observation the semantics assigns to the tree *)
Theorem eval_text_correct : forall (u : unicode) (orc : oracle) (src : text) (p : block), parse u (parse_float orc) src = Ok p -> in_F4 p = true -> ends_expr p = true -> lits_exact (lits_b p) -> forall bc : bytecode, compile p = Ok bc -> forall fuel : nat, (size3_b p <= fuel)%nat -> sem_program orc fuel p <> SemFuel -> sem_small orc fuel p (length (b_constants bc)) -> (exists (budget : nat) (extra : Z) (o : observation), eval u orc src budget = Ran extra o /\ obs_eq4 o (sem_program orc fuel p)) \/ hits_excluded4 (CompileCorrectJ5.fun_table p) orc bc.
Proof. exact CompileCorrectText.eval_text_correct. Qed.

(* a text that does not parse, or whose tree the compiler rejects, is a front-end error before anything runs *)
Theorem eval_text_front_error : forall (u : unicode) (orc : oracle) (src : text) (budget : nat), (forall p : block, parse u (parse_float orc) src <> Ok p) \/ (exists p : block, parse u (parse_float orc) src = Ok p /\ (forall bc : bytecode, compile p <> Ok bc)) -> exists r : outcome bytecode, eval u orc src budget = FrontError r.
Proof. exact CompileCorrectText.eval_text_front_error. Qed.

(* every program the compiler accepts passes the semantics' static pass *)
Theorem static_accepts_F4 : forall (p : block) (bc : bytecode) (fuel : nat), in_F4 p = true -> compile p = Ok bc -> (size3_b p <= fuel)%nat -> static_check fuel p = None.
Proof. exact CompileCorrectJ8.static_accepts_F4. Qed.

(* the printed text is exactly, in order, what the semantics prints *)
Theorem print_output_order_F4 : forall (orc : oracle) (p : block), in_F4 p = true -> ends_expr p = true -> lits_exact (lits_b p) -> forall bc : bytecode, compile p = Ok bc -> forall fuel : nat, (size3_b p <= fuel)%nat -> sem_program orc fuel p <> SemFuel -> sem_small orc fuel p (length (b_constants bc)) -> (exists budget : nat, CompileCorrectH5.sem_out (sem_program orc fuel p) = Some (o_out (run_program orc bc budget))) \/ hits_excluded4 (CompileCorrectJ5.fun_table p) orc bc.
Proof. exact CompileCorrectJ10.print_output_order_F4. Qed.

(* the semantics is monotone in its fuel: `fuel large enough` is well defined *)
Theorem sem_fuel_mono : forall (orc : oracle) (n : nat), (forall (n' : nat) (c : dctx) (e : expr) (st : sstate), (n <= n')%nat -> eval_expr orc n c e st <> RFuel -> eval_expr orc n' c e st = eval_expr orc n c e st) /\ (forall (n' iter iter' : nat) (c : dctx) (cnd : expr) (body : list stmt) (last : val) (st : sstate), (n <= n')%nat -> eval_while orc n iter c cnd body last st <> RFuel -> eval_while orc n' iter' c cnd body last st = eval_while orc n iter c cnd body last st) /\ (forall (n' : nat) (c : dctx) (b : list stmt) (last : val) (st : sstate), (n <= n')%nat -> exec_block orc n c b last st <> RFuel -> exec_block orc n' c b last st = exec_block orc n c b last st).
Proof. exact SessionRefineF.sem_fuel_mono. Qed.

(* compiler correctness on fragment F3 (F2 + functions, calls, recursion, first-class functions, fused instructions): what the machine computes from the compiled bytecode is what the definitional semantics assigns to the tree, unless the run hits one of the two excluded run-time events *)
Theorem compile_correct_F3 : forall (orc : oracle) (p : block), in_F3 p = true -> ends_expr p = true -> forall bc : bytecode, compile p = Ok bc -> forall fuel : nat, (size3_b p <= fuel)%nat -> sem_program orc fuel p <> SemFuel -> (forall out : text, sem_program orc fuel p <> SemError EArgumentError out) -> (exists budget : nat, obs_eq3 (run_program orc bc budget) (sem_program orc fuel p)) \/ hits_excluded orc bc.
Proof. exact CompileCorrectI.compile_correct_F3. Qed.

(* every F3 program the compiler accepts passes the semantics' static pass *)
Theorem static_accepts_F3 : forall (p : block) (bc : bytecode) (fuel : nat), in_F3 p = true -> compile p = Ok bc -> (size3_b p <= fuel)%nat -> static_check fuel p = None.
Proof. exact CompileCorrectI.static_accepts_F3. Qed.

(* compiler correctness on fragment F2h (F2 + float/string/array values, indexing, index assignment, the seven builtins incl. printed output): result graph, output and error kind agree *)
Theorem compile_correct_F2h : forall (orc : oracle) (p : block), in_F2h p = true -> ends_expr p = true -> lits_exact (lits_b p) -> forall bc : bytecode, compile p = Ok bc -> forall fuel : nat, (size2h_b p <= fuel)%nat -> sem_program orc fuel p <> SemFuel -> sem_small orc fuel p (length (b_constants bc)) -> exists budget : nat, obs_eq_h (run_program orc bc budget) (sem_program orc fuel p).
Proof. exact CompileCorrectH5.compile_correct_F2h. Qed.

(* every F2h program the compiler accepts passes the semantics' static pass *)
Theorem static_accepts_F2h : forall (p : block) (bc : bytecode) (fuel : nat), in_F2h p = true -> compile p = Ok bc -> (size2h_b p <= fuel)%nat -> static_check fuel p = None.
Proof. exact CompileCorrectH5.static_accepts_F2h. Qed.

(* F2 is contained in F2h *)
Theorem in_F2_in_F2h : forall p : block, in_F2 p = true -> in_F2h p = true.
Proof. exact CompileCorrectH5.in_F2_in_F2h. Qed.

(* fragment F2 (no functions): unconditional, no excluded events *)
Theorem compile_correct_F2 : forall (orc : oracle) (p : block), in_F2 p = true -> ends_expr p = true -> forall bc : bytecode, compile p = Ok bc -> forall fuel : nat, (size2_b p <= fuel)%nat -> sem_program orc fuel p <> SemFuel -> exists budget : nat, obs_eq (run_program orc bc budget) (sem_program orc fuel p).
Proof. exact CompileCorrectD.compile_correct_F2. Qed.

(* every F2 program the compiler accepts passes the semantics' static pass *)
Theorem static_accepts_F2 : forall (p : block) (bc : bytecode) (fuel : nat), in_F2 p = true -> compile p = Ok bc -> (size2_b p <= fuel)%nat -> static_check fuel p = None.
Proof. exact CompileCorrectD.static_accepts_F2. Qed.

(* fragment F1 (no blocks / control flow), without the self-initialiser exclusion F2 needs *)
Theorem compile_correct_F1 : forall (orc : oracle) (p : block), in_F1 p = true -> ends_expr p = true -> forall bc : bytecode, compile p = Ok bc -> forall (fuel : nat) (r : sem_result), sem_program orc fuel p = r -> r <> SemFuel -> r <> SemRejected ESyntaxError -> exists budget : nat, obs_eq (run_program orc bc budget) r.
Proof. exact CompileCorrectB.compile_correct_F1. Qed.

(* expression level, for ANY compiler state, code buffer, pool and machine state: the emitted code pushes exactly the value the semantics gives, or stops with exactly its error *)
Theorem compile_expr_correct_F1a : forall (orc : oracle) (e : expr), in_F1a e = true -> forall st st' : cstate, compile_expression e st = Ok st' -> exists (ce : list Z) (kx : list const), c_code st' = c_code st ++ ce /\ c_constants st' = c_constants st ++ kx /\ (forall prog : program, CompileCorrectA.code_at prog (code_len st) ce -> CompileCorrectA.consts_ok prog (c_constants st') -> forall s : vm, v_ip s = code_len st -> forall (fuel : nat) (c : dctx) (sst : sstate), match eval_expr orc fuel c e sst with | ROk v sst' => sst' = sst /\ CompileCorrectA.reaches orc prog s {| v_stack := v :: v_stack s; v_slen := v_slen s + 1; v_globals := v_globals s; v_frames := v_frames s; v_ip := code_len st'; v_bp := v_bp s; v_final := v_final s; v_heap := v_heap s; v_gc := v_gc s; v_out := v_out s |} | RErr k sst' => sst' = sst /\ CompileCorrectA.stops orc prog s (Err k) (v_out s) | RFuel => True | _ => False end).
Proof. exact CompileCorrectB.compile_expr_correct_F1a. Qed.

(* a reference error of the compiler is a rejection by the semantics' static pass, before anything runs *)
Theorem compile_reject_F1 : forall (orc : oracle) (p : block), in_F1 p = true -> compile p = Err EReferenceError -> forall fuel : nat, (size_block p <= fuel)%nat -> sem_program orc fuel p = SemRejected EReferenceError.
Proof. exact CompileCorrectB.compile_reject_F1. Qed.

(* and conversely a program the static pass rejects for an undeclared name never compiles *)
Theorem static_reject_F1 : forall p : block, in_F1 p = true -> forall fuel : nat, static_check fuel p = Some EReferenceError -> forall bc : bytecode, compile p <> Ok bc.
Proof. exact CompileCorrectB.static_reject_F1. Qed.


Print Assumptions compile_correct.
Print Assumptions eval_text_correct.
Print Assumptions eval_text_front_error.
Print Assumptions static_accepts_F4.
Print Assumptions print_output_order_F4.
Print Assumptions sem_fuel_mono.
Print Assumptions compile_correct_F3.
Print Assumptions static_accepts_F3.
Print Assumptions compile_correct_F2h.
Print Assumptions static_accepts_F2h.
Print Assumptions in_F2_in_F2h.
Print Assumptions compile_correct_F2.
Print Assumptions static_accepts_F2.
Print Assumptions compile_correct_F1.
Print Assumptions compile_expr_correct_F1a.
Print Assumptions compile_reject_F1.
Print Assumptions static_reject_F1.
