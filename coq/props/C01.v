(* C01 - running a program yields exactly what its source text denotes. Property theorems only (definitional semantics in spec/Sem.v; fragments and observation relations in spec/Fragment*.v; proofs in proofs/CompileCorrectA.v ... I.v). FULL STATEMENT (compile_correct): forall p, wf_prog p -> forall fuel r, sem_program orc fuel p = r -> r <> SemFuel -> exists budget, obs_eq (run_program orc bc budget) r. PROVED so far (hence `_partial`): fragment F3 = scalar and function values: integer/boolean literals, all 13 binary and both prefix operators, variables in nested block scopes (slot reuse), assignment, blocks, als / anders als / anders as statement and value, zolang with stop / volgende, FUNCTIONS: named and anonymous literals, parameters, locals, calls (arguments left to right, then the callee), antwoord from any depth, recursion, functions stored in variables / passed / returned, and the fused local-constant instructions (compile_correct_F3; F2 = the same without functions, F1 without control flow). Run-time events excluded by the theorem's disjunct `hits_excluded` (a property of the machine run): a call beyond the 16-bit stack / frame limits (4.3 item 5) and ==/!= on two function values (4.3 item 14). ALSO PROVED: fragment F2h = F2 + HEAP VALUES + BUILTINS at top level (compile_correct_F2h): float / string / array literals, operators on floats and strings, indexing and index assignment on arrays and strings (aliasing, negative indices, errors), all seven builtins with the printed OUTPUT, result compared as a value GRAPH under a location correspondence after the collector is dropped; hypotheses: lits_exact (no two IEEE-equal but distinct float literals such as 0.0 and -0.0 - only a hand-built tree can contain -0.0 as a literal), sem_small (heap below 2^60 objects). What remains for the full statement is the COMBINATION of functions with heap values (the collector then runs during the program). Outside the proved fragments the statement is carried per program by the correspondence of Compiler.v/VM.v with the implementation AND the evaluation of Sem.v on the same tree inside Coq. *)
From NL.Model Require Import Pipeline.
From NL.Spec Require Import Sem Fragment Fragment2 Fragment2h Fragment3.
From NL.Proofs Require CompileCorrectA CompileCorrectB CompileCorrectC CompileCorrectD CompileCorrectI CompileCorrectH5.
Open Scope Z_scope.

(* compiler correctness on fragment F3 (F2 + functions, calls, recursion, first-class functions, fused instructions): what the machine computes from the compiled bytecode is what the definitional semantics assigns to the tree, unless the run hits one of the two excluded run-time events *)
Theorem compile_correct_partial : forall (orc : oracle) (p : block), in_F3 p = true -> ends_expr p = true -> forall bc : bytecode, compile p = Ok bc -> forall fuel : nat, (size3_b p <= fuel)%nat -> sem_program orc fuel p <> SemFuel -> (forall out : text, sem_program orc fuel p <> SemError EArgumentError out) -> (exists budget : nat, obs_eq3 (run_program orc bc budget) (sem_program orc fuel p)) \/ hits_excluded orc bc.
Proof. exact CompileCorrectI.compile_correct_F3. Qed.

(* every F3 program the compiler accepts passes the semantics' static pass *)
Theorem static_accepts_F3 : forall (p : block) (bc : bytecode) (fuel : nat), in_F3 p = true -> compile p = Ok bc -> (size3_b p <= fuel)%nat -> static_check fuel p = None.
Proof. exact CompileCorrectI.static_accepts_F3. Qed.

(* compiler correctness on fragment F2h (F2 + float/string/array values, indexing, index assignment, the seven builtins incl. printed output): result graph, output and error kind agree *)
Theorem compile_correct_F2h : forall (orc : oracle) (p : block), in_F2h p = true -> ends_expr p = true -> lits_exact (lits_b p) -> forall bc : bytecode, compile p = Ok bc -> forall fuel : nat, (size2h_b p <= fuel)%nat -> sem_program orc fuel p <> SemFuel -> sem_small orc fuel p (length (b_constants bc)) -> exists budget : nat, obs_eq_h (run_program orc bc budget) (sem_program orc fuel p).
Proof. exact CompileCorrectH5.compile_correct_F2h. Qed.

(* every F2h program the compiler accepts passes the semantics' static pass *)
Theorem static_accepts_F2h : forall (p : block) (bc : bytecode) (fuel : nat), in_F2h p = true -> compile p = Ok bc -> (size2h_b p <= fuel)%nat -> static_check fuel p = None.
Proof. exact CompileCorrectH5.static_accepts_F2h. Qed.

(* F2 is contained in F2h *)
Theorem in_F2_in_F2h : forall p : block, in_F2 p = true -> in_F2h p = true.
Proof. exact CompileCorrectH5.in_F2_in_F2h. Qed.

(* fragment F2 (no functions): unconditional, no excluded events *)
Theorem compile_correct_F2 : forall (orc : oracle) (p : block), in_F2 p = true -> ends_expr p = true -> forall bc : bytecode, compile p = Ok bc -> forall fuel : nat, (size2_b p <= fuel)%nat -> sem_program orc fuel p <> SemFuel -> exists budget : nat, obs_eq (run_program orc bc budget) (sem_program orc fuel p).
Proof. exact CompileCorrectD.compile_correct_F2. Qed.

(* every F2 program the compiler accepts passes the semantics' static pass *)
Theorem static_accepts_F2 : forall (p : block) (bc : bytecode) (fuel : nat), in_F2 p = true -> compile p = Ok bc -> (size2_b p <= fuel)%nat -> static_check fuel p = None.
Proof. exact CompileCorrectD.static_accepts_F2. Qed.

(* fragment F1 (no blocks / control flow), without the self-initialiser exclusion F2 needs *)
Theorem compile_correct_F1 : forall (orc : oracle) (p : block), in_F1 p = true -> ends_expr p = true -> forall bc : bytecode, compile p = Ok bc -> forall (fuel : nat) (r : sem_result), sem_program orc fuel p = r -> r <> SemFuel -> r <> SemRejected ESyntaxError -> exists budget : nat, obs_eq (run_program orc bc budget) r.
Proof. exact CompileCorrectB.compile_correct_F1. Qed.

(* expression level, for ANY compiler state, code buffer, pool and machine state: the emitted code pushes exactly the value the semantics gives, or stops with exactly its error *)
Theorem compile_expr_correct_F1a : forall (orc : oracle) (e : expr), in_F1a e = true -> forall st st' : cstate, compile_expression e st = Ok st' -> exists (ce : list Z) (kx : list const), c_code st' = c_code st ++ ce /\ c_constants st' = c_constants st ++ kx /\ (forall prog : program, CompileCorrectA.code_at prog (code_len st) ce -> CompileCorrectA.consts_ok prog (c_constants st') -> forall s : vm, v_ip s = code_len st -> forall (fuel : nat) (c : dctx) (sst : sstate), match eval_expr orc fuel c e sst with | ROk v sst' => sst' = sst /\ CompileCorrectA.reaches orc prog s {| v_stack := v :: v_stack s; v_slen := v_slen s + 1; v_globals := v_globals s; v_frames := v_frames s; v_ip := code_len st'; v_bp := v_bp s; v_final := v_final s; v_heap := v_heap s; v_gc := v_gc s; v_out := v_out s |} | RErr k sst' => sst' = sst /\ CompileCorrectA.stops orc prog s (Err k) (v_out s) | RFuel => True | _ => False end).
Proof. exact CompileCorrectB.compile_expr_correct_F1a. Qed.

(* a reference error of the compiler is a rejection by the semantics' static pass, before anything runs *)
Theorem compile_reject_F1 : forall (orc : oracle) (p : block), in_F1 p = true -> compile p = Err EReferenceError -> forall fuel : nat, (size_block p <= fuel)%nat -> sem_program orc fuel p = SemRejected EReferenceError.
Proof. exact CompileCorrectB.compile_reject_F1. Qed.

(* and conversely a program the static pass rejects for an undeclared name never compiles *)
Theorem static_reject_F1 : forall p : block, in_F1 p = true -> forall fuel : nat, static_check fuel p = Some EReferenceError -> forall bc : bytecode, compile p <> Ok bc.
Proof. exact CompileCorrectB.static_reject_F1. Qed.


Print Assumptions compile_correct_partial.
Print Assumptions static_accepts_F3.
Print Assumptions compile_correct_F2h.
Print Assumptions static_accepts_F2h.
Print Assumptions in_F2_in_F2h.
Print Assumptions compile_correct_F2.
Print Assumptions static_accepts_F2.
Print Assumptions compile_correct_F1.
Print Assumptions compile_expr_correct_F1a.
Print Assumptions compile_reject_F1.
Print Assumptions static_reject_F1.
