(* C10 - how the compiler chooses to implement an expression is unobservable. Property theorems only (proofs in proofs/VMStepProofs.v, PoolProofs.v, OpsProofs.v): the fused variable-op-constant instructions are step-equivalent to the generic sequence for every machine state; fused selection keeps the source order of the operands; the constant pool is stable under additions. *)
From NL.Model Require Import Pipeline.
From NL.Model Require Import VM.
From NL.Spec Require Import ArithSpec.
From NL.Proofs Require OpsProofs PoolProofs VMStepProofs VMIndexProofs CompileCorrectI.
From NL.Spec Require Import Sem Fragment Fragment2 Fragment2h Fragment3 Fragment4.
From NL.Proofs Require CompileCorrectJ9 CompileCorrectJ10.
Import VMStepProofs PoolProofs.
Open Scope Z_scope.

(* whichever side the literal stands on and whether the fused or the generic instruction is chosen, the machine applies the operator to (left, right) in SOURCE order: stated for all 11 fused operators and every value *)
Theorem fused_unobservable : forall (orc : oracle) (l r : expr) (o : operator) (name : text) (v : Z) (o' : operator) (h : heap) (a : val) (m : string) (m' : opcode) (mf : string), fused_candidate l r o = Some (name, v, o') -> lit_ok v = true -> method_of o = Some m -> assoc operator_eqb o' fused_table = Some m' -> assoc opcode_eqb m' fused_dispatch = Some mf -> scalar a = true \/ (exists ip n : Z, a = VFun ip n) -> binop orc mf h a (VInt v) = (let (x, y) := match l with | EIdent _ => (a, VInt v) | _ => (VInt v, a) end in binop orc m h x y).
Proof. exact CompileCorrectI.fused_unobservable. Qed.

(* whole programs with functions (where locals, hence fused instructions, occur): the compiled program computes what the source denotes - so global vs local, literal vs variable, left vs right are unobservable on fragment F3 *)
Theorem compile_correct_F3 : forall (orc : oracle) (p : block), in_F3 p = true -> ends_expr p = true -> forall bc : bytecode, compile p = Ok bc -> forall fuel : nat, (size3_b p <= fuel)%nat -> sem_program orc fuel p <> SemFuel -> (forall out : text, sem_program orc fuel p <> SemError EArgumentError out) -> (exists budget : nat, obs_eq3 (run_program orc bc budget) (sem_program orc fuel p)) \/ hits_excluded orc bc.
Proof. exact CompileCorrectI.compile_correct_F3. Qed.

(* one fused instruction XLocalConst l c = the three generic instructions GetLocal l; Const c; X - same stack, heap, output, error, fault - for all eleven opcodes and EVERY machine state (constant not a string: the compiler fuses integer literals only) *)
Theorem fused_step_equiv : forall (orc : oracle) (prog prog' : program) (o : operator) (fo go : opcode) (s : vm) (ip' l_lo l_hi c_lo c_hi : Z) (r r' : list Z), assoc operator_eqb o fused_table = Some fo -> assoc operator_eqb o compile_operator_table = Some go -> VMStepProofs.code_at prog (v_ip s) (byte_of_opcode fo :: l_lo :: l_hi :: c_lo :: c_hi :: r) -> VMStepProofs.code_at prog' ip' (byte_of_opcode OGetLocal :: l_lo :: l_hi :: byte_of_opcode OConst :: c_lo :: c_hi :: byte_of_opcode go :: r') -> p_consts prog' = p_consts prog -> (forall loc : positive, get_const prog (c_lo + 256 * c_hi) <> Ok (VStr loc)) -> step orc prog s = (do x <- VMStepProofs.nsteps orc prog' 3 (upd_ip s ip'); Ok (VMStepProofs.set_ip_res (v_ip s + 5) x)) /\ (forall s3 : vm, VMStepProofs.nsteps orc prog' 3 (upd_ip s ip') = Ok (Continue s3) -> v_ip s3 = ip' + 7) /\ (forall (v : val) (s3 : vm), VMStepProofs.nsteps orc prog' 3 (upd_ip s ip') <> Ok (Halted v s3)).
Proof. exact VMStepProofs.fused_step_equiv. Qed.

(* the semantic core of it *)
Theorem fused_generic3 : forall (orc : oracle) (prog : program) (m : string) (s : vm) (l_lo l_hi c_lo c_hi : Z) (r : list Z), VMStepProofs.code_at prog (v_ip s) (l_lo :: l_hi :: c_lo :: c_hi :: r) -> fused orc prog m s = (do s' <- VMStepProofs.generic3 orc prog (l_lo + 256 * l_hi) (c_lo + 256 * c_hi) m s; Ok (upd_ip s' (v_ip s + 4))).
Proof. exact VMStepProofs.fused_generic3. Qed.

(* ... and the generic side executed by the real step function *)
Theorem generic3_steps : forall (orc : oracle) (prog : program) (s : vm) (l_lo l_hi c_lo c_hi : Z) (go : opcode) (m : string) (r : list Z), VMStepProofs.code_at prog (v_ip s) (byte_of_opcode OGetLocal :: l_lo :: l_hi :: byte_of_opcode OConst :: c_lo :: c_hi :: byte_of_opcode go :: r) -> assoc opcode_eqb go binary_dispatch = Some m -> (forall loc : positive, get_const prog (c_lo + 256 * c_hi) <> Ok (VStr loc)) -> VMStepProofs.nsteps orc prog 3 s = (do s' <- VMStepProofs.generic3 orc prog (l_lo + 256 * l_hi) (c_lo + 256 * c_hi) m s; Ok (Continue (upd_ip s' (v_ip s + 7)))).
Proof. exact VMStepProofs.generic3_steps. Qed.

(* the fused form is selected only for (variable op literal) or, through the mirror table, (literal op variable) *)
Theorem fused_selection_sound : forall (l r : expr) (op : operator) (name : text) (v : Z) (op' : operator), fused_candidate l r op = Some (name, v, op') -> l = EIdent name /\ r = EInt v /\ op' = op \/ l = EInt v /\ r = EIdent name /\ assoc operator_eqb op mirror_table = Some op'.
Proof. exact PoolProofs.fused_selection_sound. Qed.

(* ... and then computes `l op r` in SOURCE order (with mirror_sound of C06): which side the literal stands on is unobservable *)
Theorem fused_selection_meaning : forall (frem : float -> float -> float) (l r : expr) (op : operator) (name : text) (v : Z) (op' : operator) (b : sval), fused_candidate l r op = Some (name, v, op') -> let operand := fun e : expr => match e with | EInt z => XInt z | _ => b end in spec_binop frem op (operand l) (operand r) = spec_binop frem op' b (XInt v).
Proof. exact PoolProofs.fused_selection_meaning. Qed.

(* the mirror table is sound for every integer literal and every value of any type *)
Theorem mirror_sound : forall (frem : float -> float -> float) (o o' : operator) (c : Z) (b : sval), assoc operator_eqb o mirror_table = Some o' -> spec_binop frem o (XInt c) b = spec_binop frem o' b (XInt c).
Proof. exact OpsProofs.mirror_sound. Qed.

(* fused and generic opcodes of one operator dispatch to the same method *)
Theorem fused_same_method : forall (o : operator) (c1 c2 : opcode) (m1 : string), assoc operator_eqb o compile_operator_table = Some c1 -> assoc operator_eqb o fused_table = Some c2 -> assoc opcode_eqb c1 binary_dispatch = Some m1 -> assoc opcode_eqb c2 fused_dispatch = Some m1.
Proof. exact OpsProofs.fused_same_method. Qed.

(* adding a constant returns an index at which an equal constant is found, keeps every earlier entry at its index, and changes nothing but the pool *)
Theorem pool_stable : forall (k : const) (st st' : cstate) (i : Z), add_constant k st = (st', Ok i) -> 0 <= i < 2 ^ 16 /\ (exists k' : const, nth_error (c_constants st') (Z.to_nat i) = Some k' /\ (const_eqb k' k = true \/ k' = k)) /\ (exists ext : list const, c_constants st' = c_constants st ++ ext /\ (ext = [] \/ ext = [k])) /\ PoolProofs.same_but_pool st st'.
Proof. exact PoolProofs.pool_stable. Qed.

(* ... the identical constant for everything but floats (IEEE equality merges 0.0 and -0.0: unreachable from source, noted in DESIGN.md) *)
Theorem pool_stable_exact : forall (k : const) (st st' : cstate) (i : Z), (forall f : float, k <> KFloat f) -> add_constant k st = (st', Ok i) -> nth_error (c_constants st') (Z.to_nat i) = Some k.
Proof. exact PoolProofs.pool_stable_exact. Qed.

(* equal literals elsewhere in the program only re-index: old indices are kept whatever happens *)
Theorem pool_prefix : forall (k : const) (st st' : cstate) (r : outcome Z), add_constant k st = (st', r) -> (exists ext : list const, c_constants st' = c_constants st ++ ext) /\ PoolProofs.same_but_pool st st' /\ (forall (j : nat) (c : const), nth_error (c_constants st) j = Some c -> nth_error (c_constants st') j = Some c).
Proof. exact PoolProofs.pool_prefix. Qed.

(* no two distinct entries ever compare equal *)
Theorem pool_nodup_preserved : forall (k : const) (st st' : cstate) (r : outcome Z), add_constant k st = (st', r) -> PoolProofs.pool_nodup (c_constants st) -> PoolProofs.pool_nodup (c_constants st').
Proof. exact PoolProofs.pool_nodup_preserved. Qed.

(* a string literal is a value, not a shared mutable cell: Const of a string constant pushes a fresh copy *)
Theorem const_string_copied : forall (orc : oracle) (prog : program) (s : vm) (lo hi : Z) (r : list Z) (l : positive) (t : text), VMStepProofs.code_at prog (v_ip s) (byte_of_opcode OConst :: lo :: hi :: r) -> get_const prog (lo + 256 * hi) = Ok (VStr l) -> get_str (v_heap s) l = Ok t -> let l' := next_loc (v_heap s) in let h' := snd (h_alloc (v_heap s) (OStr t)) in step orc prog s = Ok (Continue (upd_ip (push (VStr l') (upd_heap s h' (trace (v_gc s) (VStr l')))) (v_ip s + 3))) /\ get_str h' l' = Ok t /\ (VMIndexProofs.heap_wf (v_heap s) -> l' <> l).
Proof. exact VMIndexProofs.const_string_copied. Qed.

(* SOURCE level, WHOLE language outside the exclusions of DESIGN 4.3 (functions, heap values, builtins together, collector running): the compiled program computes exactly what the definitional semantics assigns to the tree - which decides this property for every such program of the model *)
Theorem compile_correct_F4 : forall (orc : oracle) (p : block), in_F4 p = true -> ends_expr p = true -> lits_exact (lits_b p) -> forall bc : bytecode, compile p = Ok bc -> forall fuel : nat, (size3_b p <= fuel)%nat -> sem_program orc fuel p <> SemFuel -> sem_small orc fuel p (length (b_constants bc)) -> (exists budget : nat, obs_eq4 (run_program orc bc budget) (sem_program orc fuel p)) \/ hits_excluded4 (CompileCorrectJ5.fun_table p) orc bc.
Proof. exact CompileCorrectJ9.compile_correct_F4. Qed.


Print Assumptions fused_unobservable.
Print Assumptions compile_correct_F3.
Print Assumptions fused_step_equiv.
Print Assumptions fused_generic3.
Print Assumptions generic3_steps.
Print Assumptions fused_selection_sound.
Print Assumptions fused_selection_meaning.
Print Assumptions mirror_sound.
Print Assumptions fused_same_method.
Print Assumptions pool_stable.
Print Assumptions pool_stable_exact.
Print Assumptions pool_prefix.
Print Assumptions pool_nodup_preserved.
Print Assumptions const_string_copied.
Print Assumptions compile_correct_F4.
