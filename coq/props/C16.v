(* C16 - evaluation is a pure function of the program text. Property theorems only (proofs/PurityProofs.v). What is logic is proved: the model of eval takes the text and nothing else and builds a fresh compiler and machine; the inventory of process-global state, regenerated from /repo/src on every run, contains nothing but the two trusted marker impls; independent deterministic evaluations interleave without influence. Build profiles: since the repairs of D1-D3/D23 every arithmetic operation of the model is range-checked (C06 int_ops_exact, C14 int_spec), so the model has no profile parameter left. Threads, the allocator and stdout are shared in reality and are NOT modelled: that part is exploration (four execution contexts compared item by item). *)
From NL.Model Require Import Pipeline.
From NL.Proofs Require PurityProofs.
Import PurityProofs.

(* eval is a function of the text (and the oracles) alone: fresh compiler, fresh machine, nothing retained *)
Theorem eval_fresh_pipeline : forall (u : unicode) (orc : oracle) (src : text) (budget : nat), eval u orc src budget = match parse u (parse_float orc) src with | Ok ast => let (st, r) := compile_ast ast compiler_new in match r with | Ok bc => Ran (c_lit_allocs st - heap_const_count (b_constants bc)) (run_program orc bc budget) | _ => FrontError r end | Err k => FrontError (Err k) | Fault f => FrontError (Fault f) | OutOfFuel => FrontError OutOfFuel end.
Proof. exact PurityProofs.eval_fresh_pipeline. Qed.

(* the machine a run starts from depends on the bytecode only *)
Theorem run_program_initial_state : forall (orc : oracle) (bc : bytecode) (budget : nat), run_program orc bc budget = (let '(consts, h0) := load_consts (b_constants bc) empty_heap in let s0 := vm_start vm_new consts h0 in let '(r, s, lhs) := run_loop orc {| p_code := b_code bc; p_consts := consts |} budget s0 in {| o_result := r; o_out := v_out s; o_steps := budget - lhs; o_heap := do (_, h) <- gc_destroy (v_heap s) (v_gc s); Ok h |}).
Proof. exact PurityProofs.run_program_initial_state. Qed.

(* no static / thread_local / lazy / atomic / interior-mutability item exists in src/ outside the verif hooks: by computation on the regenerated inventory (fails as soon as one appears) *)
Theorem no_global_state : forallb PurityProofs.trusted_item global_state_items = true.
Proof. exact PurityProofs.no_global_state. Qed.

(* the regenerated body of lib.rs::eval constructs Compiler::new() and VM::new() per call *)
Theorem eval_builds_fresh_pipeline : eval_is_fresh_pipeline = true.
Proof. exact PurityProofs.eval_builds_fresh_pipeline. Qed.

(* any interleaving of independent deterministic evaluations gives each one the state it reaches running alone *)
Theorem interleaving_independent : forall (S : Type) (step : S -> S) (sched : list nat) (l : list S) (i : nat) (d : S), (i < length l)%nat -> nth i (PurityProofs.run_schedule S step sched l) d = PurityProofs.iter S step (PurityProofs.count i sched) (nth i l d).
Proof. exact PurityProofs.interleaving_independent. Qed.

(* two schedules agree on every evaluation they give the same number of steps *)
Theorem schedules_agree : forall (S : Type) (step : S -> S) (s1 s2 : list nat) (l : list S) (i : nat) (d : S), (i < length l)%nat -> PurityProofs.count i s1 = PurityProofs.count i s2 -> nth i (PurityProofs.run_schedule S step s1 l) d = nth i (PurityProofs.run_schedule S step s2 l) d.
Proof. exact PurityProofs.schedules_agree. Qed.


Print Assumptions eval_fresh_pipeline.
Print Assumptions run_program_initial_state.
Print Assumptions no_global_state.
Print Assumptions eval_builds_fresh_pipeline.
Print Assumptions interleaving_independent.
Print Assumptions schedules_agree.
