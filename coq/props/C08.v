(* C08 - tokenisation and literals are faithful to the text. Property theorems only (specification in spec/RenderSpec.v: quote, spelling, needs_sep, render, covers; proofs in proofs/LexerProofs.v). All statements hold for EVERY Unicode oracle u and every text. *)
From NL.Model Require Import Lexer Parser.
From NL.Spec Require Import RenderSpec.
From NL.Proofs Require LexerProofs.


(* the round trip on token sequences: rendering printable tokens with ANY admissible separators (white space of all eleven forms, newline-closed comments, nothing at all where the two tokens do not fuse) and lexing gives back exactly the tokens: maximal munch, keywords as whole words, exact spelling of identifiers and numbers *)
Theorem lex_render : forall (u : unicode) (items : list (text * token)) (trail : text), admissible u None items -> trailgap u trail -> trail_admissible (last_tok None items) trail -> tokens u (render items trail) = map snd items.
Proof. exact LexerProofs.lex_render. Qed.

(* special case: one space between any two tokens *)
Theorem lex_render_spaces : forall (u : unicode) (ts : list token), Forall (printable u) ts -> tokens u (render_spaces ts) = ts.
Proof. exact LexerProofs.lex_render_spaces. Qed.

(* no part of the input is silently dropped: every text is gap, token spelling, gap, ... where a gap is white space and comments only, offsets equal the bytes consumed, and an illegal character / unterminated string is flagged as an Illegal token (which the parser rejects) *)
Theorem lex_covers : forall (u : unicode) (s : text), covers 0 s (lex u s).
Proof. exact LexerProofs.lex_covers. Qed.

(* every token the lexer produces is Illegal or has one of the printable shapes *)
Theorem lex_tokens_printable : forall (u : unicode) (s : text), Forall (fun t : token => t = TFix KIllegal \/ printable u t) (tokens u s).
Proof. exact LexerProofs.lex_tokens_printable. Qed.

(* a string literal denotes precisely the characters written: decode (quote s) = s for ALL code-point lists *)
Theorem string_roundtrip : forall s : text, decode_string (quote s) = s.
Proof. exact LexerProofs.string_roundtrip. Qed.

(* ... and the quoted form lexes as one string token ending at its closing quote, whatever follows *)
Theorem string_lexes : forall (u : unicode) (s : text) (rest : list N) (pos : Z) (f : nat), next_token u (S f) (34%N :: quote s ++ 34%N :: rest) pos = Some (TStringLit (quote s), rest, pos + 2 + utf8_len (quote s)).
Proof. exact LexerProofs.string_lexes. Qed.

(* together: lexing then decoding "quote s" yields s *)
Theorem string_literal_tokens : forall (u : unicode) (s : text), exists raw : text, tokens u (34%N :: quote s ++ [34%N]) = [TStringLit raw] /\ decode_string raw = s.
Proof. exact LexerProofs.string_literal_tokens. Qed.

(* an unterminated string is an Illegal token, never a silently shortened program *)
Theorem unterminated_is_illegal : forall (u : unicode) (body : text) (pos : Z) (f : nat), ~ terminated body -> next_token u (S f) (34%N :: body) pos = Some (TFix KIllegal, [], pos + 1 + utf8_len body).
Proof. exact LexerProofs.unterminated_is_illegal. Qed.

(* two-character operators are matched before their one-character prefixes *)
Theorem two_char_first : forall (u : unicode) (a b : N) (t : ftoken) (e : option ftoken) (rest : list N) (pos : Z) (f : nat), In (a, b, t, e) double_tokens -> next_token u (S f) (a :: b :: rest) pos = Some (TFix t, rest, pos + 2).
Proof. exact LexerProofs.two_char_first. Qed.

(* ... and the prefix alone otherwise *)
Theorem one_char_otherwise : forall (u : unicode) (a b : N) (t : ftoken) (e : option ftoken) (c : N) (rest : list N) (pos : Z) (f : nat), In (a, b, t, e) double_tokens -> c <> b -> next_token u (S f) (a :: c :: rest) pos = Some (LexerProofs.prefix_token e, c :: rest, pos + 1).
Proof. exact LexerProofs.one_char_otherwise. Qed.

(* a word is a keyword token iff it is literally one of the keyword spellings *)
Theorem keyword_iff : forall (w : text) (k : ftoken), keyword_or_ident w = TFix k <-> (exists s : string, In (s, k) keywords /\ w = str_cps s).
Proof. exact LexerProofs.keyword_iff. Qed.

(* identifier-shaped words are kept verbatim up to the first non-identifier character (alsof, stelling, ja_ are identifiers) *)
Theorem word_lexes : forall (u : unicode) (c : cp) (a : list cp) (rest : text) (pos : Z) (f : nat), ident_start u c = true -> forallb (ident_char u) a = true -> LexerProofs.stops (ident_char u) rest -> next_token u (S f) (c :: a ++ rest) pos = Some (keyword_or_ident (c :: a), rest, pos + utf8_len (c :: a)).
Proof. exact LexerProofs.word_lexes. Qed.

(* integers keep their exact spelling *)
Theorem int_lexes : forall (u : unicode) (c : cp) (ds : list cp) (rest : text) (pos : Z) (f : nat), is_digit c = true -> forallb is_digit ds = true -> LexerProofs.stops (fun x : cp => is_digit x || (x =? 46)%N) rest -> next_token u (S f) (c :: ds ++ rest) pos = Some (TIntLit (c :: ds), rest, pos + utf8_len (c :: ds)).
Proof. exact LexerProofs.int_lexes. Qed.

(* floats keep their exact spelling (digits, the first dot, digits) *)
Theorem float_lexes : forall (u : unicode) (c : cp) (ds fs : list cp) (rest : text) (pos : Z) (f : nat), is_digit c = true -> forallb is_digit ds = true -> forallb is_digit fs = true -> LexerProofs.stops is_digit rest -> next_token u (S f) (c :: ds ++ 46%N :: fs ++ rest) pos = Some (TFloatLit (c :: ds ++ 46%N :: fs), rest, pos + utf8_len (c :: ds ++ 46%N :: fs)).
Proof. exact LexerProofs.float_lexes. Qed.


Print Assumptions lex_render.
Print Assumptions lex_render_spaces.
Print Assumptions lex_covers.
Print Assumptions lex_tokens_printable.
Print Assumptions string_roundtrip.
Print Assumptions string_lexes.
Print Assumptions string_literal_tokens.
Print Assumptions unterminated_is_illegal.
Print Assumptions two_char_first.
Print Assumptions one_char_otherwise.
Print Assumptions keyword_iff.
Print Assumptions word_lexes.
Print Assumptions int_lexes.
Print Assumptions float_lexes.
