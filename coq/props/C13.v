(* C13 - arrays and strings: shared by reference, indexed exactly, measured in characters. Property theorems only (proofs in proofs/VMIndexProofs.v) for EVERY machine state. SOURCE LEVEL (added): compile_correct_F2h ties these machine-level facts to what a program's text denotes for top-level programs (fragment F2h). *)
From NL.Model Require Import VM Pipeline.
From NL.Spec Require Import Sem Fragment Fragment2 Fragment2h.
From NL.Proofs Require VMStepProofs VMIndexProofs CompileCorrectH5.
From NL.Spec Require Import Sem Fragment Fragment2 Fragment2h Fragment3 Fragment4.
From NL.Proofs Require CompileCorrectJ9 CompileCorrectJ10.
Import VMStepProofs VMIndexProofs.
Open Scope Z_scope.

(* index normalisation: from the front for i >= 0, from the back for negative i, index error otherwise (for every index the language can represent; the lower bound is shown necessary) *)
Theorem norm_index_spec : forall z len : Z, 0 <= len -> - WORD <= z -> norm_index z len = (if VMIndexProofs.in_range z len then Ok (VMIndexProofs.norm z len) else Err EIndexError).
Proof. exact VMIndexProofs.norm_index_spec. Qed.

(* reading an array element *)
Theorem index_get_array_ok : forall (s : vm) (l : positive) (vs : list val) (z : Z), get_arr (v_heap s) l = Ok vs -> - WORD <= z -> VMIndexProofs.in_range z (zlength vs) = true -> exists v : val, nth_error vs (Z.to_nat (VMIndexProofs.norm z (zlength vs))) = Some v /\ index_get s (VArr l) (VInt z) = Ok (push v s).
Proof. exact VMIndexProofs.index_get_array_ok. Qed.

(* reading a string yields a fresh one-character string holding the i-th CODE POINT *)
Theorem index_get_string_ok : forall (s : vm) (l : positive) (t : text) (z : Z), get_str (v_heap s) l = Ok t -> - WORD <= z -> VMIndexProofs.in_range z (zlength t) = true -> exists c : cp, nth_error t (Z.to_nat (VMIndexProofs.norm z (zlength t))) = Some c /\ (let l' := next_loc (v_heap s) in let h' := snd (h_alloc (v_heap s) (OStr [c])) in index_get s (VStr l) (VInt z) = Ok (push (VStr l') (upd_heap s h' (trace (v_gc s) (VStr l')))) /\ get_str h' l' = Ok [c] /\ (forall k : positive, k <> l' -> h_get h' k = h_get (v_heap s) k) /\ (VMIndexProofs.heap_wf (v_heap s) -> l' <> l /\ h_alive (v_heap s) l' = false /\ get_str h' l = Ok t)).
Proof. exact VMIndexProofs.index_get_string_ok. Qed.

(* exactly when a read fails, and with which error *)
Theorem index_get_err_iff : forall (s : vm) (lhs idx : val) (k : errkind), wf_val idx = true -> index_get s lhs idx = Err k <-> k = ETypeError /\ ((forall z : Z, idx <> VInt z) \/ (forall l : positive, lhs <> VArr l) /\ (forall l : positive, lhs <> VStr l)) \/ k = EIndexError /\ (exists z : Z, idx = VInt z /\ ((exists (l : positive) (vs : list val), lhs = VArr l /\ get_arr (v_heap s) l = Ok vs /\ VMIndexProofs.in_range z (zlength vs) = false) \/ (exists (l : positive) (t : text), lhs = VStr l /\ get_str (v_heap s) l = Ok t /\ VMIndexProofs.in_range z (zlength t) = false))).
Proof. exact VMIndexProofs.index_get_err_iff. Qed.

(* a successful array write changes exactly that element of exactly that heap object *)
Theorem index_set_array_ok : forall (s : vm) (l : positive) (vs : list val) (z : Z) (value : val), get_arr (v_heap s) l = Ok vs -> - WORD <= z -> VMIndexProofs.in_range z (zlength vs) = true -> let i := Z.to_nat (VMIndexProofs.norm z (zlength vs)) in let h' := VMIndexProofs.set_cell (v_heap s) l (OArr (replace_nth i value vs)) in index_set s (VArr l) (VInt z) value = Ok (push value (upd_heap s h' (v_gc s))) /\ get_arr h' l = Ok (replace_nth i value vs) /\ (forall k : positive, k <> l -> h_get h' k = h_get (v_heap s) k) /\ nth_error (replace_nth i value vs) i = Some value /\ (forall j : nat, j <> i -> nth_error (replace_nth i value vs) j = nth_error vs j) /\ length (replace_nth i value vs) = length vs.
Proof. exact VMIndexProofs.index_set_array_ok. Qed.

(* a string write replaces the i-th character by the whole stored text *)
Theorem index_set_string_ok : forall (s : vm) (l : positive) (t : text) (z : Z) (k : positive) (repl : text), get_str (v_heap s) l = Ok t -> - WORD <= z -> VMIndexProofs.in_range z (zlength t) = true -> get_str (v_heap s) k = Ok repl -> let n := Z.to_nat (VMIndexProofs.norm z (zlength t)) in let t' := firstn n t ++ repl ++ skipn (S n) t in let h' := VMIndexProofs.set_cell (v_heap s) l (OStr t') in index_set s (VStr l) (VInt z) (VStr k) = Ok (push (VStr k) (upd_heap s h' (v_gc s))) /\ get_str h' l = Ok t' /\ (forall j : positive, j <> l -> h_get h' j = h_get (v_heap s) j) /\ zlength t' = zlength t - 1 + zlength repl.
Proof. exact VMIndexProofs.index_set_string_ok. Qed.

(* ... read BEFORE the target is modified, also when source and target are the same object *)
Theorem index_set_string_self : forall (s : vm) (l : positive) (t : text) (z : Z), get_str (v_heap s) l = Ok t -> - WORD <= z -> VMIndexProofs.in_range z (zlength t) = true -> let n := Z.to_nat (VMIndexProofs.norm z (zlength t)) in let t' := firstn n t ++ t ++ skipn (S n) t in index_set s (VStr l) (VInt z) (VStr l) = Ok (push (VStr l) (upd_heap s (VMIndexProofs.set_cell (v_heap s) l (OStr t')) (v_gc s))) /\ get_str (VMIndexProofs.set_cell (v_heap s) l (OStr t')) l = Ok t'.
Proof. exact VMIndexProofs.index_set_string_self. Qed.

(* exactly when a write fails (index out of range, non-integer index, non-string into a string, non-indexable base); a failed write returns no new state at all *)
Theorem set_failure_unchanged : forall (s : vm) (lhs idx value : val) (k : errkind), wf_val idx = true -> index_set s lhs idx value = Err k <-> VMIndexProofs.set_error s lhs idx value k.
Proof. exact VMIndexProofs.set_failure_unchanged. Qed.

(* a write touches nothing but that heap cell and the pushed value *)
Theorem index_set_frame : forall (s : vm) (lhs idx value : val) (s' : vm), index_set s lhs idx value = Ok s' -> exists (l : positive) (o : obj), (lhs = VArr l \/ lhs = VStr l) /\ v_heap s' = VMIndexProofs.set_cell (v_heap s) l o /\ v_stack s' = value :: v_stack s /\ v_slen s' = v_slen s + 1 /\ v_globals s' = v_globals s /\ v_frames s' = v_frames s /\ v_ip s' = v_ip s /\ v_bp s' = v_bp s /\ v_final s' = v_final s /\ v_gc s' = v_gc s /\ v_out s' = v_out s.
Proof. exact VMIndexProofs.index_set_frame. Qed.

(* aliases see each other's writes *)
Theorem alias_sees_write : forall (s : vm) (l : positive) (z : Z) (value : val) (s' : vm), - WORD <= z -> index_set s (VArr l) (VInt z) value = Ok s' -> index_get s' (VArr l) (VInt z) = Ok (push value s').
Proof. exact VMIndexProofs.alias_sees_write. Qed.

(* ... also through globals *)
Theorem alias_sees_write_globals : forall (s : vm) (g1 g2 : nat) (l : positive) (z : Z) (value : val) (s' : vm), - WORD <= z -> nth g1 (v_globals s) VNull = VArr l -> nth g2 (v_globals s) VNull = VArr l -> index_set s (nth g1 (v_globals s) VNull) (VInt z) value = Ok s' -> nth g2 (v_globals s') VNull = VArr l /\ index_get s' (nth g2 (v_globals s') VNull) (VInt z) = Ok (push value s').
Proof. exact VMIndexProofs.alias_sees_write_globals. Qed.

(* no operation of the machine copies an array or string implicitly: GetGlobal *)
Theorem getglobal_no_copy : forall (orc : oracle) (prog : program) (s : vm) (lo hi : Z) (r : list Z), VMStepProofs.code_at prog (v_ip s) (byte_of_opcode OGetGlobal :: lo :: hi :: r) -> step orc prog s = Ok (Continue (upd_ip (push (nth (Z.to_nat (lo + 256 * hi)) (v_globals s) VNull) s) (v_ip s + 3))).
Proof. exact VMIndexProofs.getglobal_no_copy. Qed.

(* SetGlobal *)
Theorem setglobal_no_copy : forall (orc : oracle) (prog : program) (s : vm) (lo hi : Z) (r : list Z) (v : val) (st : list val), VMStepProofs.code_at prog (v_ip s) (byte_of_opcode OSetGlobal :: lo :: hi :: r) -> v_stack s = v :: st -> exists s' : vm, step orc prog s = Ok (Continue s') /\ nth (Z.to_nat (lo + 256 * hi)) (v_globals s') VNull = v /\ (forall j : nat, j <> Z.to_nat (lo + 256 * hi) -> nth j (v_globals s') VNull = nth j (v_globals s) VNull) /\ v_stack s' = st /\ v_heap s' = v_heap s /\ v_gc s' = v_gc s.
Proof. exact VMIndexProofs.setglobal_no_copy. Qed.

(* SetLocal *)
Theorem setlocal_no_copy : forall (orc : oracle) (prog : program) (s : vm) (lo hi : Z) (r : list Z) (v : val) (st : list val) (s' : vm), VMStepProofs.code_at prog (v_ip s) (byte_of_opcode OSetLocal :: lo :: hi :: r) -> v_stack s = v :: st -> v_slen s = zlength (v_stack s) -> 0 <= v_bp s + (lo + 256 * hi) -> step orc prog s = Ok (Continue s') -> get_local (lo + 256 * hi) s' = Ok v /\ v_heap s' = v_heap s /\ v_globals s' = v_globals s /\ length (v_stack s') = length st.
Proof. exact VMIndexProofs.setlocal_no_copy. Qed.

(* Const of a non-string constant *)
Theorem const_no_copy : forall (orc : oracle) (prog : program) (s : vm) (lo hi : Z) (r : list Z) (k : val), VMStepProofs.code_at prog (v_ip s) (byte_of_opcode OConst :: lo :: hi :: r) -> get_const prog (lo + 256 * hi) = Ok k -> (forall l : positive, k <> VStr l) -> step orc prog s = Ok (Continue (upd_ip (push k s) (v_ip s + 3))).
Proof. exact VMIndexProofs.const_no_copy. Qed.

(* Array construction stores the very values popped *)
Theorem array_no_copy : forall (orc : oracle) (prog : program) (s : vm) (lo hi : Z) (r : list Z) (elems_rev rest : list val), VMStepProofs.code_at prog (v_ip s) (byte_of_opcode OArray :: lo :: hi :: r) -> v_stack s = elems_rev ++ rest -> zlength elems_rev = lo + 256 * hi -> let l := next_loc (v_heap s) in let h' := snd (h_alloc (v_heap s) (OArr (rev elems_rev))) in step orc prog s = Ok (Continue (push (VArr l) (upd_heap (upd_stack (upd_ip s (v_ip s + 3)) rest (v_slen s - (lo + 256 * hi))) h' (trace (v_gc s) (VArr l))))) /\ get_arr h' l = Ok (rev elems_rev).
Proof. exact VMIndexProofs.array_no_copy. Qed.

(* lengte of a string is its number of code points, not bytes *)
Theorem length_chars : forall (h : heap) (l : positive) (t : text), get_str h l = Ok t -> call_length h [VStr l] = Ok (VInt (zlength t), h).
Proof. exact VMIndexProofs.length_chars. Qed.

(* lengte of an array is its number of elements *)
Theorem length_elements : forall (h : heap) (l : positive) (vs : list val), get_arr h l = Ok vs -> call_length h [VArr l] = Ok (VInt (zlength vs), h).
Proof. exact VMIndexProofs.length_elements. Qed.

(* SOURCE level (fragment F2h: top-level programs with arrays, strings, floats, indexing, index assignment, builtins): the value graph - including WHICH variables and elements share one object - the output and the error kind computed by the machine are those the definitional semantics assigns to the tree *)
Theorem compile_correct_F2h : forall (orc : oracle) (p : block), in_F2h p = true -> ends_expr p = true -> lits_exact (lits_b p) -> forall bc : bytecode, compile p = Ok bc -> forall fuel : nat, (size2h_b p <= fuel)%nat -> sem_program orc fuel p <> SemFuel -> sem_small orc fuel p (length (b_constants bc)) -> exists budget : nat, obs_eq_h (run_program orc bc budget) (sem_program orc fuel p).
Proof. exact CompileCorrectH5.compile_correct_F2h. Qed.

(* two variables name one array in the semantics iff their slots hold one array object on the machine *)
Theorem alias_same_on_both_sides : forall (K : Z) (pl : list (const * val)) (holes : list nat) (ds : CompileCorrectB.decls) (R : loc_rel) (sst : sstate) (m : CompileCorrectH1.hst) (i j : nat) (y1 : text) (c1 : positive) (y2 : text) (c2 l1 l2 l1' l2' : positive) (vs : list val), CompileCorrectH4.RelS K pl holes ds R sst m -> nth_error ds i = Some (y1, c1) -> nth_error ds j = Some (y2, c2) -> ~ In i holes -> ~ In j holes -> get_cell c1 sst = VArr l1 -> get_cell c2 sst = VArr l2 -> nth i (CompileCorrectH1.hs_gl m) VNull = VArr l1' -> nth j (CompileCorrectH1.hs_gl m) VNull = VArr l2' -> get_arr (CompileCorrectH1.hs_heap m) l1' = Ok vs -> l1 = l2 <-> l1' = l2'.
Proof. exact CompileCorrectH5.alias_same_on_both_sides. Qed.

(* semantics: a write through one reference is read back through any reference to the same array *)
Theorem alias_through_variables : forall (st : sstate) (l : positive) (z : Z) (v : val) (st' : sstate) (vs : list val), get_arr (st_heap st) l = Ok vs -> sem_index_set st (VArr l) (VInt z) v = ROk v st' -> sem_index_get st' (VArr l) (VInt z) = ROk v st'.
Proof. exact CompileCorrectH5.alias_through_variables. Qed.

(* the index rule of the semantics (spec_index) and of the machine (norm_index) coincide: 0..len-1 from the front, -1..-len from the back, anything else an index error *)
Theorem index_rule_source : forall z len : Z, 0 <= len -> MIN_INT <= z -> (0 <= z < len -> spec_index z len = Some (Z.to_nat z) /\ norm_index z len = Ok z) /\ (- len <= z < 0 -> spec_index z len = Some (Z.to_nat (len + z)) /\ norm_index z len = Ok (len + z)) /\ (z < - len \/ len <= z -> spec_index z len = None /\ norm_index z len = Err EIndexError).
Proof. exact CompileCorrectH5.index_rule_source. Qed.

(* indexing related values in related heaps gives related results (or the same error) *)
Theorem index_get_agrees : forall (K : Z) (pl : list (const * val)) (holes : list nat) (ds : CompileCorrectB.decls) (R : loc_rel) (sst : sstate) (m : CompileCorrectH1.hst) (base base' idx idx' : val), CompileCorrectH4.RelS K pl holes ds R sst m -> CompileCorrectH4.Pval R base base' -> CompileCorrectH4.Pval R idx idx' -> CompileCorrectH4.corr K pl holes ds R (sem_index_get sst base idx) (CompileCorrectH2.hlift_o m (CompileCorrectH1.h_index_get m base' idx')).
Proof. exact CompileCorrectH5.index_get_agrees. Qed.

(* semantics: a failed index assignment changes nothing *)
Theorem failed_write_leaves_sequence_unchanged : forall (st : sstate) (base idx v : val) (k : errkind) (st' : sstate), sem_index_set st base idx v = RErr k st' -> st' = st.
Proof. exact CompileCorrectH5.failed_write_leaves_sequence_unchanged. Qed.

(* machine: a failed index assignment produces no output and stops *)
Theorem failed_write_machine : forall (m : CompileCorrectH1.hst) (lhs idx v : val) (k : errkind) (out : text), CompileCorrectH2.hlift_o m (CompileCorrectH1.h_index_set m lhs idx v) = CompileCorrectH2.HErr k out -> out = CompileCorrectH1.hs_out m.
Proof. exact CompileCorrectH5.failed_write_machine. Qed.

(* SOURCE level, WHOLE language outside the exclusions of DESIGN 4.3 (functions, heap values, builtins together, collector running): the compiled program computes exactly what the definitional semantics assigns to the tree - which decides this property for every such program of the model *)
Theorem compile_correct_F4 : forall (orc : oracle) (p : block), in_F4 p = true -> ends_expr p = true -> lits_exact (lits_b p) -> forall bc : bytecode, compile p = Ok bc -> forall fuel : nat, (size3_b p <= fuel)%nat -> sem_program orc fuel p <> SemFuel -> sem_small orc fuel p (length (b_constants bc)) -> (exists budget : nat, obs_eq4 (run_program orc bc budget) (sem_program orc fuel p)) \/ hits_excluded4 (CompileCorrectJ5.fun_table p) orc bc.
Proof. exact CompileCorrectJ9.compile_correct_F4. Qed.

(* an array passed to a function and modified there is modified for the caller: across a call every box keeps its partner with related contents *)
Theorem arrays_shared_across_calls : forall (orc : oracle) (K : Z) (pl : list (const * val)) (Bd : Z), Bd + K + 1 < 2 ^ 60 -> forall (f : nat) (fv fv' : val) (vs vs' : list val) (yS yM : CompileCorrectJ2.yst) (R : loc_rel) (v : val) (y3 : CompileCorrectJ2.yst), CompileCorrectJ6.vrm R fv fv' -> Forall2 (CompileCorrectJ6.vrm R) vs vs' -> CompileCorrectJ7.YR K pl R yS yM -> CompileCorrectJ2.ycall orc CompileCorrectJ2.lit_fresh f fv vs yS = CompileCorrectJ2.YOk v y3 -> CompileCorrectJ3.yn y3 <= Bd -> exists (v' : val) (y3' : CompileCorrectJ2.yst) (R' : loc_rel), CompileCorrectJ2.ycall orc (CompileCorrectJ2.lit_pool pl) f fv' vs' yM = CompileCorrectJ2.YOk v' y3' /\ CompileCorrectH3.rel_incl R R' /\ CompileCorrectJ6.vrm R' v v' /\ CompileCorrectJ7.YR K pl R' y3 y3' /\ (forall l l' : positive, R l l' -> exists o o' : obj, h_get (CompileCorrectH1.hs_heap (CompileCorrectJ2.y_m y3)) l = Ok o /\ h_get (CompileCorrectH1.hs_heap (CompileCorrectJ2.y_m y3')) l' = Ok o' /\ CompileCorrectJ6.orm R' o o').
Proof. exact CompileCorrectJ10.arrays_shared_across_calls. Qed.

(* under the correspondence two references name one array in the semantics iff they name one array on the machine *)
Theorem alias_same_F4 : forall (R : loc_rel) (hs hm : heap) (l1 l2 l1' l2' : positive) (vs : list val), graph_rel4 R hs hm -> R l1 l1' -> R l2 l2' -> get_arr hm l1' = Ok vs -> l1 = l2 <-> l1' = l2'.
Proof. exact CompileCorrectJ10.alias_same_F4. Qed.


Print Assumptions norm_index_spec.
Print Assumptions index_get_array_ok.
Print Assumptions index_get_string_ok.
Print Assumptions index_get_err_iff.
Print Assumptions index_set_array_ok.
Print Assumptions index_set_string_ok.
Print Assumptions index_set_string_self.
Print Assumptions set_failure_unchanged.
Print Assumptions index_set_frame.
Print Assumptions alias_sees_write.
Print Assumptions alias_sees_write_globals.
Print Assumptions getglobal_no_copy.
Print Assumptions setglobal_no_copy.
Print Assumptions setlocal_no_copy.
Print Assumptions const_no_copy.
Print Assumptions array_no_copy.
Print Assumptions length_chars.
Print Assumptions length_elements.
Print Assumptions compile_correct_F2h.
Print Assumptions alias_same_on_both_sides.
Print Assumptions alias_through_variables.
Print Assumptions index_rule_source.
Print Assumptions index_get_agrees.
Print Assumptions failed_write_leaves_sequence_unchanged.
Print Assumptions failed_write_machine.
Print Assumptions compile_correct_F4.
Print Assumptions arrays_shared_across_calls.
Print Assumptions alias_same_F4.
