(* C03 - a value that is still reachable is never reclaimed. Property theorems only. Part 1: the collector (gc.rs; proofs/GCProofs.v) for every heap, managed set and root list, cyclic and shared structure included. Part 2: the whole machine (spec/VMInv.v, proofs/VMGCProofs.v): an invariant of ALL reachable VM states under which every value the machine can still use is alive, well-typed and managed, and every collection point keeps everything reachable. *)
From NL.Model Require Import VM.
From NL.Spec Require Import GCInv VMInv.
From NL.Proofs Require GCProofs VMGCProofs.
From NL.Spec Require Import Sem Fragment Fragment2 Fragment2h Fragment3 Fragment4.
From NL.Proofs Require CompileCorrectJ9 CompileCorrectJ10.
Open Scope Z_scope.

(* a collection never gets stuck, never frees twice, never visits a released box; the mark recursion's fuel is never exhausted *)
Theorem run_no_fault : forall (h : heap) (g : gc) (roots : list val), GCInv h g -> roots_managed g roots -> roots_ok h roots -> exists (g' : gc) (h' : heap), gc_run h g roots = Ok (g', h').
Proof. exact GCProofs.run_no_fault. Qed.

(* THE collector property: everything reachable from the roots stays allocated and unchanged *)
Theorem run_preserves_reachable : forall (h : heap) (g : gc) (roots : list val) (g' : gc) (h' : heap), GCInv h g -> roots_managed g roots -> roots_ok h roots -> gc_run h g roots = Ok (g', h') -> forall l : positive, reach h roots l -> PM.find l (cells h') = PM.find l (cells h) /\ h_alive h' l = true.
Proof. exact GCProofs.run_preserves_reachable. Qed.

(* boxes this collector does not manage are never touched *)
Theorem run_leaves_unmanaged : forall (h : heap) (g : gc) (roots : list val) (g' : gc) (h' : heap), GCInv h g -> roots_managed g roots -> gc_run h g roots = Ok (g', h') -> forall l : positive, ~ managed g l -> PM.find l (cells h') = PM.find l (cells h).
Proof. exact GCProofs.run_leaves_unmanaged. Qed.

(* the invariant survives, so the next collection is covered too *)
Theorem run_keeps_invariant : forall (h : heap) (g : gc) (roots : list val) (g' : gc) (h' : heap), GCInv h g -> roots_managed g roots -> roots_ok h roots -> gc_run h g roots = Ok (g', h') -> GCInv h' g'.
Proof. exact GCProofs.run_keeps_invariant. Qed.

(* the mark phase terminates on cycles *)
Theorem mark_fuel_suffices : forall (h : heap) (g : gc) (roots : list val), GCInv h g -> roots_managed g roots -> roots_ok h roots -> forall bits0 : list bool, bits0 = repeat_val false (length (objects g)) -> exists bits : list bool, fold_left (fun (acc : outcome (list bool)) (r : val) => do b <- acc; mark_fuel (S (length (objects g))) h (objects g) b r) roots (Ok bits0) = Ok bits.
Proof. exact GCProofs.mark_fuel_suffices. Qed.

(* MACHINE level: the invariant holds when a run starts *)
Theorem vm_inv_initial : forall (code : list Z) (ks : list const) (consts : list val) (h0 : heap), load_consts ks empty_heap = (consts, h0) -> VMInv {| p_code := code; p_consts := consts |} (vm_start vm_new consts h0).
Proof. exact VMGCProofs.vm_inv_initial. Qed.

(* ... and is preserved by every instruction (all 45 opcodes): in every reachable state every value in the stack, the globals, the constants and the last statement value is alive, of the right kind and managed - root completeness *)
Theorem vm_inv_step : forall (orc : oracle) (prog : program) (s s' : vm), VMInv prog s -> step orc prog s = Ok (Continue s') -> VMInv prog s'.
Proof. exact VMGCProofs.vm_inv_step. Qed.

(* so no program ever observes a freed or recycled object and nothing is released twice *)
Theorem vm_no_heap_fault : forall (orc : oracle) (prog : program) (s : vm), VMInv prog s -> addr_bounded s -> forall f : fault, step orc prog s = Fault f -> non_heap_fault f.
Proof. exact VMGCProofs.vm_no_heap_fault. Qed.

(* ... for whole runs of the pipeline *)
Theorem run_no_heap_fault : forall (orc : oracle) (bc : bytecode) (n : nat) (r : outcome val) (out : text) (steps : nat) (oh : outcome heap), run_program orc bc n = {| o_result := r; o_out := out; o_steps := steps; o_heap := oh |} -> Z.of_nat (length (b_constants bc)) + Z.of_nat n + 1 < 2 ^ 60 -> forall f : fault, r = Fault f -> non_heap_fault f.
Proof. exact VMGCProofs.run_no_heap_fault. Qed.

(* at both collection points (Return, ReturnValue) every location reachable from what the machine keeps is unchanged and alive afterwards *)
Theorem vm_collect_preserves : forall (orc : oracle) (prog : program) (s s' : vm), VMInv prog s -> at_return prog s -> step orc prog s = Ok (Continue s') -> forall l : positive, reach (v_heap s) (vm_vals prog s') l -> PM.find l (cells (v_heap s')) = PM.find l (cells (v_heap s)) /\ h_alive (v_heap s') l = true.
Proof. exact VMGCProofs.vm_collect_preserves. Qed.

(* a collection point never runs out of fuel or errs *)
Theorem vm_return_total : forall (orc : oracle) (prog : program) (s : vm), VMInv prog s -> at_return prog s -> (exists s' : vm, step orc prog s = Ok (Continue s')) \/ (exists f : fault, step orc prog s = Fault f /\ non_heap_fault f).
Proof. exact VMGCProofs.vm_return_total. Qed.

(* the invariant along whole runs, any budget *)
Theorem vm_inv_run_loop : forall (orc : oracle) (prog : program) (n : nat) (s : vm) (r : outcome val) (s' : vm) (k : nat), VMInv prog s -> run_loop orc prog n s = (r, s', k) -> match r with | Ok v => VMGCProofs.halted_at prog v s' | _ => VMInv prog s' end.
Proof. exact VMGCProofs.vm_inv_run_loop. Qed.

(* SOURCE level, whole language (in_F4): every box the program's value reaches in the semantics' heap has a related box that is ALIVE, with related contents, in the heap the machine leaves behind - although a collection ran at every function return and the collector was dropped at the end *)
Theorem reachable_never_reclaimed_source : forall (orc : oracle) (p : block), in_F4 p = true -> ends_expr p = true -> lits_exact (lits_b p) -> forall bc : bytecode, compile p = Ok bc -> forall fuel : nat, (size3_b p <= fuel)%nat -> sem_small orc fuel p (length (b_constants bc)) -> forall (v : val) (hs : heap) (out : text), sem_program orc fuel p = SemValue v hs out -> (exists (budget : nat) (v' : val) (hm : heap) (R : loc_rel), o_result (run_program orc bc budget) = Ok v' /\ o_heap (run_program orc bc budget) = Ok hm /\ val_rel4 R v v' /\ graph_rel4 R hs hm /\ (forall l : positive, reach hs [v] l -> exists (l' : positive) (o o' : obj), R l l' /\ h_alive hm l' = true /\ h_get hs l = Ok o /\ h_get hm l' = Ok o' /\ obj_rel4 R o o')) \/ hits_excluded4 (CompileCorrectJ5.fun_table p) orc bc.
Proof. exact CompileCorrectJ10.reachable_never_reclaimed_source. Qed.

(* and during the run no program observes a freed or recycled object: the machine with its collector computes what the collection-free semantics computes *)
Theorem compile_correct_F4 : forall (orc : oracle) (p : block), in_F4 p = true -> ends_expr p = true -> lits_exact (lits_b p) -> forall bc : bytecode, compile p = Ok bc -> forall fuel : nat, (size3_b p <= fuel)%nat -> sem_program orc fuel p <> SemFuel -> sem_small orc fuel p (length (b_constants bc)) -> (exists budget : nat, obs_eq4 (run_program orc bc budget) (sem_program orc fuel p)) \/ hits_excluded4 (CompileCorrectJ5.fun_table p) orc bc.
Proof. exact CompileCorrectJ9.compile_correct_F4. Qed.


Print Assumptions run_no_fault.
Print Assumptions run_preserves_reachable.
Print Assumptions run_leaves_unmanaged.
Print Assumptions run_keeps_invariant.
Print Assumptions mark_fuel_suffices.
Print Assumptions vm_inv_initial.
Print Assumptions vm_inv_step.
Print Assumptions vm_no_heap_fault.
Print Assumptions run_no_heap_fault.
Print Assumptions vm_collect_preserves.
Print Assumptions vm_return_total.
Print Assumptions vm_inv_run_loop.
Print Assumptions reachable_never_reclaimed_source.
Print Assumptions compile_correct_F4.
