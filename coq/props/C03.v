(* C03 - a value that is still reachable is never reclaimed.
   Property theorems only.  Part 1: the collector (gc.rs), for every heap, every managed set and
   every root list, cyclic and shared structure included.  Part 2 (VM level) is in C03vm below
   once the VM model's proofs are in place. *)
From NL.Spec Require Import GCInv.
From NL.Proofs Require GCProofs.
Open Scope Z_scope.

(* a collection never gets stuck, never frees twice, never visits a released box, and the
   recursion fuel (number of managed objects + 1) is never exhausted *)
Theorem run_no_fault : forall h g roots, GCInv h g -> roots_managed g roots -> roots_ok h roots ->
  exists g' h', gc_run h g roots = Ok (g', h').
Proof. exact GCProofs.run_no_fault. Qed.

(* THE property: everything reachable from the roots stays allocated and unchanged *)
Theorem run_preserves_reachable : forall h g roots g' h',
  GCInv h g -> roots_managed g roots -> roots_ok h roots -> gc_run h g roots = Ok (g', h') ->
  forall l, reach h roots l -> PM.find l (cells h') = PM.find l (cells h) /\ h_alive h' l = true.
Proof. exact GCProofs.run_preserves_reachable. Qed.

(* boxes this collector does not manage are never touched *)
Theorem run_leaves_unmanaged : forall h g roots g' h',
  GCInv h g -> roots_managed g roots -> gc_run h g roots = Ok (g', h') ->
  forall l, ~ managed g l -> PM.find l (cells h') = PM.find l (cells h).
Proof. exact GCProofs.run_leaves_unmanaged. Qed.

(* the invariant survives, so the next collection is covered too *)
Theorem run_keeps_invariant : forall h g roots g' h',
  GCInv h g -> roots_managed g roots -> roots_ok h roots -> gc_run h g roots = Ok (g', h') ->
  GCInv h' g'.
Proof. exact GCProofs.run_keeps_invariant. Qed.

(* the mark phase terminates on cycles: the fuel handed to it always suffices *)
Theorem mark_fuel_suffices : forall h g roots, GCInv h g -> roots_managed g roots ->
  roots_ok h roots ->
  forall bits0, bits0 = repeat_val false (length (objects g)) ->
  exists bits, fold_left (fun acc r => do b <- acc; mark_fuel (S (length (objects g))) h (objects g) b r)
                         roots (Ok bits0) = Ok bits.
Proof. exact GCProofs.mark_fuel_suffices. Qed.

Check run_preserves_reachable : forall h g roots g' h',
  GCInv h g -> roots_managed g roots -> roots_ok h roots -> gc_run h g roots = Ok (g', h') ->
  forall l, reach h roots l -> PM.find l (cells h') = PM.find l (cells h) /\ h_alive h' l = true.

Print Assumptions run_no_fault.
Print Assumptions run_preserves_reachable.
Print Assumptions run_leaves_unmanaged.
Print Assumptions run_keeps_invariant.
Print Assumptions mark_fuel_suffices.
