(* C15 - the value encoding is lossless and collision-free.
   Property theorems only: each is closed by `exact` of a lemma from proofs/WordProofs.v,
   pinned by `Check`, and followed by Print Assumptions (parsed by ./check). *)
From NL.Model Require Import Ops.
From NL.Spec Require Import EqSpec.
From NL.Proofs Require WordProofs.
Open Scope Z_scope.

(* every integer of the 61-bit range is read back as written, with the right type *)
Theorem int_roundtrip : forall z, MIN_INT <= z <= MAX_INT ->
  w_as_int (w_int z) = z /\ w_tag (w_int z) = Some TInt /\ is_word (w_int z).
Proof. exact WordProofs.int_roundtrip. Qed.

(* ... and the range is tight: outside it the round trip fails (so C06's range check is exact) *)
Theorem int_range_tight : forall z, is_isize z -> w_as_int (w_int z) = z -> MIN_INT <= z <= MAX_INT.
Proof. exact WordProofs.int_range_tight. Qed.

Theorem int_limits : MAX_INT = 2 ^ 60 - 1 /\ MIN_INT = - 2 ^ 60.
Proof. exact WordProofs.int_limits. Qed.

Theorem bool_roundtrip : forall b, w_as_bool (w_bool b) = b /\ w_tag (w_bool b) = Some TBool.
Proof. exact WordProofs.bool_roundtrip. Qed.

Theorem null_tag : w_tag w_null = Some TNull.
Proof. exact WordProofs.null_tag. Qed.

(* any entry offset up to 2^32-1 and any local count up to 65535 *)
Theorem function_roundtrip : forall ip n, 0 <= ip < 2 ^ 32 -> 0 <= n < 2 ^ 16 ->
  w_as_function (w_function ip n) = (ip, n) /\ w_tag (w_function ip n) = Some TFunction
  /\ is_word (w_function ip n).
Proof. exact WordProofs.function_roundtrip. Qed.

(* heap values: any aligned address, any of the three heap tags *)
Theorem ptr_roundtrip : forall a t, aligned_addr a -> is_heap_tag t = true ->
  w_as_ptr (w_heap a t) = a /\ w_tag (w_heap a t) = Some t /\ w_is_heap (w_heap a t) = true.
Proof. exact WordProofs.ptr_roundtrip. Qed.

(* the type is always reported correctly; the transmute in tag() never sees an invalid byte *)
Theorem tag_valid : forall v, wf_val v = true -> w_tag (encode v) = Some (val_tag v).
Proof. exact WordProofs.tag_valid. Qed.

Theorem is_heap_iff : forall v, wf_val v = true -> w_is_heap (encode v) = is_heap_val v.
Proof. exact WordProofs.is_heap_iff. Qed.

(* lossless: every value that can be created is read back exactly as written *)
Theorem decode_encode : forall v, wf_val v = true -> decode (encode v) = Some v.
Proof. exact WordProofs.decode_encode. Qed.

(* collision-free *)
Theorem encode_injective : forall v1 v2, wf_val v1 = true -> wf_val v2 = true ->
  encode v1 = encode v2 -> v1 = v2.
Proof. exact WordProofs.encode_injective. Qed.

Theorem eq_agrees : forall h a b, wf_val a = true -> wf_val b = true ->
  val_tag a = val_tag b -> val_tag a <> TArray ->
  w_eq (deref_heap h) (val_tag a) (encode a) (encode b) = content_eq h a b.
Proof. exact WordProofs.eq_agrees. Qed.

Theorem text_eqb_iff : forall a b : text, text_eqb a b = true <-> a = b.
Proof. exact WordProofs.text_eqb_iff. Qed.

(* values of different type never compare equal: the word-level comparison methods reject them *)
Theorem different_types_rejected : forall h sym ordering a b,
  wf_val a = true -> wf_val b = true -> val_tag a <> val_tag b ->
  w_cmp (deref_heap h) sym ordering (encode a) (encode b) = WErr ETypeError
  /\ encode a <> encode b.
Proof. exact WordProofs.different_types_rejected. Qed.

(* non-vacuity: the hypotheses are met by non-trivial values *)
Example wf_examples :
  wf_val (VInt MIN_INT) = true /\ wf_val (VInt MAX_INT) = true
  /\ wf_val (VFun 4294967295 65535) = true /\ wf_val (VArr 12345) = true.
Proof. vm_compute. repeat split. Qed.

Check int_roundtrip : forall z, MIN_INT <= z <= MAX_INT ->
  w_as_int (w_int z) = z /\ w_tag (w_int z) = Some TInt /\ is_word (w_int z).
Check decode_encode : forall v, wf_val v = true -> decode (encode v) = Some v.
Check encode_injective : forall v1 v2, wf_val v1 = true -> wf_val v2 = true ->
  encode v1 = encode v2 -> v1 = v2.

Print Assumptions int_roundtrip.
Print Assumptions int_range_tight.
Print Assumptions int_limits.
Print Assumptions bool_roundtrip.
Print Assumptions null_tag.
Print Assumptions function_roundtrip.
Print Assumptions ptr_roundtrip.
Print Assumptions tag_valid.
Print Assumptions is_heap_iff.
Print Assumptions decode_encode.
Print Assumptions encode_injective.
Print Assumptions eq_agrees.
Print Assumptions text_eqb_iff.
Print Assumptions different_types_rejected.
