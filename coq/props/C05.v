(* C05 - every failure is an error value: no input crashes or hangs the interpreter. Property theorems only (proofs in proofs/ParserTermination.v). Front end: for EVERY token list the parser terminates within the fuel the model gives it and never panics; for EVERY text the lexer consumes its whole input with strictly increasing offsets. The compiler is structurally recursive on the tree (no fuel: termination by Coq's guard). MACHINE (proofs/VMTotal.v, VMTotalB.v): under the conjunction of the verifier invariant (C02), the collector invariant (C03) and an integer-range invariant, a step never yields ANY fault; hence eval_total: for every text, evaluation is a value, one of the documented error kinds, or the budget/display-depth exit - never a panic - and the compiler always emits certifiable code (compile_certifies, C02): eval_never_panics. *)
From NL.Model Require Import Parser Pipeline.
From NL.Spec Require Import Printer Verify VMInv.
From NL.Proofs Require ParserTermination CompilerTotal VMTotal VMTotalB EvalTotal.


(* THE property at model level, unconditional in the program: for EVERY input text and budget, evaluation is a front-end error VALUE, or a run whose result is a value, an error kind or out-of-fuel (budget, or display of an array nested deeper than the bound: D26) - never a panic/fault of any kind (hypotheses: str::parse::<f64> accepts digits.digits; fewer than 2^60 allocations) *)
Theorem eval_never_panics : forall (u : unicode) (orc : oracle) (src : text) (budget : nat), (forall s : text, CompilerTotal.float_shape s -> parse_float orc s <> None) -> (forall bc : bytecode, front u orc src = Ok bc -> Z.of_nat (length (b_constants bc)) + Z.of_nat budget + 1 < 2 ^ 60) -> match eval u orc src budget with | FrontError r => exists k : errkind, r = Err k | Ran _ o => match o_result o with | Fault _ => False | _ => True end end.
Proof. exact EvalTotal.eval_never_panics. Qed.

(* parsing terminates: the fuel the model hands the Pratt parser (linear in the number of tokens) is never exhausted, for every token list whatsoever and every float oracle. (The pinned tree violated this: `functie (` looped forever.) *)
Theorem parse_terminates : forall (pf : text -> option float) (ts : list token), parse_tokens pf ts <> OutOfFuel.
Proof. exact ParserTermination.parse_terminates. Qed.

(* the sharper linear bound 3n+6 *)
Theorem parse_terminates_bound : forall (pf : text -> option float) (ts : list token) (fuel : nat), (3 * length ts + 6 <= fuel)%nat -> parse_program pf fuel ts <> OutOfFuel.
Proof. exact ParserTermination.parse_terminates_bound. Qed.

(* ... whose slope cannot be lowered: n opening brackets need more than 3n+2 *)
Theorem parse_fuel_tight : forall (pf : text -> option float) (n : nat), n <> 0%nat -> parse_program pf (3 * n + 2) (repeat (TFix KOpenBracket) n) = OutOfFuel.
Proof. exact ParserTermination.parse_fuel_tight. Qed.

(* no token list makes the parser panic, provided every float token is accepted by str::parse::<f64> (the lexer only produces digits[.digits] there) *)
Theorem parse_no_panic : forall (pf : text -> option float) (ts : list token), (forall s : text, In (TFloatLit s) ts -> pf s <> None) -> forall f : fault, parse_tokens pf ts <> Fault f.
Proof. exact ParserTermination.parse_no_panic. Qed.

(* so the parser returns a tree or one of the documented error kinds *)
Theorem parse_total : forall (pf : text -> option float) (ts : list token), (forall s : text, In (TFloatLit s) ts -> pf s <> None) -> (exists b : block, parse_tokens pf ts = Ok b) \/ (exists k : errkind, parse_tokens pf ts = Err k).
Proof. exact ParserTermination.parse_total. Qed.

(* converse: the float conversion is the only possible panic site *)
Theorem parse_fault_only_float : forall (pf : text -> option float) (ts : list token) (x : fault), parse_tokens pf ts = Fault x -> exists s : text, In (TFloatLit s) ts /\ pf s = None.
Proof. exact ParserTermination.parse_fault_only_float. Qed.

(* every expression consumes at least one token (progress of all five loops of parser.rs) *)
Theorem parse_expr_consumes : forall (pf : text -> option float) (f : nat) (p : prec) (ts : list token) (e : expr) (ts' : list token), parse_expr pf f p ts = Ok (e, ts') -> (exists pre : list token, ts = pre ++ ts') /\ (length ts' < length ts)%nat.
Proof. exact ParserTermination.parse_expr_consumes. Qed.

(* the tokenizer always makes progress: it returns nothing only on blank input, and a token strictly shortens the input *)
Theorem next_token_total : forall (u : unicode) (s : list cp) (pos : Z), match next_token u (S (length s)) s pos with | Some (_, rest, pos') => (length rest < length s)%nat /\ pos < pos' /\ pos' + utf8_len rest = pos + utf8_len s | None => ParserTermination.blank u s end.
Proof. exact ParserTermination.next_token_total. Qed.

(* the lexer consumes its whole input: lex is a complete tokenisation ending in a blank remainder *)
Theorem lex_complete : forall (u : unicode) (s : text), ParserTermination.tokenizes u s 0 (lex u s).
Proof. exact ParserTermination.lex_complete. Qed.

(* token end offsets are strictly increasing *)
Theorem lex_offsets_increasing : forall (u : unicode) (s : text), Sorted.StronglySorted Z.lt (0 :: map snd (lex u s)).
Proof. exact ParserTermination.lex_offsets_increasing. Qed.

(* ... and lie inside the text *)
Theorem lex_offsets_bounded : forall (u : unicode) (s : text), Forall (fun p : Z => 0 < p <= utf8_len s) (map snd (lex u s)).
Proof. exact ParserTermination.lex_offsets_bounded. Qed.

(* THE front-end statement: for every text, lexing + parsing + compiling yields bytecode or one of the documented error kinds - never a panic - provided str::parse::<f64> accepts digits.digits *)
Theorem front_end_no_panic : forall (u : unicode) (orc : oracle) (src : text), (forall s : text, CompilerTotal.float_shape s -> parse_float orc s <> None) -> match front u orc src with | Ok _ | Err _ => True | _ => False end.
Proof. exact CompilerTotal.front_end_no_panic. Qed.

(* the compiler never reaches a panic site (jump patch assertion, loop-context pop, unexpected operator) on any tree in the parser's image, from any compiler state satisfying its invariant *)
Theorem compile_no_fault : forall (b : block) (st : cstate), wf_tree b = true -> CompilerTotal.code_inv st -> forall f : fault, compile_statements b st <> Fault f.
Proof. exact CompilerTotal.compile_no_fault. Qed.

(* compile returns bytecode or an error kind *)
Theorem compile_result_kinds : forall b : block, wf_tree b = true -> (exists bc : bytecode, compile b = Ok bc) \/ (exists k : errkind, compile b = Err k).
Proof. exact CompilerTotal.compile_result_kinds. Qed.

(* ... also for a retained compiler, line after line *)
Theorem compile_ast_session : forall (b : block) (st : cstate), wf_tree b = true -> c_loops st = [] -> c_loops (fst (compile_ast b st)) = [] /\ CompilerTotal.no_panic (snd (compile_ast b st)).
Proof. exact CompilerTotal.compile_ast_session. Qed.

(* eval: a front-end failure is always an error value *)
Theorem eval_front_no_panic : forall (u : unicode) (orc : oracle) (src : text) (budget : nat) (r : outcome bytecode), (forall s : text, CompilerTotal.float_shape s -> parse_float orc s <> None) -> eval u orc src budget = FrontError r -> exists k : errkind, r = Err k.
Proof. exact CompilerTotal.eval_front_no_panic. Qed.

(* float tokens have the shape digits.digits (discharges the oracle hypothesis of parse_no_panic for Rust's parser) *)
Theorem lexer_floats_shaped : forall (u : unicode) (src s : text), In (TFloatLit s) (tokens u src) -> CompilerTotal.float_shape s.
Proof. exact CompilerTotal.lexer_floats_shaped. Qed.

(* THE property at model level: for every text and budget, eval is a front-end error VALUE, or a run whose result is a value, an error kind or out-of-fuel - never a fault (hypotheses: float oracle accepts digits.digits; the compiled code has a verifier certificate; fewer than 2^60 allocations) *)
Theorem eval_total : forall (u : unicode) (orc : oracle) (src : text) (budget : nat), (forall s : text, CompilerTotal.float_shape s -> parse_float orc s <> None) -> (forall bc : bytecode, front u orc src = Ok bc -> exists c : cert, check {| p_code := b_code bc; p_consts := fst (load_consts (b_constants bc) empty_heap) |} c = true) -> (forall bc : bytecode, front u orc src = Ok bc -> Z.of_nat (length (b_constants bc)) + Z.of_nat budget + 1 < 2 ^ 60) -> match eval u orc src budget with | FrontError r => exists k : errkind, r = Err k | Ran _ o => match o_result o with | Fault _ => False | _ => True end end.
Proof. exact VMTotalB.eval_total. Qed.

(* one step from any state satisfying the three invariants: continue (invariants kept), halt, error value, or print of an array nested deeper than the display bound (D26) - never a fault *)
Theorem step_total : forall (orc : oracle) (p : program) (c : cert) (room : Z) (s : vm), check p c = true -> VMTotal.AllInv p c room s -> 1 <= room -> match step orc p s with | Ok (Continue s') => VMTotal.AllInv p c (room - 1) s' | Fault _ => False | OutOfFuel => VMTotal.print_too_deep orc p s | _ => True end.
Proof. exact VMTotal.step_total. Qed.

(* whole runs of any bytecode that has a certificate *)
Theorem run_total : forall (orc : oracle) (bc : bytecode) (budget : nat), (exists c : cert, check {| p_code := b_code bc; p_consts := fst (load_consts (b_constants bc) empty_heap) |} c = true) -> VMTotal.kints_ok (b_constants bc) -> Z.of_nat (length (b_constants bc)) + Z.of_nat budget + 1 < 2 ^ 60 -> match o_result (run_program orc bc budget) with | Fault _ => False | _ => True end.
Proof. exact VMTotal.run_total. Qed.

(* no unwrap()/overflow panic site of vm.rs / object.rs / builtins.rs is reachable *)
Theorem step_no_unwrap : forall (orc : oracle) (prog : program) (s : vm), VMInv prog s -> VMTotal.IntInv prog s -> forall f : fault, step orc prog s = Fault f -> f <> FUnwrap /\ f <> FOverflow.
Proof. exact VMTotal.step_no_unwrap. Qed.

(* the only non-budget way to run out of fuel is displaying a too deeply nested (or cyclic) array *)
Theorem step_fuel_only_print : forall (orc : oracle) (prog : program) (s : vm), VMInv prog s -> VMTotal.IntInv prog s -> step orc prog s = OutOfFuel -> VMTotal.print_too_deep orc prog s.
Proof. exact VMTotal.step_fuel_only_print. Qed.

(* every integer constant the compiler emits is in the machine's range *)
Theorem front_kints : forall (u : unicode) (orc : oracle) (src : text) (bc : bytecode), front u orc src = Ok bc -> VMTotal.kints_ok (b_constants bc).
Proof. exact VMTotalB.front_kints. Qed.

Example functie_paren_terminates : exists k, parse_tokens (fun _ => None) [TFix KFunc; TFix KOpenParen] = Err k.
Proof. eexists; vm_compute; reflexivity. Qed.
Print Assumptions eval_never_panics.
Print Assumptions parse_terminates.
Print Assumptions parse_terminates_bound.
Print Assumptions parse_fuel_tight.
Print Assumptions parse_no_panic.
Print Assumptions parse_total.
Print Assumptions parse_fault_only_float.
Print Assumptions parse_expr_consumes.
Print Assumptions next_token_total.
Print Assumptions lex_complete.
Print Assumptions lex_offsets_increasing.
Print Assumptions lex_offsets_bounded.
Print Assumptions front_end_no_panic.
Print Assumptions compile_no_fault.
Print Assumptions compile_result_kinds.
Print Assumptions compile_ast_session.
Print Assumptions eval_front_no_panic.
Print Assumptions lexer_floats_shaped.
Print Assumptions eval_total.
Print Assumptions step_total.
Print Assumptions run_total.
Print Assumptions step_no_unwrap.
Print Assumptions step_fuel_only_print.
Print Assumptions front_kints.
