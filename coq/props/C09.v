(* C09 - names resolve lexically; undeclared names are rejected before anything runs. Property theorems only; whole-compiler theorems in proofs/CompilerNames.v (proofs in proofs/SymbolsProofs.v; specification in spec/ScopeSpec.v): the symbol table of symbols.rs implements the documented lookup for ALL tables and names. *)
From NL.Model Require Import Pipeline.
From NL.Spec Require Import ScopeSpec Sem Fragment Fragment2 Fragment3.
From NL.Proofs Require SymbolsProofs CompilerNames CompileCorrectI.
From NL.Spec Require Import Sem Fragment Fragment2 Fragment2h Fragment3 Fragment4.
From NL.Proofs Require CompileCorrectJ9 CompileCorrectJ10.
Local Open Scope nat_scope.

(* resolve IS the documented lookup: last occurrence in the flattened current context (innermost scope first, latest declaration first), then the global context - for every table, no hypothesis *)
Theorem resolve_refines_lookup_all : forall (t : symtab) (x : text), resolve t x = spec_resolve t x.
Proof. exact SymbolsProofs.resolve_refines_lookup_all. Qed.

(* a declaration appends to the innermost scope, takes the next slot, is found at once, and disturbs no other name *)
Theorem define_spec : forall (t : symtab) (x : text) (t' : symtab) (s : symbol), wf_tab t -> define t x = (t', s) -> wf_tab t' /\ flat (current t') = flat (current t) ++ [x] /\ c_syms (current t') = removelast (c_syms (current t)) ++ [last (c_syms (current t)) [] ++ [x]] /\ c_max (current t') = S (c_max (current t)) /\ c_scope (current t') = c_scope (current t) /\ s_index s = length (flat (current t)) /\ s_scope s = c_scope (current t) /\ length t' = length t /\ removelast t' = removelast t /\ resolve t' x = Some s /\ (forall y : text, text_eqb y x = false -> resolve t' y = resolve t y).
Proof. exact SymbolsProofs.define_spec. Qed.

(* what resolve returns is the last occurrence of the name in the context of the symbol's kind *)
Theorem resolve_found : forall (t : symtab) (x : text) (s : symbol), wf_tab t -> resolve t x = Some s -> is_last_occ x (flat (context_of_kind t (s_scope s))) (s_index s) /\ c_scope (context_of_kind t (s_scope s)) = s_scope s /\ (s_scope s = SGlobal -> (2 <= length t)%nat -> ~ In x (flat (current t))).
Proof. exact SymbolsProofs.resolve_found. Qed.

(* two names that resolve to the same slot of the same kind are the same name: simultaneously visible declarations never share a slot *)
Theorem slots_injective : forall (t : symtab) (x y : text) (s1 s2 : symbol), wf_tab t -> resolve t x = Some s1 -> resolve t y = Some s2 -> s_scope s1 = s_scope s2 -> s_index s1 = s_index s2 -> x = y.
Proof. exact SymbolsProofs.slots_injective. Qed.

(* every slot handed out is below the context's max_size *)
Theorem slot_bound : forall (t : symtab) (x : text) (s : symbol), wf_tab t -> resolve t x = Some s -> (s_index s < c_max (context_of_kind t (s_scope s)))%nat.
Proof. exact SymbolsProofs.slot_bound. Qed.

(* ... and below the num_locals later packed into the function value (leave_context), whatever is declared in between *)
Theorem slot_below_num_locals : forall (t : symtab) (x : text) (t1 : symtab) (s : symbol) (ops : list sop) (t2 : symtab) (n : nat), wf_tab t -> define t x = (t1, s) -> alive (length t - 1) t1 ops -> length (run_ops t1 ops) = length t -> leave_context (run_ops t1 ops) = (t2, n) -> (s_index s < n)%nat.
Proof. exact SymbolsProofs.slot_below_num_locals. Qed.

(* a variable ceases to exist at the end of its block: after any balanced block body every name resolves exactly as before the block *)
Theorem enter_body_leave_resolve : forall (t : symtab) (b : list sop) (x : text), wf_tab t -> body b -> resolve (leave_scope (run_ops (enter_scope t) b)) x = resolve t x.
Proof. exact SymbolsProofs.enter_body_leave_resolve. Qed.

(* literal form: enter_scope; defines; leave_scope changes nothing but max_size *)
Theorem enter_leave_scope : forall (t : symtab) (names : list text), wf_tab t -> same_but_max (length names) t (leave_scope (fold_left (fun (t0 : symtab) (n : text) => fst (define t0 n)) names (enter_scope t))).
Proof. exact SymbolsProofs.enter_leave_scope. Qed.

(* after a function (new context, parameters, any balanced body, leave_context) the table is exactly what it was *)
Theorem function_restores : forall (t : symtab) (params : list text) (b : list sop), wf_tab t -> body b -> fst (leave_context (run_ops (fold_left (fun (t0 : symtab) (p : text) => fst (define t0 p)) params (new_context t)) b)) = t.
Proof. exact SymbolsProofs.function_restores. Qed.

(* inside a function a name resolves in the function's own context or in the global one *)
Theorem context_isolation : forall (t : symtab) (x : text) (s : symbol), wf_tab t -> (2 <= length t)%nat -> resolve t x = Some s -> s_scope s = SLocal /\ is_last_occ x (flat (current t)) (s_index s) \/ s_scope s = SGlobal /\ ~ In x (flat (current t)) /\ is_last_occ x (flat (global t)) (s_index s).
Proof. exact SymbolsProofs.context_isolation. Qed.

(* ... the contexts in between (callers, enclosing functions) are never consulted *)
Theorem resolve_skips_callers : forall (c0 : context) (mid : list context) (c : context) (x : text), resolve (c0 :: mid ++ [c]) x = resolve [c0; c] x.
Proof. exact SymbolsProofs.resolve_skips_callers. Qed.

(* a name is rejected iff it is declared neither in the current nor in the global context *)
Theorem resolve_None : forall (t : symtab) (x : text), wf_tab t -> resolve t x = None <-> ~ In x (flat (current t)) /\ ~ In x (flat (global t)).
Proof. exact SymbolsProofs.resolve_None. Qed.

(* consistent renaming: resolution commutes with any renaming that does not merge the name with another one *)
Theorem resolve_rename : forall (r : text -> text) (t : symtab) (x : text), (forall y : text, In y (tab_names t) -> r y = r x -> y = x) -> resolve (map_tab r t) (r x) = resolve t x.
Proof. exact SymbolsProofs.resolve_rename. Qed.

(* ... and so does declaration (same slots: the bytecode contains no names) *)
Theorem define_rename : forall (r : text -> text) (t : symtab) (x : text) (t' : symtab) (s : symbol), define t x = (t', s) -> define (map_tab r t) (r x) = (map_tab r t', s).
Proof. exact SymbolsProofs.define_rename. Qed.

(* a compile that failed anywhere leaves, after rollback, every name resolving as before the line (retained compiler) *)
Theorem rollback_after_open_body : forall (t : symtab) (ops : list sop), top_level t -> wf_tab t -> open_body ops -> forall x : text, resolve (rollback (run_ops t ops) (checkpoint t)) x = resolve t x.
Proof. exact SymbolsProofs.rollback_after_open_body. Qed.

(* WHOLE COMPILER, consistent renaming: renaming a variable to a fresh name gives byte-identical bytecode (same code, same constants, same error) for EVERY program *)
Theorem compile_rename_fresh : forall (a b : list cp) (p : block), a <> [] -> b <> [] -> is_builtin_name a = false -> is_builtin_name b = false -> ~ In b (CompilerNames.names_block p) -> compile (CompilerNames.rename_block (CompilerNames.subst_name a b) p) = compile p.
Proof. exact CompilerNames.compile_rename_fresh. Qed.

(* ... for every injective renaming that keeps builtin call heads and the anonymous name apart *)
Theorem compile_alpha : forall r : text -> text, (forall a b : text, r a = r b -> a = b) -> (forall x : list cp, x <> [] -> r x <> []) -> (forall x : text, is_builtin_name x = false -> is_builtin_name (r x) = false) -> forall b : block, compile (CompilerNames.rename_block r b) = compile b.
Proof. exact CompilerNames.compile_alpha. Qed.

(* ... hence the same evaluation *)
Theorem eval_rename_fresh : forall (u : unicode) (orc : oracle) (src1 src2 : text) (ast : block) (budget : nat) (a b : list cp), a <> [] -> b <> [] -> is_builtin_name a = false -> is_builtin_name b = false -> ~ In b (CompilerNames.names_block ast) -> parse u (parse_float orc) src1 = Ok ast -> parse u (parse_float orc) src2 = Ok (CompilerNames.rename_block (CompilerNames.subst_name a b) ast) -> eval u orc src2 budget = eval u orc src1 budget.
Proof. exact CompilerNames.eval_rename_fresh. Qed.

(* every program the compiler accepts is lexically well-scoped: each name resolves to a textually preceding visible declaration, stop/volgende sit in a loop of the same function, antwoord in a function (static pass of the definitional semantics; named function literals as whole statements, 4.3 item 13) *)
Theorem accepted_scoped : forall (b : block) (bc : bytecode) (fuel : nat), CompilerNames.fn_ok_block b = true -> (CompilerNames.bsize b <= fuel)%nat -> compile b = Ok bc -> static_check fuel b = None.
Proof. exact CompilerNames.accepted_scoped. Qed.

(* a program that uses an undeclared name ANYWHERE (dead code included) is never accepted *)
Theorem undeclared_rejected : forall (b : block) (fuel : nat) (k : errkind), CompilerNames.fn_ok_block b = true -> (CompilerNames.bsize b <= fuel)%nat -> static_check fuel b = Some k -> forall bc : bytecode, compile b <> Ok bc.
Proof. exact CompilerNames.undeclared_rejected. Qed.

(* ... and is rejected before anything runs: eval returns the front-end error, no instruction executes, no output *)
Theorem undeclared_never_runs : forall (u : unicode) (orc : oracle) (src : text) (budget : nat) (ast : block) (fuel : nat) (k : errkind), parse u (parse_float orc) src = Ok ast -> CompilerNames.fn_ok_block ast = true -> (CompilerNames.bsize ast <= fuel)%nat -> static_check fuel ast = Some k -> eval u orc src budget = FrontError (compile ast) /\ (forall bc : bytecode, compile ast <> Ok bc).
Proof. exact CompilerNames.undeclared_never_runs. Qed.

(* a reference error of the compiler is exactly an undeclared name of the static pass *)
Theorem reference_error_exact : forall (b : block) (fuel : nat), CompilerNames.fn_ok_block b = true -> (CompilerNames.bsize b <= fuel)%nat -> compile b = Err EReferenceError -> static_check fuel b = Some EReferenceError.
Proof. exact CompilerNames.reference_error_exact. Qed.

(* SOURCE level (fragment F3: scalars, blocks, control flow, functions): every name means what the definitional semantics' lexical scoping says - parameters and locals of the function it stands in, else the global of that name (no closures), block-local declarations shadow and end with their block, slots taken again by later declarations never change what a name means - because the compiled program computes exactly what Sem.v assigns to the tree *)
Theorem compile_correct_F3 : forall (orc : oracle) (p : block), in_F3 p = true -> ends_expr p = true -> forall bc : bytecode, compile p = Ok bc -> forall fuel : nat, (size3_b p <= fuel)%nat -> sem_program orc fuel p <> SemFuel -> (forall out : text, sem_program orc fuel p <> SemError EArgumentError out) -> (exists budget : nat, obs_eq3 (run_program orc bc budget) (sem_program orc fuel p)) \/ hits_excluded orc bc.
Proof. exact CompileCorrectI.compile_correct_F3. Qed.

(* what the compiler accepts the static pass of the semantics accepts *)
Theorem static_accepts_F3 : forall (p : block) (bc : bytecode) (fuel : nat), in_F3 p = true -> compile p = Ok bc -> (size3_b p <= fuel)%nat -> static_check fuel p = None.
Proof. exact CompileCorrectI.static_accepts_F3. Qed.

(* SOURCE level, WHOLE language outside the exclusions of DESIGN 4.3 (functions, heap values, builtins together, collector running): the compiled program computes exactly what the definitional semantics assigns to the tree - which decides this property for every such program of the model *)
Theorem compile_correct_F4 : forall (orc : oracle) (p : block), in_F4 p = true -> ends_expr p = true -> lits_exact (lits_b p) -> forall bc : bytecode, compile p = Ok bc -> forall fuel : nat, (size3_b p <= fuel)%nat -> sem_program orc fuel p <> SemFuel -> sem_small orc fuel p (length (b_constants bc)) -> (exists budget : nat, obs_eq4 (run_program orc bc budget) (sem_program orc fuel p)) \/ hits_excluded4 (CompileCorrectJ5.fun_table p) orc bc.
Proof. exact CompileCorrectJ9.compile_correct_F4. Qed.

Example nonvacuous : wf_tab symtab_new /\ body [OpDefine [120%N]; OpEnter; OpDefine [121%N]; OpNewCtx; OpDefine [97%N]; OpLeaveCtx; OpLeave; OpDefine [121%N]].
Proof. split; [exact SymbolsProofs.wf_symtab_new | exact SymbolsProofs.ex_body]. Qed.
Print Assumptions resolve_refines_lookup_all.
Print Assumptions define_spec.
Print Assumptions resolve_found.
Print Assumptions slots_injective.
Print Assumptions slot_bound.
Print Assumptions slot_below_num_locals.
Print Assumptions enter_body_leave_resolve.
Print Assumptions enter_leave_scope.
Print Assumptions function_restores.
Print Assumptions context_isolation.
Print Assumptions resolve_skips_callers.
Print Assumptions resolve_None.
Print Assumptions resolve_rename.
Print Assumptions define_rename.
Print Assumptions rollback_after_open_body.
Print Assumptions compile_rename_fresh.
Print Assumptions compile_alpha.
Print Assumptions eval_rename_fresh.
Print Assumptions accepted_scoped.
Print Assumptions undeclared_rejected.
Print Assumptions undeclared_never_runs.
Print Assumptions reference_error_exact.
Print Assumptions compile_correct_F3.
Print Assumptions static_accepts_F3.
Print Assumptions compile_correct_F4.
