(* C11 - structured control flow goes exactly where the source says. Property theorems only. Machine-level simulation of if-chains and loops against the definitional semantics for fragment F2 (proofs/CompileCorrectC.v, CompileCorrectD.v): exactly one branch, the branch's value, no residue after ANY number of iterations, stop/volgende semantics; code-generator facts for every compiler state (proofs/ControlProofs.v); Return at machine level (VMStepProofs.v). Functions and heap values inside loops are outside F2 and are decided per program against Sem.v. *)
From NL.Model Require Import Compiler VM Pipeline.
From NL.Spec Require Import Sem Fragment Fragment2 Fragment2h Fragment3.
From NL.Proofs Require ControlProofs VMStepProofs CompilerTotal CompileCorrectC CompileCorrectD CompileCorrectI CompileCorrectH5.
From NL.Spec Require Import Sem Fragment Fragment2 Fragment2h Fragment3 Fragment4.
From NL.Proofs Require CompileCorrectJ9 CompileCorrectJ10.
Import ControlProofs.
Open Scope Z_scope.

(* an if / else-if / else chain runs exactly one branch and has that branch's value, null when no branch runs *)
Theorem if_runs_exactly_one_branch : forall (orc : oracle) (c : expr) (t : list stmt) (alt : option (list stmt)) (lp : bool) (st st' : cstate) (k : nat) (outer : list (list text)) (cur : list text), f2e lp (EIf c t alt) = true -> c_symbols st = CompileCorrectC.stab k outer cur -> compile_expression (EIf c t alt) st = Ok st' -> exists ce nb : list Z, CompileCorrectC.cfacts st st' outer cur ce nb /\ (forall (prog : program) (lexit : Z), CompileCorrectC.env_ok prog st st' ce nb lexit -> 0 <= lexit < 65536 -> 0 <= CompileCorrectC.cur_start (c_loops st) -> forall (f : nat) (s : vm) (b : bool) (m1 : CompileCorrectA.mst), v_ip s = code_len st -> CompileCorrectC.xeval orc f (CompileCorrectC.flat outer cur) c (CompileCorrectA.mst_of s) = CompileCorrectC.XOk (VBool b) m1 -> CompileCorrectC.sim2 orc prog s (code_len st') (CompileCorrectC.cur_start (c_loops st)) lexit (if b then CompileCorrectC.xstmts orc f (CompileCorrectC.flat outer cur) t VNull m1 else match alt with | Some bl => CompileCorrectC.xstmts orc f (CompileCorrectC.flat outer cur) bl VNull m1 | None => CompileCorrectC.XOk VNull m1 end)).
Proof. exact CompileCorrectD.if_runs_exactly_one_branch. Qed.

(* a branch that has no value yields null *)
Theorem block_without_value_is_null : forall (orc : oracle) (fuel : nat) (l : list stmt) (names : list text) (last : val) (m : CompileCorrectA.mst) (v : val) (m' : CompileCorrectA.mst), l <> [] -> ends_pop l = false -> CompileCorrectC.xstmts orc fuel names l last m = CompileCorrectC.XOk v m' -> v = VNull.
Proof. exact CompileCorrectD.block_without_value_is_null. Qed.

(* running a loop ANY number of times leaves no residue: at the loop's exit the operand stack is the loop's value on top of exactly the stack before the loop *)
Theorem while_no_residue : forall (orc : oracle) (c : expr) (body : list stmt) (lp : bool) (st st' : cstate) (k : nat) (outer : list (list text)) (cur : list text), f2e lp (EWhile c body) = true -> c_symbols st = CompileCorrectC.stab k outer cur -> compile_expression (EWhile c body) st = Ok st' -> exists ce nb : list Z, CompileCorrectC.cfacts st st' outer cur ce nb /\ (forall (prog : program) (lexit : Z), CompileCorrectC.env_ok prog st st' ce nb lexit -> 0 <= lexit < 65536 -> 0 <= CompileCorrectC.cur_start (c_loops st) -> forall (fuel : nat) (s : vm) (v : val) (m' : CompileCorrectA.mst), v_ip s = code_len st -> CompileCorrectC.xeval orc fuel (CompileCorrectC.flat outer cur) (EWhile c body) (CompileCorrectA.mst_of s) = CompileCorrectC.XOk v m' -> exists fin' : val, CompileCorrectA.reaches orc prog s (CompileCorrectC.setx s (v :: v_stack s) (v_slen s + 1) (code_len st') m' fin')).
Proof. exact CompileCorrectD.while_no_residue. Qed.

(* stop ends the innermost loop with null, volgende starts its next iteration *)
Theorem break_continue_semantics : forall (orc : oracle) (f : nat) (names : list text) (c : expr) (body : list stmt) (last : val) (m m1 : CompileCorrectA.mst), CompileCorrectC.xeval orc f names c m = CompileCorrectC.XOk (VBool true) m1 -> (forall m2 : CompileCorrectA.mst, CompileCorrectC.xstmts orc f names body VNull m1 = CompileCorrectC.XBrk m2 -> CompileCorrectC.xwhile orc (S f) names c body last m = CompileCorrectC.XOk VNull m2) /\ (forall m2 : CompileCorrectA.mst, CompileCorrectC.xstmts orc f names body VNull m1 = CompileCorrectC.XCnt m2 -> CompileCorrectC.xwhile orc (S f) names c body last m = CompileCorrectC.xwhile orc f names c body VNull m2) /\ (forall (v : val) (m2 : CompileCorrectA.mst), CompileCorrectC.xstmts orc f names body VNull m1 = CompileCorrectC.XOk v m2 -> CompileCorrectC.xwhile orc (S f) names c body last m = CompileCorrectC.xwhile orc f names c body v m2).
Proof. exact CompileCorrectD.break_continue_semantics. Qed.

(* a loop never passes a stop / volgende on to an enclosing loop *)
Theorem loop_contains_stop : forall (orc : oracle) (fuel : nat) (c : expr) (body : list stmt) (names : list text) (last : val) (m : CompileCorrectA.mst), f2e false c = true -> CompileCorrectC.nosig (CompileCorrectC.xwhile orc fuel names c body last m).
Proof. exact CompileCorrectD.loop_contains_stop. Qed.

(* all of it end to end for programs of fragment F2 *)
Theorem compile_correct_F2 : forall (orc : oracle) (p : block), in_F2 p = true -> ends_expr p = true -> forall bc : bytecode, compile p = Ok bc -> forall fuel : nat, (size2_b p <= fuel)%nat -> sem_program orc fuel p <> SemFuel -> exists budget : nat, obs_eq (run_program orc bc budget) (sem_program orc fuel p).
Proof. exact CompileCorrectD.compile_correct_F2. Qed.

(* the same with FUNCTIONS: antwoord leaves exactly the function it stands in, from any depth of loops and branches; stop / volgende inside a function body concern that body's loops only; recursion (two excluded run-time events: 16-bit stack limits, == on function values) *)
Theorem compile_correct_F3 : forall (orc : oracle) (p : block), in_F3 p = true -> ends_expr p = true -> forall bc : bytecode, compile p = Ok bc -> forall fuel : nat, (size3_b p <= fuel)%nat -> sem_program orc fuel p <> SemFuel -> (forall out : text, sem_program orc fuel p <> SemError EArgumentError out) -> (exists budget : nat, obs_eq3 (run_program orc bc budget) (sem_program orc fuel p)) \/ hits_excluded orc bc.
Proof. exact CompileCorrectI.compile_correct_F3. Qed.

(* the same for top-level programs over heap values and builtins: branches and loops whose conditions and bodies print, index and build arrays go where the semantics says, output included *)
Theorem compile_correct_F2h : forall (orc : oracle) (p : block), in_F2h p = true -> ends_expr p = true -> lits_exact (lits_b p) -> forall bc : bytecode, compile p = Ok bc -> forall fuel : nat, (size2h_b p <= fuel)%nat -> sem_program orc fuel p <> SemFuel -> sem_small orc fuel p (length (b_constants bc)) -> exists budget : nat, obs_eq_h (run_program orc bc budget) (sem_program orc fuel p).
Proof. exact CompileCorrectH5.compile_correct_F2h. Qed.

(* stop acts on the innermost enclosing loop only: the jump it emits is recorded in the LAST loop context, outer contexts are untouched *)
Theorem break_innermost : forall st st' : cstate, compile_statement SBreak st = Ok st' -> exists (outer : list loopctx) (ctx : loopctx), c_loops st = outer ++ [ctx] /\ c_loops st' = outer ++ [{| l_start := l_start ctx; l_breaks := l_breaks ctx ++ [code_len st + 1] |}] /\ c_code st' = c_code st ++ ControlProofs.break_code /\ c_symbols st' = c_symbols st /\ c_constants st' = c_constants st.
Proof. exact ControlProofs.break_innermost. Qed.

(* volgende jumps to the start of the innermost loop *)
Theorem continue_innermost : forall st st' : cstate, compile_statement SContinue st = Ok st' -> exists (outer : list loopctx) (ctx : loopctx), c_loops st = outer ++ [ctx] /\ c_loops st' = c_loops st /\ l_start ctx < 2 ^ 16 /\ c_code st' = c_code st ++ [byte_of_opcode ONull; byte_of_opcode OJump; l_start ctx mod 256; (l_start ctx / 256) mod 256] /\ c_symbols st' = c_symbols st /\ c_constants st' = c_constants st.
Proof. exact ControlProofs.continue_innermost. Qed.

(* stop outside any loop is a syntax error *)
Theorem break_outside_loop : forall st : cstate, c_loops st = [] -> compile_statement SBreak st = Err ESyntaxError.
Proof. exact ControlProofs.break_outside_loop. Qed.

(* volgende outside any loop is a syntax error *)
Theorem continue_outside_loop : forall st : cstate, c_loops st = [] -> compile_statement SContinue st = Err ESyntaxError.
Proof. exact ControlProofs.continue_outside_loop. Qed.

(* loop contexts never cross a function boundary: a function body is compiled with no enclosing loop and the outer loops are restored afterwards *)
Theorem function_resets_loops : forall (name : text) (ps : list text) (body : list stmt) (st st' : cstate), compile_expression (EFunction name ps body) st = Ok st' -> c_loops st' = c_loops st.
Proof. exact ControlProofs.function_resets_loops. Qed.

(* ... so stop inside a function nested in a loop is a syntax error, not a jump into the caller's code *)
Theorem function_body_break : forall (name : text) (ps : list text) (st : cstate), compile_expression (EFunction name ps [SBreak]) st = Err ESyntaxError.
Proof. exact ControlProofs.function_body_break. Qed.

(* likewise volgende *)
Theorem function_body_continue : forall (name : text) (ps : list text) (st : cstate), compile_expression (EFunction name ps [SContinue]) st = Err ESyntaxError.
Proof. exact ControlProofs.function_body_continue. Qed.

(* at the end of a loop the JumpIfFalse and every recorded stop are patched to the loop's exit, and the loop's context is popped *)
Theorem while_patches_breaks : forall (c : expr) (body : list stmt) (st st' : cstate), compile_expression (EWhile c body) st = Ok st' -> let start := code_len st + 1 in exists (st3 st5 st8 : cstate) (ctx : loopctx) (rest : list loopctx), compile_expression c (set_loops (emit_opcode ONull st) (c_loops st ++ [{| l_start := start; l_breaks := [] |}])) = Ok st3 /\ ControlProofs.c_block_value body (emit_opcode OPop (emit_u16 JUMP_PLACEHOLDER (emit_opcode OJumpIfFalse st3))) = Ok st5 /\ (let exit := code_len st5 + 3 in start < 2 ^ 16 /\ exit < 2 ^ 16 /\ change_jump_operand_at (code_len st3) exit (emit_u16 start (emit_opcode OJump st5)) = Ok st8 /\ c_code st8 = replace_nth (Z.to_nat (code_len st3) + 2) ((exit / 256) mod 256) (replace_nth (Z.to_nat (code_len st3) + 1) (exit mod 256) (c_code st5 ++ [byte_of_opcode OJump; start mod 256; (start / 256) mod 256])) /\ c_loops st8 = rev rest ++ [ctx] /\ ControlProofs.patch_breaks (l_breaks ctx) (set_loops st8 (rev rest)) = Ok st' /\ (Forall (fun ip : Z => 0 <= ip) (l_breaks ctx) -> c_loops st' = rev rest /\ code_len st' = exit /\ c_code st' = ControlProofs.write_targets exit (l_breaks ctx) (c_code st8))).
Proof. exact ControlProofs.while_patches_breaks. Qed.

(* antwoord outside a function is a syntax error *)
Theorem return_outside_function : forall (e : expr) (st : cstate), in_global_context (c_symbols st) = true -> compile_statement (SReturn e) st = Err ESyntaxError.
Proof. exact ControlProofs.return_outside_function. Qed.

(* inside a function it compiles to ReturnValue *)
Theorem return_inside_function : forall (e : expr) (st st' : cstate), in_global_context (c_symbols st) = false -> compile_statement (SReturn e) st = Ok st' -> exists st1 : cstate, compile_expression e st = Ok st1 /\ st' = emit_opcode OReturnValue st1.
Proof. exact ControlProofs.return_inside_function. Qed.

(* antwoord leaves only the current function, from any depth of nesting: whatever is above the frame's base is dropped, the caller's stack is intact *)
Theorem return_restores : forall (orc : oracle) (prog : program) (s : vm) (result : val) (above rest : list val) (fr : frame) (ret cbp : Z) (frs : list frame) (s' : vm), byte_at prog (v_ip s) = Some (byte_of_opcode OReturnValue) -> v_stack s = result :: above ++ rest -> v_slen s = zlength (v_stack s) -> v_frames s = fr :: {| f_ip := ret; f_bp := cbp |} :: frs -> f_bp fr = zlength rest -> step orc prog s = Ok (Continue s') -> v_stack s' = result :: rest /\ v_slen s' = zlength (v_stack s') /\ v_ip s' = ret /\ v_bp s' = cbp /\ v_frames s' = {| f_ip := ret; f_bp := cbp |} :: frs /\ v_globals s' = v_globals s /\ v_final s' = v_final s /\ v_out s' = v_out s /\ gc_run (v_heap s) (v_gc s) (roots prog (VMStepProofs.resumed s rest ret cbp frs) [v_final s; result]) = Ok (v_gc s', v_heap s').
Proof. exact VMStepProofs.return_restores. Qed.

(* the code emitted for an expression never rewrites a byte emitted before it: jump patches stay inside the construct that emitted them; loop starts are preserved *)
Theorem compile_expression_ok : forall (e : expr) (st st' : cstate), CompilerTotal.ops_ok_e e = true -> CompilerTotal.code_inv st -> compile_expression e st = Ok st' -> CompilerTotal.code_inv st' /\ (exists suf : list Z, c_code st' = c_code st ++ suf /\ 1 <= zlength suf) /\ CompilerTotal.loops_ext (code_len st) (c_loops st) (c_loops st') /\ map l_start (c_loops st') = map l_start (c_loops st).
Proof. exact CompilerTotal.compile_expression_ok. Qed.

(* SOURCE level, WHOLE language outside the exclusions of DESIGN 4.3 (functions, heap values, builtins together, collector running): the compiled program computes exactly what the definitional semantics assigns to the tree - which decides this property for every such program of the model *)
Theorem compile_correct_F4 : forall (orc : oracle) (p : block), in_F4 p = true -> ends_expr p = true -> lits_exact (lits_b p) -> forall bc : bytecode, compile p = Ok bc -> forall fuel : nat, (size3_b p <= fuel)%nat -> sem_program orc fuel p <> SemFuel -> sem_small orc fuel p (length (b_constants bc)) -> (exists budget : nat, obs_eq4 (run_program orc bc budget) (sem_program orc fuel p)) \/ hits_excluded4 (CompileCorrectJ5.fun_table p) orc bc.
Proof. exact CompileCorrectJ9.compile_correct_F4. Qed.


Print Assumptions if_runs_exactly_one_branch.
Print Assumptions block_without_value_is_null.
Print Assumptions while_no_residue.
Print Assumptions break_continue_semantics.
Print Assumptions loop_contains_stop.
Print Assumptions compile_correct_F2.
Print Assumptions compile_correct_F3.
Print Assumptions compile_correct_F2h.
Print Assumptions break_innermost.
Print Assumptions continue_innermost.
Print Assumptions break_outside_loop.
Print Assumptions continue_outside_loop.
Print Assumptions function_resets_loops.
Print Assumptions function_body_break.
Print Assumptions function_body_continue.
Print Assumptions while_patches_breaks.
Print Assumptions return_outside_function.
Print Assumptions return_inside_function.
Print Assumptions return_restores.
Print Assumptions compile_expression_ok.
Print Assumptions compile_correct_F4.
