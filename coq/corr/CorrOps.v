(* CorrOps.v - C06 correspondence: binary operators evaluated by the implementation (through eval,
   in three syntactic forms) against Ops.v (word-level model lifted to values) and against
   ArithSpec.v (the specification, used as the oracle). *)
From Coq Require Import Floats Uint63.
From NL.Model Require Export Ops.
From NL.Spec Require Export ArithSpec.
From NL.Corr Require Export Render CorrWord.
Open Scope Z_scope.

Inductive res : Type := RInt (z : Z) | RBool (b : bool) | RFloat (f : float) | RErr (k : errkind) | ROther.

(* how the operator reaches the machine *)
Inductive form : Type :=
| FGeneric           (* compile left; compile right; operator instruction *)
| FFusedRight        (* variable op literal inside a function: fused instruction *)
| FFusedLeft.        (* literal op variable inside a function: mirrored fused instruction, else generic *)

Inductive ocase : Type := OC (f : form) (o : operator) (a b : desc) (r : res).

Fixpoint rtab_lookup (x y : float) (l : list (float * float * float)) : float :=
  match l with
  | [] => nan
  | (a, b, r) :: t => if float_same a x && float_same b y then r else rtab_lookup x y t
  end.

Definition generic_method (o : operator) : option (string * bool) :=
  match assoc operator_eqb o compile_operator_table with
  | Some c => option_map (fun m => (m, false)) (assoc opcode_eqb c binary_dispatch)
  | None => None
  end.

(* method and whether the operands reach it swapped *)
Definition method_for (f : form) (o : operator) : option (string * bool) :=
  match f with
  | FGeneric => generic_method o
  | FFusedRight =>
      match assoc operator_eqb o fused_table with
      | Some c => option_map (fun m => (m, false)) (assoc opcode_eqb c fused_dispatch)
      | None => generic_method o
      end
  | FFusedLeft =>
      match assoc operator_eqb o mirror_table with
      | Some o' =>
          match assoc operator_eqb o' fused_table with
          | Some c => option_map (fun m => (m, true)) (assoc opcode_eqb c fused_dispatch)
          | None => generic_method o
          end
      | None => generic_method o
      end
  end.

Definition res_same (x y : res) : bool :=
  match x, y with
  | RInt a, RInt b => a =? b
  | RBool a, RBool b => Bool.eqb a b
  | RFloat a, RFloat b => float_same a b
  | RErr a, RErr b => errkind_eqb a b
  | _, _ => false
  end.

Section Tab.
  Variable rtab : list (float * float * float).
  Definition orc : oracle := mkOracle (fun _ => []) (fun _ => None) (fun x y => rtab_lookup x y rtab).

  Definition model_res (f : form) (o : operator) (a b : desc) : res :=
    let '(va, h1) := build empty_heap a in
    let '(vb, h2) := build h1 b in
    match method_for f o with
    | None => ROther
    | Some (m, swapped) =>
        let r := if swapped : bool then binop orc m h2 vb va else binop orc m h2 va vb in
        match r with
        | Ok (VInt z, _) => RInt z
        | Ok (VBool x, _) => RBool x
        | Ok (VFloat l, h') => match h_get h' l with Ok (OFloat x) => RFloat x | _ => ROther end
        | Err k => RErr k
        | _ => ROther
        end
    end.

  Definition spec_res (o : operator) (a b : desc) : res :=
    let '(va, h1) := build empty_heap a in
    let '(vb, h2) := build h1 b in
    match sval_of h2 va, sval_of h2 vb with
    | Some xa, Some xb =>
        match spec_binop (float_rem orc) o xa xb with
        | SInt z => RInt z
        | SBool x => RBool x
        | SFloat x => RFloat x
        | SErr => RErr ETypeError
        end
    | _, _ => ROther
    end.

  Definition check_model (c : ocase) : bool :=
    match c with OC f o a b r => res_same (model_res f o a b) r end.
  Definition check_spec (c : ocase) : bool :=
    match c with OC f o a b r => res_same (spec_res o a b) r end.
End Tab.
