(* CorrSem.v - the specification oracle of C01 (and of C09, C11, C12, C13): the implementation's
   observation (final value graph, printed text, error kind) against Sem.v evaluated on the tree
   the (correspondence-checked) parser model yields for the same text. *)
From Coq Require Import Floats Uint63.
From NL.Spec Require Export Sem.
From NL.Corr Require Export CorrRun.
Open Scope Z_scope.

(* value graph, heap objects numbered by first visit; function values are all rendered `fn` *)
Fixpoint swalk (fuel : nat) (h : heap) (v : val) (seen : list positive) : text * list positive :=
  match fuel with
  | O => (kw "<deep>", seen)
  | S f =>
      match v with
      | VNull => (kw "n", seen)
      | VBool b => (kw (if b then "b1" else "b0"), seen)
      | VInt z => (105%N :: show_Z z, seen)
      | VFun _ _ => (kw "fn", seen)
      | VFloat l =>
          (* floats are immutable: whether two positions hold the same float BOX is not observable, so floats carry no identity *)
          match PM.find l (cells h) with
          | Some (true, OFloat x) => (show_float_bits x, seen)
          | _ => (kw "<freed>", seen)
          end
      | VStr l | VArr l =>
          match pos_index l seen 0 with
          | Some k => (35%N :: show_nat k, seen)
          | None =>
              let k := length seen in
              let seen1 := seen ++ [l] in
              let pre := 35%N :: show_nat k ++ [61%N] in
              match PM.find l (cells h) with
              | Some (true, OFloat x) => (pre ++ show_float_bits x, seen1)
              | Some (true, OStr s) => (pre ++ 83%N :: cps s, seen1)
              | Some (true, OArr vs) =>
                  let '(body, seen2) :=
                    (fix go (l : list val) (first : bool) (sn : list positive) : text * list positive :=
                       match l with
                       | [] => ([], sn)
                       | x :: r =>
                           let '(t, sn1) := swalk f h x sn in
                           let '(rest, sn2) := go r false sn1 in
                           ((if first then [] else [44%N]) ++ t ++ rest, sn2)
                       end) vs true seen1 in
                  (pre ++ kw "A[" ++ body ++ [93%N], seen2)
              | _ => (pre ++ kw "<freed>", seen1)
              end
          end
      end
  end.

Definition render_sem (with_value : bool) (r : sem_result) : text :=
  match r with
  | SemRejected k => kw "ERR " ++ errkind_name k ++ bar ++ kw "OUT -"
  | SemValue v h out =>
      (if with_value then kw "OK " ++ fst (swalk 5000 h v []) else kw "OK") ++ bar ++ kw "OUT " ++ cps out
  | SemError k out => kw "ERR " ++ errkind_name k ++ bar ++ kw "OUT " ++ cps out
  | SemFault f out => kw "PANIC " ++ fault_name f ++ bar ++ kw "OUT " ++ cps out
  | SemFuel => kw "BUDGET"
  end.

(* with_value = false: the program's last statement is not an expression statement, so only
   output and error are compared (DESIGN.md 4.3 item 1) *)
Inductive scase : Type := SCase (with_value : bool) (fuel : N) (src : text) (obs : Uint63.int).

Section Tables.
  Variable utab : list (N * bool * bool).
  Variable stab : list (float * text).
  Variable ptab : list (text * option float).
  Variable rtab : list (float * float * float).

  Definition model_sem (with_value : bool) (fuel : N) (src : text) : text :=
    match parse (the_u utab) (parse_float (the_orc stab ptab rtab)) src with
    | Ok ast => render_sem with_value (sem_program (the_orc stab ptab rtab) (N.to_nat fuel) ast)
    | Err k => kw "ERR " ++ errkind_name k ++ bar ++ kw "OUT -"
    | Fault f => kw "PANIC " ++ fault_name f
    | OutOfFuel => kw "OUT-OF-FUEL"
    end.

  Definition scheck (c : scase) : bool :=
    match c with SCase wv fuel s o => hash_is (model_sem wv fuel s) o end.
End Tables.
