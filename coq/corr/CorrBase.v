(* CorrBase.v - support for the correspondence runs (DESIGN.md section 3.2): cases written by the
   harness embed the implementation's observation; the comparison is computed here, by
   vm_compute, and only the indices that disagree are printed. *)
From Coq Require Import Uint63.
From NL.Model Require Export Base.
Open Scope Z_scope.

(* Case texts are written by the harness as packed primitive integers (three 21-bit code points
   per 63-bit integer), which Coq reads two orders of magnitude faster than string literals;
   observations are compared through a 63-bit rolling hash computed on both sides. *)
Definition unpack3 (i : int) : list N :=
  let f (sh : int) := Z.to_N (Uint63.to_Z (Uint63.land (Uint63.lsr i sh) 2097151%uint63)) in
  [f 42%uint63; f 21%uint63; f 0%uint63].
Fixpoint unpack_all (l : list int) : list N :=
  match l with
  | [] => []
  | i :: r => unpack3 i ++ unpack_all r
  end.
Definition T (n : N) (l : list int) : list N := firstn (N.to_nat n) (unpack_all l).

Fixpoint hash_from (s : list N) (h : int) : int :=
  match s with
  | [] => h
  | c :: r => hash_from r (Uint63.add (Uint63.add (Uint63.mul h 1000003%uint63) (Uint63.of_Z (Z.of_N c))) 1%uint63)
  end.
Definition hash_text (s : list N) : int := hash_from s 7%uint63.
Definition hash_is (s : list N) (h : int) : bool := Uint63.eqb (hash_text s) h.

Fixpoint mismatches_from {A} (check : A -> bool) (i : N) (l : list A) : list N :=
  match l with
  | [] => []
  | c :: r => if check c then mismatches_from check (N.succ i) r
              else i :: mismatches_from check (N.succ i) r
  end.
Definition mismatches {A} (check : A -> bool) (l : list A) : list N := mismatches_from check 0%N l.

(* UTF-8 decoding of the byte strings the harness writes ("..."%string holds bytes) *)
Fixpoint bytes_of (s : string) : list N :=
  match s with EmptyString => [] | String a r => N_of_ascii a :: bytes_of r end.

Fixpoint utf8_decode_fuel (fuel : nat) (b : list N) : list N :=
  match fuel with
  | O => []
  | S f =>
      match b with
      | [] => []
      | b0 :: r0 =>
          if (b0 <? 128)%N then b0 :: utf8_decode_fuel f r0
          else if (b0 <? 224)%N then
                 match r0 with
                 | b1 :: r1 => ((b0 mod 32) * 64 + b1 mod 64)%N :: utf8_decode_fuel f r1
                 | _ => [65533%N]
                 end
          else if (b0 <? 240)%N then
                 match r0 with
                 | b1 :: b2 :: r2 => ((b0 mod 16) * 4096 + (b1 mod 64) * 64 + b2 mod 64)%N :: utf8_decode_fuel f r2
                 | _ => [65533%N]
                 end
          else match r0 with
               | b1 :: b2 :: b3 :: r3 =>
                   ((b0 mod 8) * 262144 + (b1 mod 64) * 4096 + (b2 mod 64) * 64 + b3 mod 64)%N
                     :: utf8_decode_fuel f r3
               | _ => [65533%N]
               end
      end
  end.
Definition utf8 (s : string) : text := let b := bytes_of s in utf8_decode_fuel (length b) b.

(* canonical ASCII rendering of text: decimal code points separated by '.', "-" when empty *)
Fixpoint cps_tail (s : text) : text :=
  match s with
  | [] => []
  | c :: r => 46%N :: show_N c ++ cps_tail r
  end.
Definition cps (s : text) : text :=
  match s with
  | [] => [45%N]
  | c :: r => show_N c ++ cps_tail r
  end.

Definition A (s : string) : text := str_cps s.   (* ASCII literal *)
