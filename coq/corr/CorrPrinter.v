(* CorrPrinter.v - C07: the printer the theorems are about (spec/Printer.v + spec/RenderSpec.v),
   evaluated inside Coq on the tree the parser model yields; the harness hands the printed text to
   the REAL parser and compares the trees. *)
From NL.Model Require Export Parser.
From NL.Spec Require Export Printer RenderSpec.
From NL.Corr Require Export Render.
Open Scope Z_scope.

Section Tables.
  Variable utab : list (N * bool * bool).

  (* text of the printed form of the tree of src (empty when src does not parse); float-free trees *)
  Definition reprint (src : text) : text :=
    match parse (unicode_of utab) (fun _ => None) src with
    | Ok b => if wf_tree_nofloat b then render_spaces (print_program (fun _ => []) b) else []
    | _ => []
    end.

  Fixpoint reprint_all (l : list text) : text :=
    match l with
    | [] => []
    | s :: r => reprint s ++ 0%N :: reprint_all r
    end.
End Tables.
