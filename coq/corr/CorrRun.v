(* CorrRun.v - compiler and VM stages: Compiler.v / VM.v / Pipeline.v against compiler.rs / vm.rs /
   lib.rs::eval.  Observations are rendered exactly as harness/src/main.rs does. *)
From Coq Require Import Floats Uint63.
From NL.Model Require Export Pipeline.
From NL.Corr Require Export Render.
Open Scope Z_scope.

(** * oracle tables dumped from the implementation *)
Fixpoint stab_lookup (x : float) (l : list (float * text)) : text :=
  match l with
  | [] => str_cps "?"
  | (a, t) :: r => if float_same a x then t else stab_lookup x r
  end.
Fixpoint rtab_lookup (x y : float) (l : list (float * float * float)) : float :=
  match l with
  | [] => nan
  | (a, b, r) :: t => if float_same a x && float_same b y then r else rtab_lookup x y t
  end.

Definition oracle_of (stab : list (float * text)) (ptab : list (text * option float))
           (rtab : list (float * float * float)) : oracle :=
  mkOracle (fun f => stab_lookup f stab) (fun s => ptab_lookup s ptab) (fun x y => rtab_lookup x y rtab).

(** * rendering *)
Definition bar : text := kw " | ".

Fixpoint pos_index (l : positive) (seen : list positive) (i : nat) : option nat :=
  match seen with
  | [] => None
  | k :: r => if Pos.eqb k l then Some i else pos_index l r (S i)
  end.

Definition show_nat (n : nat) : text := show_N (N.of_nat n).

(* value graph, heap objects numbered by first visit; seen is kept in visit order *)
Fixpoint walk (fuel : nat) (h : heap) (v : val) (seen : list positive) : text * list positive :=
  match fuel with
  | O => (kw "<deep>", seen)
  | S f =>
      match v with
      | VNull => (kw "n", seen)
      | VBool b => (kw (if b then "b1" else "b0"), seen)
      | VInt z => (105%N :: show_Z z, seen)
      | VFun ip n => (102%N :: show_Z ip ++ 46%N :: show_Z n, seen)
      | VFloat l | VStr l | VArr l =>
          match pos_index l seen 0 with
          | Some k => (35%N :: show_nat k, seen)
          | None =>
              let k := length seen in
              let seen1 := seen ++ [l] in
              let pre := 35%N :: show_nat k ++ [61%N] in
              match PM.find l (cells h) with
              | Some (true, OFloat x) => (pre ++ show_float_bits x, seen1)
              | Some (true, OStr s) => (pre ++ 83%N :: cps s, seen1)
              | Some (true, OArr vs) =>
                  let '(body, seen2) :=
                    (fix go (l : list val) (first : bool) (sn : list positive) : text * list positive :=
                       match l with
                       | [] => ([], sn)
                       | x :: r =>
                           let '(t, sn1) := walk f h x sn in
                           let '(rest, sn2) := go r false sn1 in
                           ((if first then [] else [44%N]) ++ t ++ rest, sn2)
                       end) vs true seen1 in
                  (pre ++ kw "A[" ++ body ++ [93%N], seen2)
              | _ => (pre ++ kw "<freed>", seen1)
              end
          end
      end
  end.

Definition render_outcome_val (h : heap) (r : outcome val) : text * nat :=
  match r with
  | Ok v => let '(t, seen) := walk 5000 h v [] in (kw "OK " ++ t, length seen)
  | Err k => (kw "ERR " ++ errkind_name k, 0%nat)
  | Fault f => (kw "PANIC " ++ fault_name f, 0%nat)
  | OutOfFuel => (kw "BUDGET", 0%nat)
  end.

Definition render_front_error (r : outcome bytecode) : text :=
  match r with
  | Ok _ => kw "?"
  | Err k => kw "ERR " ++ errkind_name k
  | Fault f => kw "PANIC " ++ fault_name f
  | OutOfFuel => kw "OUT-OF-FUEL"
  end.

Definition render_eval (r : eval_result) : text :=
  match r with
  | FrontError e => render_front_error e ++ bar ++ kw "OUT -" ++ bar ++ kw "STEPS 0" ++ bar ++ kw "HEAP -"
  | Ran lits o =>
      (* the heap the result is rendered in: before the collector is dropped nothing reachable is gone *)
      let h := match o_heap o with Ok h => h | _ => empty_heap end in
      let '(res, graph) := render_outcome_val h (o_result o) in
      let heap_part :=
        match o_heap o with
        | Ok hh =>
            kw "HEAP " ++ show_Z (n_alloc hh + lits) ++ sp
               ++ show_Z (n_alloc hh - n_freed hh - Z.of_nat graph)
        | Err _ | OutOfFuel => kw "HEAP ?"
        | Fault f => kw "HEAP PANIC " ++ fault_name f
        end in
      res ++ bar ++ kw "OUT " ++ cps (o_out o) ++ bar ++ kw "STEPS " ++ show_nat (o_steps o) ++ bar ++ heap_part
  end.

(* bytecode: hex bytes, then the pool *)
Definition render_const (k : const) : text :=
  match k with
  | KInt z => 105%N :: show_Z z
  | KFun ip n => 102%N :: show_Z ip ++ 46%N :: show_Z n
  | KFloat f => show_float_bits f
  | KStr s => 83%N :: cps s
  end.
Fixpoint render_bytes (l : list Z) : text :=
  match l with
  | [] => []
  | b :: r => hex_fixed 2 (Z.to_N b) [] ++ render_bytes r
  end.
Fixpoint render_consts (l : list const) : text :=
  match l with
  | [] => []
  | k :: r => sp ++ render_const k ++ render_consts r
  end.
Definition render_compile (r : outcome bytecode) : text :=
  match r with
  | Ok bc => kw "OK " ++ render_bytes (b_code bc) ++ kw " K" ++ render_consts (b_constants bc)
  | _ => render_front_error r
  end.

Inductive rcase : Type :=
| RCompile (src : text) (obs : Uint63.int)
| REval (budget : N) (src : text) (obs : Uint63.int).

Section Tables.
  Variable utab : list (N * bool * bool).
  Variable stab : list (float * text).
  Variable ptab : list (text * option float).
  Variable rtab : list (float * float * float).

  Definition the_orc : oracle := oracle_of stab ptab rtab.
  Definition the_u : unicode := unicode_of utab.

  Definition model_compile (src : text) : text := render_compile (front the_u the_orc src).
  Definition model_eval (budget : N) (src : text) : text :=
    render_eval (eval the_u the_orc src (N.to_nat budget)).

  Definition check (c : rcase) : bool :=
    match c with
    | RCompile s o => hash_is (model_compile s) o
    | REval b s o => hash_is (model_eval b s) o
    end.
End Tables.
