(* CorrGC.v - C03/C04 correspondence (a): the collector driven directly (harness/src/gcdrive.rs)
   against GC.v, operation by operation; plus the reachability oracle of ReachSpec.v. *)
From Coq Require Import Floats Uint63.
From NL.Model Require Export GC.
From NL.Spec Require Export ReachSpec.
From NL.Corr Require Export Render.
Open Scope Z_scope.

Inductive gop : Type :=
| GF | GS | GA
| GL (x y : nat)
| GR (ids : list nat)
| GU (x : nat)
| GD.

Record gst : Type := mkG { g_heap : heap; g_gc : gc; g_uni : list val }.

Definition alive_val (h : heap) (v : val) : bool :=
  match val_loc v with Some l => h_alive h l | None => false end.

Definition id_alive (s : gst) (i : nat) : bool :=
  match nth_error (g_uni s) i with Some v => alive_val (g_heap s) v | None => false end.

Fixpoint index_where {A} (p : A -> bool) (l : list A) (i : nat) : option nat :=
  match l with
  | [] => None
  | x :: r => if p x then Some i else index_where p r (S i)
  end.

Definition id_of (s : gst) (v : val) : text :=
  match index_where (val_same v) (g_uni s) 0 with
  | Some i => show_N (N.of_nat i)
  | None => kw "-1"
  end.

Fixpoint dotted (l : list text) : text :=
  match l with
  | [] => []
  | [x] => x
  | x :: r => x ++ 46%N :: dotted r
  end.

Fixpoint alive_ids (s : gst) (l : list val) (i : nat) : list text :=
  match l with
  | [] => []
  | v :: r => if alive_val (g_heap s) v then show_N (N.of_nat i) :: alive_ids s r (S i) else alive_ids s r (S i)
  end.

Definition render_state (s : gst) (inexact : bool) : text :=
  109%N :: dotted (map (id_of s) (objects (g_gc s))) ++ 97%N :: dotted (alive_ids s (g_uni s) 0)
       ++ 120%N :: (if inexact then kw "1" else kw "0") ++ [59%N].

(* the specification's view of one collection: survivors = managed objects reachable from the roots *)
(* reachability as the harness's observer computes it: a released box is not followed *)
Fixpoint live_reach (fuel : nat) (h : heap) (todo : list val) (seen : list positive) : list positive :=
  match fuel with
  | O => seen
  | S f =>
      match todo with
      | [] => seen
      | v :: r =>
          match val_loc v with
          | None => live_reach f h r seen
          | Some l =>
              if existsb (Pos.eqb l) seen then live_reach f h r seen
              else match PM.find l (cells h) with
                   | Some (true, OArr vs) => live_reach f h (vs ++ r) (l :: seen)
                   | _ => live_reach f h r (l :: seen)
                   end
          end
      end
  end.

Definition run_exact (h : heap) (before after : list val) (roots : list val) : bool :=
  let r := live_reach (S (Pos.to_nat (next_loc h)) * S (Pos.to_nat (next_loc h)) + length roots) h roots [] in
  let reachable v := match val_loc v with Some l => existsb (Pos.eqb l) r | None => false end in
  let expect := filter reachable before in
  (Nat.eqb (length expect) (length after))
  && forallb (fun v => existsb (val_same v) after) expect.

Definition new_obj (s : gst) (o : obj) (mk : positive -> val) : gst :=
  let '(l, h') := h_alloc (g_heap s) o in
  mkG h' (trace (g_gc s) (mk l)) (g_uni s ++ [mk l]).

(* one operation: None = skipped, Some (Ok (s', inexact)) or a fault *)
Definition gstep (s : gst) (op : gop) : option (outcome (gst * bool)) :=
  match op with
  | GF => Some (Ok (new_obj s (OFloat 0%float) VFloat, false))
  | GS => Some (Ok (new_obj s (OStr []) VStr, false))
  | GA => Some (Ok (new_obj s (OArr []) VArr, false))
  | GL x y =>
      if id_alive s x && id_alive s y then
        match nth_error (g_uni s) x, nth_error (g_uni s) y with
        | Some vx, Some (VArr ly) =>
            Some (do vs <- get_arr (g_heap s) ly;
                  do h' <- h_set (g_heap s) ly (OArr (vs ++ [vx]));
                  Ok (mkG h' (g_gc s) (g_uni s), false))
        | _, _ => None
        end
      else None
  | GR ids =>
      let roots := flat_map (fun i => if id_alive s i then match nth_error (g_uni s) i with Some v => [v] | None => [] end else []) ids in
      Some (do (g', h') <- gc_run (g_heap s) (g_gc s) roots;
            Ok (mkG h' g' (g_uni s),
                match objects (g_gc s) with
                | [] => false
                | _ => negb (run_exact (g_heap s) (objects (g_gc s)) (objects g') roots)
                end))
  | GU x =>
      if id_alive s x then
        match nth_error (g_uni s) x with
        | Some v => Some (do g' <- untrace (g_heap s) (g_gc s) v; Ok (mkG (g_heap s) g' (g_uni s), false))
        | None => None
        end
      else None
  | GD => Some (do (g', h') <- gc_destroy (g_heap s) (g_gc s); Ok (mkG h' g' (g_uni s), false))
  end.

Fixpoint grun (ops : list gop) (s : gst) : text * outcome gst :=
  match ops with
  | [] => ([], Ok s)
  | op :: r =>
      match gstep s op with
      | None => let '(t, e) := grun r s in (kw "skip;" ++ t, e)
      | Some (Ok (s', inexact)) => let '(t, e) := grun r s' in (render_state s' inexact ++ t, e)
      | Some (Err k) => (kw "ERR", Err k)
      | Some (Fault f) => (kw "PANIC " ++ fault_name f, Fault f)
      | Some OutOfFuel => (kw "OUT-OF-FUEL", OutOfFuel)
      end
  end.

(* after the sequence: the collector is dropped, the harness frees what is still allocated *)
Definition model_gc (ops : list gop) : text :=
  let '(t, e) := grun ops (mkG empty_heap gc_new []) in
  match e with
  | Ok s =>
      match gc_destroy (g_heap s) (g_gc s) with
      | Ok (_, h') =>
          t ++ kw " END " ++ show_Z (n_alloc h') ++ sp ++ show_Z (n_alloc h') ++ kw " 0"
      | _ => t ++ kw " END-FAULT"
      end
  | _ => t
  end.

Inductive gcase : Type := GCase (ops : list gop) (obs : Uint63.int).
Definition check (c : gcase) : bool := match c with GCase ops o => hash_is (model_gc ops) o end.
