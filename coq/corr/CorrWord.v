(* CorrWord.v - C15 correspondence: the Object constructors/accessors of object.rs against Word.v *)
From NL.Model Require Export Ops.
From NL.Corr Require Export CorrBase.
Open Scope Z_scope.

Inductive desc : Type :=
| DNull | DBool (b : bool) | DInt (z : Z) | DFun (ip n : Z) | DFloat (f : float) | DStr (s : text).

Definition build (h : heap) (d : desc) : val * heap :=
  match d with
  | DNull => (VNull, h)
  | DBool b => (VBool b, h)
  | DInt z => (VInt z, h)
  | DFun ip n => (VFun ip n, h)
  | DFloat f => let '(l, h') := h_alloc h (OFloat f) in (VFloat l, h')
  | DStr s => let '(l, h') := h_alloc h (OStr s) in (VStr l, h')
  end.

Inductive wcase : Type :=
| CInt (z raw tg asint : Z)
| CBool (b : bool) (raw tg : Z) (asb : bool)
| CNull (raw tg : Z)
| CFun (ip n raw tg ip' n' : Z)
| CHeap (t : tag) (raw tg : Z) (isheap : bool)       (* raw is the word the allocator produced *)
| CEq (a b : desc) (r : bool).

Definition tag_num (w : Z) : Z := match w_tag w with Some t => tag_index t | None => -1 end.

Definition check (c : wcase) : bool :=
  match c with
  | CInt z raw tg asint =>
      (w_int z =? raw) && (tag_num raw =? tg) && (w_as_int raw =? asint) && (tg =? tag_index TInt)
      && (negb (in_int_range z) || (asint =? z))
      && (match decode raw with Some (VInt z') => z' =? asint | _ => false end)
  | CBool b raw tg asb =>
      (w_bool b =? raw) && (tag_num raw =? tg) && Bool.eqb (w_as_bool raw) asb && Bool.eqb asb b
  | CNull raw tg => (w_null =? raw) && (tag_num raw =? tg)
  | CFun ip n raw tg ip' n' =>
      (w_function ip n =? raw) && (tag_num raw =? tg)
      && (let '(i, m) := w_as_function raw in (i =? ip') && (m =? n')) && (ip =? ip') && (n =? n')
  | CHeap t raw tg isheap =>
      (* the allocator contract, observed: non-null, 8-aligned; and the tag round trip on the real address *)
      let a := w_as_ptr raw in
      (0 <? a) && (a mod 8 =? 0) && (w_heap a t =? raw) && (tag_num raw =? tg) && (tg =? tag_index t)
      && Bool.eqb (w_is_heap raw) isheap && isheap
  | CEq a b r =>
      let '(va, h1) := build empty_heap a in
      let '(vb, h2) := build h1 b in
      let m := if tag_eqb (val_tag va) (val_tag vb)
               then w_eq (deref_heap h2) (val_tag va) (encode va) (encode vb)
               else Some false in
      match m with Some r' => Bool.eqb r r' | None => false end
  end.
