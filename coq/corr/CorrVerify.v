(* CorrVerify.v - C02 per-program validation: the proved checker of spec/Verify.v run on the REAL
   bytecode the Rust compiler produced (bytes and constant pool as dumped by the harness). *)
From NL.Model Require Export VM.
From NL.Spec Require Export Verify.
From NL.Corr Require Export CorrBase.
Open Scope Z_scope.

(* constants as the verifier needs them: functions exactly, everything else by kind only *)
Inductive kdesc : Type := KF (ip n : Z) | KO.
Definition kval (k : kdesc) : val := match k with KF ip n => VFun ip n | KO => VNull end.

Inductive vcase : Type := VCase (code : list Z) (consts : list kdesc).

Definition vcheck (c : vcase) : bool :=
  match c with VCase code ks => verify (mkProgram code (map kval ks)) end.
