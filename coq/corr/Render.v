(* Render.v - canonical ASCII renderings of the model's observations, character for character
   the ones the Rust harness (harness/src/render.rs) prints for the implementation. *)
From Coq Require Import Floats.
From NL.Model Require Export Parser Value.
From NL.Corr Require Export CorrBase.
Open Scope Z_scope.

Definition hex_digit (d : N) : N := if (d <? 10)%N then (48 + d)%N else (87 + d)%N.
Fixpoint hex_fixed (digits : nat) (n : N) (acc : text) : text :=
  match digits with
  | O => acc
  | S d => hex_fixed d (n / 16)%N (hex_digit (n mod 16)%N :: acc)
  end.

(* IEEE-754 binary64 bit pattern of a float (all NaNs are the canonical quiet NaN) *)
Definition float_bits (f : float) : N :=
  match Prim2SF f with
  | S754_zero s => if s then 9223372036854775808%N else 0%N
  | S754_infinity s => ((if s then 9223372036854775808 else 0) + 9218868437227405312)%N
  | S754_nan => 9221120237041090560%N
  | S754_finite s m e =>
      let mn := Npos m in
      let sign := (if s then 9223372036854775808 else 0)%N in
      if (4503599627370496 <=? mn)%N
      then (sign + Z.to_N (e + 1075) * 4503599627370496 + (mn - 4503599627370496))%N
      else (sign + mn)%N
  end.
Definition show_float_bits (f : float) : text := 70%N :: hex_fixed 16 (float_bits f) [].

(* bit-level identity of floats as far as Coq can see it *)
Definition float_same (a b : float) : bool := (float_bits a =? float_bits b)%N.

Definition quoted (s : text) : text := 34%N :: cps s ++ [34%N].

Definition kw (s : string) : text := str_cps s.

(** * tokens *)
Definition ftoken_name (k : ftoken) : text :=
  kw match k with
  | KIf => "If" | KElse => "Else" | KReturn => "Return" | KFunc => "Func" | KWhile => "While"
  | KDeclare => "Declare" | KTrue => "True" | KFalse => "False" | KBreak => "Break"
  | KContinue => "Continue" | KLte => "Lte" | KGte => "Gte" | KEq => "Eq" | KNeq => "Neq"
  | KAnd => "And" | KOr => "Or" | KAssign => "Assign" | KSemi => "Semi" | KComma => "Comma"
  | KDot => "Dot" | KOpenParen => "OpenParen" | KCloseParen => "CloseParen"
  | KOpenBrace => "OpenBrace" | KCloseBrace => "CloseBrace" | KOpenBracket => "OpenBracket"
  | KCloseBracket => "CloseBracket" | KBang => "Bang" | KLt => "Lt" | KGt => "Gt"
  | KMinus => "Minus" | KPlus => "Plus" | KStar => "Star" | KSlash => "Slash" | KCaret => "Caret"
  | KPercent => "Percent" | KIllegal => "Illegal" | KEof => "Eof"
  end.

Definition render_token (t : token) : text :=
  match t with
  | TIdent s => kw "Identifier:" ++ cps s
  | TIntLit s => kw "Int:" ++ cps s
  | TFloatLit s => kw "Float:" ++ cps s
  | TStringLit s => kw "String:" ++ cps s
  | TFix k => ftoken_name k
  end.

Fixpoint render_tokens (l : list (token * Z)) : text :=
  match l with
  | [] => []
  | (t, e) :: r => render_token t ++ 64%N :: show_Z e ++ 59%N :: render_tokens r
  end.

(** * syntax trees *)
Definition operator_name (o : operator) : text :=
  kw match o with
  | OpAdd => "Add" | OpSubtract => "Subtract" | OpMultiply => "Multiply" | OpDivide => "Divide"
  | OpGt => "Gt" | OpGte => "Gte" | OpLt => "Lt" | OpLte => "Lte" | OpEq => "Eq" | OpNeq => "Neq"
  | OpNot => "Not" | OpNegate => "Negate" | OpAnd => "And" | OpOr => "Or" | OpModulo => "Modulo"
  | OpAssign => "Assign"
  end.

Definition sp : text := [32%N].
Definition lp : text := [40%N].
Definition rp : text := [41%N].

Fixpoint sep_by {A} (f : A -> text) (l : list A) : text :=
  match l with
  | [] => []
  | [x] => f x
  | x :: r => f x ++ sp ++ sep_by f r
  end.

Fixpoint render_expr (e : expr) : text :=
  let blk := fix blk (b : list stmt) : text :=
               lp ++ (fix go (l : list stmt) : text :=
                        match l with
                        | [] => []
                        | [s] => render_stmt s
                        | s :: r => render_stmt s ++ sp ++ go r
                        end) b ++ rp in
  let exprs := fix go (l : list expr) : text :=
                 match l with
                 | [] => []
                 | [x] => render_expr x
                 | x :: r => render_expr x ++ sp ++ go r
                 end in
  match e with
  | EInfix l o r => kw "Infix(" ++ render_expr l ++ sp ++ operator_name o ++ sp ++ render_expr r ++ rp
  | EPrefix o r => kw "Prefix(" ++ operator_name o ++ sp ++ render_expr r ++ rp
  | EInt z => kw "Int(" ++ show_Z z ++ rp
  | EFloat f => kw "Float(" ++ show_float_bits f ++ rp
  | EBool b => kw "Bool(" ++ kw (if b then "true" else "false") ++ rp
  | EIf c t e' =>
      kw "If(" ++ render_expr c ++ sp ++ blk t ++ sp
         ++ match e' with Some b => kw "Some(" ++ blk b ++ rp | None => kw "None" end ++ rp
  | EIdent s => kw "Identifier(" ++ quoted s ++ rp
  | EFunction n ps b =>
      kw "Function(" ++ quoted n ++ sp ++ lp ++ sep_by quoted ps ++ rp ++ sp ++ blk b ++ rp
  | ECall f args => kw "Call(" ++ render_expr f ++ sp ++ lp ++ exprs args ++ rp ++ rp
  | EAssign l r => kw "Assign(" ++ render_expr l ++ sp ++ render_expr r ++ rp
  | EString s => kw "String(" ++ quoted s ++ rp
  | EArray vs => kw "Array(" ++ lp ++ exprs vs ++ rp ++ rp
  | EIndex l i => kw "Index(" ++ render_expr l ++ sp ++ render_expr i ++ rp
  | EWhile c b => kw "While(" ++ render_expr c ++ sp ++ blk b ++ rp
  end
with render_stmt (s : stmt) : text :=
  match s with
  | SLet n e => kw "Let(" ++ quoted n ++ sp ++ render_expr e ++ rp
  | SReturn e => kw "Return(" ++ render_expr e ++ rp
  | SExpr e => kw "Expr(" ++ render_expr e ++ rp
  | SBlock b => kw "Block(" ++ lp ++ (fix go (l : list stmt) : text :=
                                      match l with
                                      | [] => []
                                      | [s] => render_stmt s
                                      | s :: r => render_stmt s ++ sp ++ go r
                                      end) b ++ rp ++ rp
  | SBreak => kw "Break"
  | SContinue => kw "Continue"
  end.

Definition render_block (b : list stmt) : text := lp ++ sep_by render_stmt b ++ rp.

Definition errkind_name (k : errkind) : text :=
  kw match k with
  | ETypeError => "Type" | ESyntaxError => "Syntax" | EReferenceError => "Reference"
  | EIndexError => "Index" | EArgumentError => "Argument"
  end.

Definition fault_name (f : fault) : text :=
  kw match f with
  | FPopEmpty => "pop-empty-stack" | FFetchOutside => "fetch-outside-code"
  | FOperandOutside => "operand-outside-code" | FBadOpcode => "invalid-opcode"
  | FBadBuiltin => "invalid-builtin" | FLocalSlot => "local-slot" | FConstIndex => "const-index"
  | FNoFrame => "no-frame" | FCallUnderflow => "call-underflow" | FUseAfterFree => "use-after-free"
  | FDoubleFree => "double-free" | FBadTag => "bad-tag" | FUnwrap => "unwrap" | FOverflow => "overflow"
  end.

Definition render_parse (r : outcome block) : text :=
  match r with
  | Ok b => kw "OK " ++ render_block b
  | Err k => kw "ERR " ++ errkind_name k
  | Fault f => kw "PANIC " ++ fault_name f
  | OutOfFuel => kw "OUT-OF-FUEL"
  end.

(* unicode oracle from a finite table (code point, alphabetic, alphanumeric) *)
Fixpoint utab_lookup (c : cp) (l : list (N * bool * bool)) : bool * bool :=
  match l with
  | [] => (false, false)
  | (d, a, n) :: r => if (c =? d)%N then (a, n) else utab_lookup c r
  end.
Definition unicode_of (l : list (N * bool * bool)) : unicode :=
  mkUnicode (fun c => fst (utab_lookup c l)) (fun c => snd (utab_lookup c l)).

(* f64 parse oracle from a finite table *)
Fixpoint ptab_lookup (s : text) (l : list (text * option float)) : option float :=
  match l with
  | [] => None
  | (t, f) :: r => if text_eqb s t then f else ptab_lookup s r
  end.
