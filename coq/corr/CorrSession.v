(* CorrSession.v - C17: a retained (Compiler, VM) pair fed line after line (harness `session`)
   against model/Session.v, and against the meaning of the session, spec/SemSession.v. *)
From Coq Require Import Floats Uint63.
From NL.Model Require Export Session.
From NL.Spec Require Export SemSession.
From NL.Corr Require Export CorrSem.
Open Scope Z_scope.

(* after a run-time error the number of operands left behind depends on how far the failing instruction
   got (the model reports the state before it); it is never observable: the next run starts clean *)
Definition render_line_obs (o : line_obs) : text :=
  let h := lo_heap o in
  (match lo_result o with
   | Ok v => kw "OK " ++ fst (walk 50 h v [])
   | Err k => kw "ERR " ++ errkind_name k
   | Fault f => kw "PANIC " ++ fault_name f
   | OutOfFuel => kw "BUDGET"
   end) ++ kw " OUT " ++ cps (lo_out o) ++ kw " ST " ++ (match lo_result o with Err _ => kw "?" | _ => show_Z (lo_stack o) end) ++ sp ++ show_Z (lo_frames o) ++ sp
       ++ show_Z (lo_code o) ++ sp ++ show_Z (lo_loops o) ++ kw " ;; ".

Fixpoint render_lines (l : list line_obs) : text :=
  match l with [] => [] | o :: r => render_line_obs o ++ render_lines r end.

Definition render_line_result (r : line_result) : text :=
  match r with
  | LRejected k => kw "ERR " ++ errkind_name k ++ kw " OUT -"
  | LValue v h out => kw "OK " ++ fst (swalk 5000 h v []) ++ kw " OUT " ++ cps out
  | LError k out => kw "ERR " ++ errkind_name k ++ kw " OUT " ++ cps out
  | LFault f out => kw "PANIC " ++ fault_name f ++ kw " OUT " ++ cps out
  | LFuel => kw "BUDGET"
  end ++ kw " ;; ".

Inductive sscase : Type := SSCase (budget : N) (lines : list text) (obs : Uint63.int) (spec_obs : Uint63.int).

Section Tables.
  Variable utab : list (N * bool * bool).
  Variable stab : list (float * text).
  Variable ptab : list (text * option float).
  Variable rtab : list (float * float * float).

  Definition model_session (budget : N) (lines : list text) : text :=
    render_lines (run_session (the_u utab) (the_orc stab ptab rtab) (N.to_nat budget) session_new lines).

  Fixpoint sem_lines (fuel : nat) (s : sem_session) (lines : list text) : text :=
    match lines with
    | [] => []
    | l :: r =>
        match parse (the_u utab) (parse_float (the_orc stab ptab rtab)) l with
        | Ok ast =>
            let '(s', res) := sem_line' (the_orc stab ptab rtab) fuel s ast in
            render_line_result res ++ sem_lines fuel s' r
        | Err k => kw "ERR " ++ errkind_name k ++ kw " OUT - ;; " ++ sem_lines fuel s r
        | Fault f => kw "PANIC " ++ fault_name f ++ kw " ;; " ++ sem_lines fuel s r
        | OutOfFuel => kw "OUT-OF-FUEL ;; " ++ sem_lines fuel s r
        end
    end.
  Definition spec_session (lines : list text) : text := sem_lines 3000 sem_session_new lines.

  (* bit 0: the model disagrees; bit 1: the specification disagrees *)
  Definition sscheck_model (c : sscase) : bool :=
    match c with SSCase b ls o _ => hash_is (model_session b ls) o end.
  Definition sscheck_spec (c : sscase) : bool :=
    match c with SSCase _ ls _ o => hash_is (spec_session ls) o end.
End Tables.
