(* CorrFront.v - lexer and parser stages: Lexer.v / Parser.v against lexer.rs / parser.rs *)
From Coq Require Uint63.
From NL.Corr Require Export Render.
Open Scope Z_scope.

Inductive fcase : Type :=
| FTok (src : text) (obs : Uint63.int)       (* hash of the implementation's observation *)
| FParse (src : text) (obs : Uint63.int).

Section Tables.
  Variable utab : list (N * bool * bool).
  Variable ptab : list (text * option float).

  Definition model_tokens (src : text) : text := render_tokens (lex (unicode_of utab) src).
  Definition model_parse (src : text) : text :=
    render_parse (parse (unicode_of utab) (fun s => ptab_lookup s ptab) src).

  Definition check (c : fcase) : bool :=
    match c with
    | FTok s o => hash_is (model_tokens s) o
    | FParse s o => hash_is (model_parse s) o
    end.
End Tables.
