(* Symbols.v - the symbol table of symbols.rs, as written (after the repair of D15 and with the
   checkpoint/rollback of D24c).  Vectors are lists in Vec order: the global context first and the
   current context last; within a context the outermost scope first and the innermost last.
   Definitions only. *)
From NL.Model Require Export Base.
Open Scope Z_scope.

Inductive scope : Set := SLocal | SGlobal.
Definition scope_eqb (a b : scope) : bool :=
  match a, b with SLocal, SLocal | SGlobal, SGlobal => true | _, _ => false end.

Record symbol : Type := mkSymbol { s_scope : scope; s_index : nat }.

Record context : Type := mkContext {
  c_scope : scope;
  c_max : nat;                      (* max_size: number of defines so far *)
  c_syms : list (list text)
}.

Definition symtab := list context.

Definition context_new (s : scope) : context := mkContext s 0 [[]].
Definition symtab_new : symtab := [context_new SGlobal].

Definition total_len (c : context) : nat := fold_left (fun acc s => (acc + length s)%nat) (c_syms c) 0%nat.

(* push onto the last element of a list of lists *)
Fixpoint push_last (name : text) (l : list (list text)) : list (list text) :=
  match l with
  | [] => []                          (* unwrap() on an empty vector: never, a context has >= 1 scope *)
  | [s] => [s ++ [name]]
  | s :: r => s :: push_last name r
  end.

(* Context::define *)
Definition context_define (c : context) (name : text) : context * symbol :=
  let c' := mkContext (c_scope c) (S (c_max c)) (push_last name (c_syms c)) in
  (c', mkSymbol (c_scope c) (total_len c' - 1)).

(* iter().rposition(|n| n == name) *)
Fixpoint rposition_from (name : text) (l : list text) (i : nat) (acc : option nat) : option nat :=
  match l with
  | [] => acc
  | n :: r => rposition_from name r (S i) (if text_eqb n name then Some i else acc)
  end.
Definition rposition (name : text) (l : list text) : option nat := rposition_from name l 0%nat None.

(* Context::resolve: scopes innermost first, abs_index counts down from total_len *)
Fixpoint resolve_scopes (name : text) (rev_scopes : list (list text)) (abs : nat) : option nat :=
  match rev_scopes with
  | [] => None
  | s :: r =>
      let abs' := (abs - length s)%nat in
      match rposition name s with
      | Some i => Some (abs' + i)%nat
      | None => resolve_scopes name r abs'
      end
  end.
Definition context_resolve (c : context) (name : text) : option symbol :=
  option_map (mkSymbol (c_scope c)) (resolve_scopes name (rev (c_syms c)) (total_len c)).

Fixpoint update_last {A} (f : A -> A) (l : list A) : list A :=
  match l with
  | [] => []
  | [x] => [f x]
  | x :: r => x :: update_last f r
  end.

Definition current_context (t : symtab) : context := last t (context_new SGlobal).

Definition in_global_context (t : symtab) : bool := Nat.eqb (length t) 1.
Definition new_context (t : symtab) : symtab := t ++ [context_new SLocal].
(* leave_context: pops the current context, returns its max_size *)
Definition leave_context (t : symtab) : symtab * nat := (removelast t, c_max (current_context t)).
Definition enter_scope (t : symtab) : symtab :=
  update_last (fun c => mkContext (c_scope c) (c_max c) (c_syms c ++ [[]])) t.
Definition leave_scope (t : symtab) : symtab :=
  update_last (fun c => mkContext (c_scope c) (c_max c) (removelast (c_syms c))) t.

Definition define (t : symtab) (name : text) : symtab * symbol :=
  let '(c', s) := context_define (current_context t) name in
  (update_last (fun _ => c') t, s).

(* SymbolTable::resolve: the current context, then (from inside a function) the global one *)
Definition resolve (t : symtab) (name : text) : option symbol :=
  match context_resolve (current_context t) name with
  | Some s => Some s
  | None =>
      if Nat.ltb 1 (length t) then
        match t with c0 :: _ => context_resolve c0 name | [] => None end
      else None
  end.

Definition checkpoint (t : symtab) : nat :=
  match t with
  | c0 :: _ => match c_syms c0 with s0 :: _ => length s0 | [] => 0%nat end
  | [] => 0%nat
  end.
Definition rollback (t : symtab) (n : nat) : symtab :=
  match t with
  | c0 :: _ =>
      [mkContext (c_scope c0) (c_max c0)
                 (match c_syms c0 with s0 :: _ => [firstn n s0] | [] => [] end)]
  | [] => []
  end.
