(* GC.v - the mark & sweep collector of gc.rs (after the repair of D13), as written:
   `objects` in Vec order with swap_remove, the mark bitmap, the address->position map built
   per run, recursive mark that stops on an already marked array, sweep over the zero bits in
   reverse order.  Frees go through the heap ledger of Value.v, so a double free or a visit of a
   released box is a Fault, not a no-op.  Definitions only. *)
From NL.Model Require Export Value.
Open Scope Z_scope.

Record gc : Type := mkGC {
  objects : list val;        (* managed heap objects, in the order of the Rust vector *)
  bitmap : list bool         (* mark bits; only meaningful between the start of run and sweep *)
}.

Definition gc_new : gc := mkGC [] [].

(* Vec::swap_remove *)
Definition swap_remove {A} (i : nat) (l : list A) : list A :=
  match nth_error l i with
  | None => l                                   (* Rust panics; callers never do this *)
  | Some _ =>
      match rev l with
      | [] => l
      | last :: _ =>
          let n := length l in
          if Nat.eqb i (n - 1) then firstn i l
          else firstn i l ++ last :: firstn (n - 1 - (i + 1)) (skipn (i + 1) l)
      end
  end.

Definition same_box (a b : val) : bool :=
  match val_loc a, val_loc b with
  | Some l, Some k => Pos.eqb l k
  | _, _ => false
  end.

(* iter().position(|a| ptr::eq(a.as_ptr(), o.as_ptr())) : first match *)
Fixpoint position_of (o : val) (l : list val) : option nat :=
  match l with
  | [] => None
  | a :: r => if same_box a o then Some 0%nat else option_map S (position_of o r)
  end.

(* the HashMap collected in run(): a later entry for the same address overwrites an earlier one *)
Fixpoint last_position_from (o : val) (l : list val) (i : nat) (acc : option nat) : option nat :=
  match l with
  | [] => acc
  | a :: r => last_position_from o r (S i) (if same_box a o then Some i else acc)
  end.
Definition last_position (o : val) (l : list val) : option nat := last_position_from o l 0%nat None.

(* GC::trace / GC::maybe_trace *)
Definition trace (g : gc) (v : val) : gc := mkGC (objects g ++ [v]) (bitmap g).
Definition maybe_trace (g : gc) (v : val) : gc := if is_heap_val v then trace g v else g.

(* Object::free through the ledger *)
Definition free_val (h : heap) (v : val) : outcome heap :=
  match val_loc v with
  | Some l => h_free h l
  | None => Ok h
  end.

(* GC::untrace: fuel bounds the recursion depth; every successful descent removes an object *)
Fixpoint untrace_fuel (fuel : nat) (h : heap) (g : gc) (o : val) : outcome gc :=
  match fuel with
  | O => OutOfFuel
  | S f =>
      match position_of o (objects g) with
      | None => Ok g
      | Some pos =>
          let g1 := mkGC (swap_remove pos (objects g)) (bitmap g) in
          do g2 <- match o with
                   | VArr l =>
                       do vs <- get_arr h l;
                       fold_left (fun acc v => do ga <- acc; untrace_fuel f h ga v) vs (Ok g1)
                   | _ => Ok g1
                   end;
          Ok (mkGC (objects g2) (firstn (length (objects g2)) (bitmap g2)))
      end
  end.
Definition untrace (h : heap) (g : gc) (o : val) : outcome gc :=
  untrace_fuel (S (length (objects g))) h g o.

Definition set_bit (i : nat) (b : list bool) : list bool := replace_nth i true b.
Definition get_bit (i : nat) (b : list bool) : bool := nth i b false.

(* GC::mark.  `univ` is the objects vector the position map was built from. *)
Fixpoint mark_fuel (fuel : nat) (h : heap) (univ : list val) (bits : list bool) (o : val)
  : outcome (list bool) :=
  match fuel with
  | O => OutOfFuel
  | S f =>
      if negb (is_heap_val o) then Ok bits
      else match last_position o univ with
           | None => Ok bits                     (* not managed by this collector *)
           | Some idx =>
               match o with
               | VArr l =>
                   if get_bit idx bits then Ok bits
                   else do vs <- get_arr h l;
                        fold_left (fun acc v => do b <- acc; mark_fuel f h univ b v) vs
                                  (Ok (set_bit idx bits))
               | _ => Ok (set_bit idx bits)
               end
           end
  end.

(* indices of the zero bits, highest first: iter_zeros().rev() *)
Fixpoint zeros_from (i : nat) (b : list bool) : list nat :=
  match b with
  | [] => []
  | x :: r => let rest := zeros_from (S i) r in if x then rest else rest ++ [i]
  end.
Definition zeros_rev (b : list bool) : list nat := zeros_from 0%nat b.

(* GC::sweep *)
Definition sweep (h : heap) (g : gc) : outcome (gc * heap) :=
  do (objs, h') <-
     fold_left (fun acc i =>
                  do (objs, hh) <- acc;
                  match nth_error objs i with
                  | None => Fault FUnwrap                  (* swap_remove out of bounds panics *)
                  | Some o => do h2 <- free_val hh o; Ok (swap_remove i objs, h2)
                  end)
               (zeros_rev (bitmap g)) (Ok (objects g, h));
  Ok (mkGC objs (firstn (length objs) (bitmap g)), h').

(* GC::run(roots) *)
Definition gc_run (h : heap) (g : gc) (roots : list val) : outcome (gc * heap) :=
  match objects g with
  | [] => Ok (g, h)
  | _ =>
      let bits0 := repeat_val false (length (objects g)) in
      do bits <- fold_left (fun acc r => do b <- acc; mark_fuel (S (length (objects g))) h (objects g) b r)
                           roots (Ok bits0);
      sweep h (mkGC (objects g) bits)
  end.

(* GC::destroy (also run by Drop) *)
Definition gc_destroy (h : heap) (g : gc) : outcome (gc * heap) :=
  sweep h (mkGC (objects g) (repeat_val false (length (objects g)))).
