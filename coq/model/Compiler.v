(* Compiler.v - the bytecode compiler of compiler.rs, as written (after the repairs of D5, D10,
   D11, D12, D18, D24c, D28): one growing byte buffer, `last_instruction`, jumps patched
   afterwards.  Structural recursion on the tree (no fuel).  Definitions only. *)
From NL.Model Require Export Ast Symbols.
Open Scope Z_scope.

Inductive const : Type :=
| KInt (z : Z)
| KFloat (f : float)
| KStr (s : text)
| KFun (ip n : Z).

Record loopctx : Type := mkLoop { l_start : Z; l_breaks : list Z }.

Record cstate : Type := mkC {
  c_symbols : symtab;
  c_constants : list const;
  c_code : list Z;                    (* bytes, in order *)
  c_last : option opcode;
  c_loops : list loopctx;             (* innermost last *)
  c_lit_allocs : Z                    (* heap objects created for literals (compiler's own collector) *)
}.

Definition compiler_new : cstate := mkC symtab_new [] [] None [] 0.

Record bytecode : Type := mkBytecode { b_constants : list const; b_code : list Z }.

Definition code_len (st : cstate) : Z := zlength (c_code st).

Definition set_symbols st t := mkC t (c_constants st) (c_code st) (c_last st) (c_loops st) (c_lit_allocs st).
Definition set_loops st l := mkC (c_symbols st) (c_constants st) (c_code st) (c_last st) l (c_lit_allocs st).

Definition emit_opcode (op : opcode) (st : cstate) : cstate :=
  mkC (c_symbols st) (c_constants st) (c_code st ++ [byte_of_opcode op]) (Some op) (c_loops st) (c_lit_allocs st).
Definition emit_u8 (v : Z) (st : cstate) : cstate :=
  mkC (c_symbols st) (c_constants st) (c_code st ++ [v]) (c_last st) (c_loops st) (c_lit_allocs st).
Definition emit_u16 (v : Z) (st : cstate) : cstate :=
  mkC (c_symbols st) (c_constants st) (c_code st ++ [v mod 256; (v / 256) mod 256]) (c_last st) (c_loops st) (c_lit_allocs st).

(* operand::<T>(value): the conversion that fails for programs too large for the format *)
Definition operand (bits : Z) (v : Z) : outcome Z :=
  if v <? 2 ^ bits then Ok v else Err ESyntaxError.

Definition change_jump_operand_at (idx v : Z) (st : cstate) : outcome cstate :=
  match nth_error (c_code st) (Z.to_nat idx) with
  | Some b =>
      if (b =? byte_of_opcode OJump) || (b =? byte_of_opcode OJumpIfFalse) then
        Ok (mkC (c_symbols st) (c_constants st)
                (replace_nth (Z.to_nat (idx + 2)) ((v / 256) mod 256)
                   (replace_nth (Z.to_nat (idx + 1)) (v mod 256) (c_code st)))
                (c_last st) (c_loops st) (c_lit_allocs st))
      else Fault FUnwrap                 (* the assert! of change_jump_operand_at *)
  | None => Fault FUnwrap
  end.

Definition last_instruction_is (op : opcode) (st : cstate) : bool :=
  match c_last st with Some o => opcode_eqb o op | None => false end.

Definition remove_last_instruction (st : cstate) : cstate :=
  mkC (c_symbols st) (c_constants st) (removelast (c_code st)) None (c_loops st) (c_lit_allocs st).

(* the `c.tag() == obj.tag() && c == &obj` of add_constant *)
Definition const_eqb (a b : const) : bool :=
  match a, b with
  | KInt x, KInt y => x =? y
  | KFloat x, KFloat y => PrimFloat.eqb x y
  | KStr x, KStr y => text_eqb x y
  | KFun i n, KFun j m => (i =? j) && (n =? m)
  | _, _ => false
  end.

Fixpoint const_position (k : const) (l : list const) : option nat :=
  match l with
  | [] => None
  | c :: r => if const_eqb c k then Some 0%nat else option_map S (const_position k r)
  end.

(* add_constant: the pool may grow even when the index does not fit any more *)
Definition add_constant (k : const) (st : cstate) : cstate * outcome Z :=
  match const_position k (c_constants st) with
  | Some pos => (st, operand 16 (Z.of_nat pos))
  | None =>
      (mkC (c_symbols st) (c_constants st ++ [k]) (c_code st) (c_last st) (c_loops st) (c_lit_allocs st),
       operand 16 (zlength (c_constants st)))
  end.

Definition count_alloc (st : cstate) : cstate :=
  mkC (c_symbols st) (c_constants st) (c_code st) (c_last st) (c_loops st) (c_lit_allocs st + 1).

Definition emit_const (k : const) (st : cstate) : outcome cstate :=
  let '(st1, r) := add_constant k st in
  do idx <- r;
  Ok (emit_u16 idx (emit_opcode OConst st1)).

Definition scoped (s : symbol) (g l : opcode) : opcode :=
  match s_scope s with SGlobal => g | SLocal => l end.

Definition emit_sym (op : opcode) (s : symbol) (st : cstate) : outcome cstate :=
  let st1 := emit_opcode op st in
  do idx <- operand 16 (Z.of_nat (s_index s));
  Ok (emit_u16 idx st1).

(* compile_const_var_infix_expression: Ok true = the fused instruction was emitted *)
Definition compile_const_var_infix (name : text) (v : Z) (op : operator) (st : cstate) : cstate * bool :=
  let '(st1, r) := add_constant (KInt v) st in
  match r with
  | Ok idx =>
      match resolve (c_symbols st1) name with
      | Some s =>
          match s_scope s, assoc operator_eqb op fused_table with
          | SLocal, Some opc =>
              match operand 16 (Z.of_nat (s_index s)) with
              | Ok i => (emit_u16 idx (emit_u16 i (emit_opcode opc st1)), true)
              | _ => (emit_opcode opc st1, false)
              end
          | _, _ => (st1, false)
          end
      | None => (st1, false)
      end
  | _ => (st1, false)
  end.

Definition fused_candidate (l r : expr) (op : operator) : option (text * Z * operator) :=
  match l, r with
  | EIdent name, EInt v => Some (name, v, op)
  | EInt v, EIdent name =>
      match assoc operator_eqb op mirror_table with
      | Some op' => Some (name, v, op')
      | None => None
      end
  | _, _ => None
  end.

Definition is_nil {A} (l : list A) : bool := match l with [] => true | _ => false end.

Fixpoint compile_expression (e : expr) (st : cstate) {struct e} : outcome cstate :=
  let stmts := fix stmts (l : list stmt) (st : cstate) {struct l} : outcome cstate :=
                 match l with
                 | [] => Ok st
                 | s :: r => do st' <- compile_statement s st; stmts r st'
                 end in
  let exprs := fix exprs (l : list expr) (st : cstate) {struct l} : outcome cstate :=
                 match l with
                 | [] => Ok st
                 | x :: r => do st' <- compile_expression x st; exprs r st'
                 end in
  (* compile_block_statement *)
  let block_statement := fun (b : list stmt) (st : cstate) =>
    if is_nil b then Ok (emit_opcode ONull st)
    else do st1 <- stmts b (set_symbols st (enter_scope (c_symbols st)));
         Ok (set_symbols st1 (leave_scope (c_symbols st1))) in
  (* compile_block_value *)
  let block_value := fun (b : list stmt) (st : cstate) =>
    do st1 <- block_statement b st;
    if is_nil b then Ok st1
    else if last_instruction_is OPop st1 then Ok (remove_last_instruction st1)
    else Ok (emit_opcode ONull st1) in
  match e with
  | EBool b => Ok (emit_opcode (if b then OTrue else OFalse) st)
  | EFloat f => emit_const (KFloat f) (count_alloc st)
  | EInt z => emit_const (KInt z) st
  | EString s => emit_const (KStr s) (count_alloc st)
  | EIdent name =>
      match resolve (c_symbols st) name with
      | Some s => emit_sym (scoped s OGetGlobal OGetLocal) s st
      | None => Err EReferenceError
      end
  | EPrefix op r =>
      do st1 <- compile_expression r st;
      match op with
      | OpNegate | OpSubtract => Ok (emit_opcode ONegate st1)
      | OpNot => Ok (emit_opcode ONot st1)
      | _ => Err ETypeError
      end
  | EAssign l r =>
      match l with
      | EIdent name =>
          match resolve (c_symbols st) name with
          | Some s =>
              do st1 <- compile_expression r st;
              do st2 <- emit_sym (scoped s OSetGlobal OSetLocal) s st1;
              emit_sym (scoped s OGetGlobal OGetLocal) s st2
          | None => Err EReferenceError
          end
      | EIndex l' i =>
          do st1 <- compile_expression l' st;
          do st2 <- compile_expression i st1;
          do st3 <- compile_expression r st2;
          Ok (emit_opcode OIndexSet st3)
      | _ => Err ETypeError
      end
  | EInfix l op r =>
      let generic := fun st0 =>
        do st1 <- compile_expression l st0;
        do st2 <- compile_expression r st1;
        match assoc operator_eqb op compile_operator_table with
        | Some opc => Ok (emit_opcode opc st2)
        | None => Fault FUnwrap                       (* panic!("unexpected operator") *)
        end in
      match fused_candidate l r op with
      | Some (name, v, op') =>
          let '(st1, done) := compile_const_var_infix name v op' st in
          if done : bool then Ok st1 else generic st1
      | None => generic st
      end
  | EIf c t alt =>
      do st1 <- compile_expression c st;
      let pos_jif := code_len st1 in
      let st2 := emit_u16 JUMP_PLACEHOLDER (emit_opcode OJumpIfFalse st1) in
      do st3 <- block_value t st2;
      let pos_jump := code_len st3 in
      let st4 := emit_u16 JUMP_PLACEHOLDER (emit_opcode OJump st3) in
      do target <- operand 16 (code_len st4);
      do st5 <- change_jump_operand_at pos_jif target st4;
      do st6 <- match alt with
                | Some b => block_value b st5
                | None => Ok (emit_opcode ONull st5)
                end;
      do target2 <- operand 16 (code_len st6);
      change_jump_operand_at pos_jump target2 st6
  | EWhile c body =>
      let st1 := emit_opcode ONull st in
      let start := code_len st1 in
      let st2 := set_loops st1 (c_loops st1 ++ [mkLoop start []]) in
      do st3 <- compile_expression c st2;
      let pos_jif := code_len st3 in
      let st4 := emit_opcode OPop (emit_u16 JUMP_PLACEHOLDER (emit_opcode OJumpIfFalse st3)) in
      do st5 <- block_value body st4;
      let st6 := emit_opcode OJump st5 in
      do back <- operand 16 start;
      let st7 := emit_u16 back st6 in
      do target <- operand 16 (code_len st7);
      do st8 <- change_jump_operand_at pos_jif target st7;
      match rev (c_loops st8) with
      | [] => Fault FUnwrap                           (* loop_contexts.pop().unwrap() *)
      | ctx :: rest =>
          let st9 := set_loops st8 (rev rest) in
          fold_left (fun acc ip => do s <- acc;
                                   do tg <- operand 16 (code_len s);
                                   change_jump_operand_at ip tg s)
                    (l_breaks ctx) (Ok st9)
      end
  | EFunction name params body =>
      let '(st1, sym) :=
        if is_nil name then (st, None)
        else let '(t, s) := define (c_symbols st) name in (set_symbols st t, Some s) in
      let pos_jump := code_len st1 in
      let st2 := emit_u16 JUMP_PLACEHOLDER (emit_opcode OJump st1) in
      let t3 := fold_left (fun t p => fst (define t p)) params (new_context (c_symbols st2)) in
      let st3 := set_symbols st2 t3 in
      let pos_start := code_len st3 in
      let outer_loops := c_loops st3 in
      do st4 <- block_statement body (set_loops st3 []);
      let st5 := set_loops st4 outer_loops in
      let st6 := if last_instruction_is OPop st5 then emit_opcode OReturnValue (remove_last_instruction st5)
                 else if last_instruction_is OReturnValue st5 then st5
                 else emit_opcode OReturn st5 in
      do target <- operand 16 (code_len st6);
      do st7 <- change_jump_operand_at pos_jump target st6;
      let '(t8, num_locals) := leave_context (c_symbols st7) in
      let st8 := set_symbols st7 t8 in
      do ip <- operand 32 pos_start;
      do nl <- operand 16 (Z.of_nat num_locals);
      let '(st9, r) := add_constant (KFun ip nl) st8 in
      do idx <- r;
      let st10 := emit_u16 idx (emit_opcode OConst st9) in
      match sym with
      | Some s =>
          do st11 <- emit_sym (scoped s OSetGlobal OSetLocal) s st10;
          Ok (emit_u16 idx (emit_opcode OConst st11))
      | None => Ok st10
      end
  | ECall f args =>
      do st1 <- exprs args st;
      let builtin := match f with
                     | EIdent name => assoc_text name builtin_names
                     | _ => None
                     end in
      match builtin with
      | Some b =>
          let st2 := emit_u8 (byte_of_builtin b) (emit_opcode OCallBuiltin st1) in
          do n <- operand 8 (zlength args);
          Ok (emit_u8 n st2)
      | None =>
          do st2 <- compile_expression f st1;
          let st3 := emit_opcode OCall st2 in
          do n <- operand 8 (zlength args);
          Ok (emit_u8 n st3)
      end
  | EArray vs =>
      do st1 <- exprs vs st;
      let st2 := emit_opcode OArray st1 in
      do n <- operand 16 (zlength vs);
      Ok (emit_u16 n st2)
  | EIndex l i =>
      do st1 <- compile_expression l st;
      do st2 <- compile_expression i st1;
      Ok (emit_opcode OIndexGet st2)
  end

with compile_statement (s : stmt) (st : cstate) {struct s} : outcome cstate :=
  match s with
  | SExpr e => do st1 <- compile_expression e st; Ok (emit_opcode OPop st1)
  | SBlock b =>
      if is_nil b then Ok (emit_opcode OPop (emit_opcode ONull st))
      else
        do st1 <- (fix stmts (l : list stmt) (st : cstate) {struct l} : outcome cstate :=
                     match l with
                     | [] => Ok st
                     | x :: r => do st' <- compile_statement x st; stmts r st'
                     end) b (set_symbols st (enter_scope (c_symbols st)));
        Ok (set_symbols st1 (leave_scope (c_symbols st1)))
  | SLet name v =>
      let '(t, sym) := define (c_symbols st) name in
      do st1 <- compile_expression v (set_symbols st t);
      emit_sym (scoped sym OSetGlobal OSetLocal) sym st1
  | SReturn e =>
      if in_global_context (c_symbols st) then Err ESyntaxError
      else do st1 <- compile_expression e st; Ok (emit_opcode OReturnValue st1)
  | SBreak =>
      let st1 := emit_opcode ONull st in
      let pos := code_len st1 in
      let st2 := emit_u16 JUMP_PLACEHOLDER (emit_opcode OJump st1) in
      match rev (c_loops st2) with
      | [] => Err ESyntaxError
      | ctx :: rest => Ok (set_loops st2 (rev (mkLoop (l_start ctx) (l_breaks ctx ++ [pos]) :: rest)))
      end
  | SContinue =>
      let st1 := emit_opcode ONull st in
      match rev (c_loops st1) with
      | [] => Err ESyntaxError
      | ctx :: _ =>
          let st2 := emit_opcode OJump st1 in
          do pos <- operand 16 (l_start ctx);
          Ok (emit_u16 pos st2)
      end
  end.

Fixpoint compile_statements (l : list stmt) (st : cstate) : outcome cstate :=
  match l with
  | [] => Ok st
  | s :: r => do st' <- compile_statement s st; compile_statements r st'
  end.

(* compile_program + the rollback of compile_ast.  Returns the retained compiler as well. *)
Definition compile_ast (ast : block) (st : cstate) : cstate * outcome bytecode :=
  let cp := checkpoint (c_symbols st) in
  match compile_statements ast st with
  | Ok st1 =>
      let st2 := emit_opcode OHalt st1 in
      (mkC (c_symbols st2) (c_constants st2) [] (c_last st2) (c_loops st2) (c_lit_allocs st2),
       Ok (mkBytecode (c_constants st2) (c_code st2)))
  | Err k =>
      (mkC (rollback (c_symbols st) cp) (c_constants st) [] None [] (c_lit_allocs st), Err k)
  | Fault f => (st, Fault f)
  | OutOfFuel => (st, OutOfFuel)
  end.

Definition compile (ast : block) : outcome bytecode := snd (compile_ast ast compiler_new).
