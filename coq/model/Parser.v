(* Parser.v - the Pratt parser of parser.rs on the token stream, as written (after the repairs
   of D4, D14, D19, D20).  Every Rust function is one Gallina function of the same name; loops are
   recursion; `fuel` bounds the depth of the call tree (theorem parse_terminates: a fuel linear
   in the number of tokens is never exhausted).  Definitions only. *)
From NL.Model Require Export Lexer Ast.
Open Scope Z_scope.

(* the state of the Rust parser: current_token is the head of the remaining tokens, Eof when none *)
Definition cur (ts : list token) : token := match ts with t :: _ => t | [] => TFix KEof end.
Definition advance (ts : list token) : list token := tl ts.

Definition is_fix (k : ftoken) (t : token) : bool :=
  match t with TFix k' => ftoken_eqb k k' | _ => false end.

Definition prec_eqb (a b : prec) : bool :=
  match a, b with
  | PLowest, PLowest | PAssign, PAssign | POrAnd, POrAnd | PEquals, PEquals
  | PLessGreater, PLessGreater | PSum, PSum | PProduct, PProduct | PMethod, PMethod
  | PCall, PCall | PIndex, PIndex => true
  | _, _ => false
  end.
(* derive(PartialOrd) on the enum: declaration order *)
Definition prec_rank (p : prec) : nat :=
  match index_of prec_eqb p prec_list with Some i => i | None => 0%nat end.
Definition prec_lt (a b : prec) : bool := Nat.ltb (prec_rank a) (prec_rank b).

(* Token::precedence *)
Definition token_precedence (t : token) : prec :=
  match t with
  | TFix k => match assoc ftoken_eqb k token_prec with Some p => p | None => PLowest end
  | _ => PLowest
  end.

(* Operator::from(Token); None = unimplemented!() *)
Definition operator_of (t : token) : option operator :=
  match t with TFix k => assoc ftoken_eqb k token_operator | _ => None end.

Definition is_infix_token (t : token) : bool :=
  match t with TFix k => existsb (ftoken_eqb k) infix_tokens | _ => false end.

Definition P (A : Type) := outcome (A * list token).

(* Parser::skip *)
Definition skip (k : ftoken) (ts : list token) : P unit :=
  if is_fix k (cur ts) then Ok (tt, advance ts) else Err ESyntaxError.
(* Parser::skip_optional *)
Definition skip_optional (k : ftoken) (ts : list token) : list token :=
  if is_fix k (cur ts) then advance ts else ts.

(* parse_string_expression: one lhs-to-rhs pass over the raw text *)
Fixpoint decode_string (s : text) : text :=
  match s with
  | [] => []
  | c :: r =>
      if (c =? 92)%N then
        match r with
        | [] => [92%N]
        | e :: r' =>
            if (e =? 34)%N then 34%N :: decode_string r'
            else if (e =? 92)%N then 92%N :: decode_string r'
            else if (e =? 110)%N then 10%N :: decode_string r'
            else if (e =? 116)%N then 9%N :: decode_string r'
            else 92%N :: e :: decode_string r'
        end
      else c :: decode_string r
  end.

Section Parse.
  Variable parse_f64 : text -> option float.     (* str::parse::<f64>, an oracle *)

  (* parse_int_expression: isize::from_str, then the range check against MAX_INT *)
  Definition int_literal (s : text) : outcome expr :=
    match parse_digits s 0%N with
    | Some n => if (Z.of_N n <=? MAX_INT) then Ok (EInt (Z.of_N n)) else Err ESyntaxError
    | None => Err ESyntaxError
    end.

  Definition float_literal (s : text) : outcome expr :=
    match parse_f64 s with
    | Some f => Ok (EFloat f)
    | None => Fault FUnwrap
    end.

  Fixpoint parse_expr (fuel : nat) (p : prec) (ts : list token) : P expr :=
    match fuel with
    | O => OutOfFuel
    | S f =>
        do (lhs, ts1) <-
           match cur ts with
           | TIntLit s => do e <- int_literal s; Ok (e, advance ts)
           | TFloatLit s => do e <- float_literal s; Ok (e, advance ts)
           | TFix KTrue => Ok (EBool true, advance ts)
           | TFix KFalse => Ok (EBool false, advance ts)
           | TStringLit s => Ok (EString (decode_string s), advance ts)
           | TFix KOpenParen =>
               do (e, ts') <- parse_expr f PLowest (advance ts);
               do (_, ts'') <- skip KCloseParen ts';
               Ok (e, ts'')
           | TFix KIf => parse_if_expr f ts
           | TFix KBang | TFix KMinus => parse_prefix_expr f ts
           | TIdent name => Ok (EIdent name, advance ts)
           | TFix KFunc => parse_function_expr f ts
           | TFix KWhile => parse_while_expr f ts
           | TFix KOpenBracket => parse_array_expr f ts
           | _ => Err ESyntaxError
           end;
        parse_loop f p lhs ts1
    end

  (* the `while ... precedence < self.current_token.precedence()` loop of parse_expr *)
  with parse_loop (fuel : nat) (p : prec) (lhs : expr) (ts : list token) : P expr :=
    match fuel with
    | O => OutOfFuel
    | S f =>
        if negb (is_fix KSemi (cur ts)) && prec_lt p (token_precedence (cur ts)) then
          if is_infix_token (cur ts) then
            do (e, ts') <- parse_infix_expr f lhs ts; parse_loop f p e ts'
          else if is_fix KAssign (cur ts) then
            do (e, ts') <- parse_assign_expr f lhs ts; parse_loop f p e ts'
          else if is_fix KOpenParen (cur ts) then
            do (e, ts') <- parse_call_expr f lhs ts; parse_loop f p e ts'
          else if is_fix KOpenBracket (cur ts) then
            do (e, ts') <- parse_index_expr f lhs ts; parse_loop f p e ts'
          else Ok (lhs, ts)
        else Ok (lhs, ts)
    end

  with parse_infix_expr (fuel : nat) (lhs : expr) (ts : list token) : P expr :=
    match fuel with
    | O => OutOfFuel
    | S f =>
        match lhs with
        | EFunction _ _ _ => Err ETypeError
        | _ =>
            match operator_of (cur ts) with
            | None => Fault FUnwrap
            | Some op =>
                let p := token_precedence (cur ts) in
                let ts1 := advance ts in
                if is_fix KAssign (cur ts1) && match lhs with EIdent _ => true | _ => false end then
                  (* parse_op_assign_expression *)
                  do (rhs, ts2) <- parse_expr f PLowest (advance ts1);
                  Ok (EAssign lhs (EInfix lhs op rhs), ts2)
                else
                  do (rhs, ts2) <- parse_expr f p ts1;
                  Ok (EInfix lhs op rhs, ts2)
            end
        end
    end

  with parse_prefix_expr (fuel : nat) (ts : list token) : P expr :=
    match fuel with
    | O => OutOfFuel
    | S f =>
        match operator_of (cur ts) with
        | None => Fault FUnwrap
        | Some op =>
            let p := token_precedence (cur ts) in
            do (rhs, ts') <- parse_expr f p (advance ts);
            Ok (EPrefix op rhs, ts')
        end
    end

  with parse_if_expr (fuel : nat) (ts : list token) : P expr :=
    match fuel with
    | O => OutOfFuel
    | S f =>
        do (c, ts1) <- parse_expr f PLowest (advance ts);
        do (t, ts2) <- parse_block_statement f ts1;
        if is_fix KElse (cur ts2) then
          let ts3 := advance ts2 in
          if is_fix KIf (cur ts3) then
            do (s, ts4) <- parse_statement f ts3;
            Ok (EIf c t (Some [s]), ts4)
          else
            do (e, ts4) <- parse_block_statement f ts3;
            Ok (EIf c t (Some e), ts4)
        else Ok (EIf c t None, ts2)
    end

  with parse_assign_expr (fuel : nat) (lhs : expr) (ts : list token) : P expr :=
    match fuel with
    | O => OutOfFuel
    | S f =>
        match lhs with
        | EIdent _ | EIndex _ _ =>
            do (rhs, ts') <- parse_expr f PAssign (advance ts);
            Ok (EAssign lhs rhs, ts')
        | _ => Err ETypeError
        end
    end

  with parse_function_expr (fuel : nat) (ts : list token) : P expr :=
    match fuel with
    | O => OutOfFuel
    | S f =>
        let ts1 := advance ts in
        let '(name, ts2) := match cur ts1 with TIdent n => (n, advance ts1) | _ => ([], ts1) end in
        do (_, ts3) <- skip KOpenParen ts2;
        do (params, ts4) <- parse_params f ts3;
        do (_, ts5) <- skip KCloseParen ts4;
        do (body, ts6) <- parse_block_statement f ts5;
        Ok (EFunction name params body, ts6)
    end

  with parse_params (fuel : nat) (ts : list token) : P (list text) :=
    match fuel with
    | O => OutOfFuel
    | S f =>
        if is_fix KCloseParen (cur ts) then Ok ([], ts)
        else match cur ts with
             | TIdent n =>
                 do (rest, ts') <- parse_params f (skip_optional KComma (advance ts));
                 Ok (n :: rest, ts')
             | _ => Err ESyntaxError
             end
    end

  with parse_call_expr (fuel : nat) (lhs : expr) (ts : list token) : P expr :=
    match fuel with
    | O => OutOfFuel
    | S f =>
        match lhs with
        | EIdent _ | EFunction _ _ _ =>
            do (args, ts') <- parse_list f KCloseParen (advance ts);
            Ok (ECall lhs args, advance ts')            (* skips the CloseParen *)
        | _ => Err ETypeError
        end
    end

  (* `while current != close { push(parse_expr(Lowest)); skip_optional(Comma) }` *)
  with parse_list (fuel : nat) (close : ftoken) (ts : list token) : P (list expr) :=
    match fuel with
    | O => OutOfFuel
    | S f =>
        if is_fix close (cur ts) then Ok ([], ts)
        else
          do (e, ts1) <- parse_expr f PLowest ts;
          do (rest, ts2) <- parse_list f close (skip_optional KComma ts1);
          Ok (e :: rest, ts2)
    end

  with parse_while_expr (fuel : nat) (ts : list token) : P expr :=
    match fuel with
    | O => OutOfFuel
    | S f =>
        do (c, ts1) <- parse_expr f PLowest (advance ts);
        do (b, ts2) <- parse_block_statement f ts1;
        Ok (EWhile c b, ts2)
    end

  with parse_array_expr (fuel : nat) (ts : list token) : P expr :=
    match fuel with
    | O => OutOfFuel
    | S f =>
        do (vs, ts1) <- parse_list f KCloseBracket (advance ts);
        do (_, ts2) <- skip KCloseBracket ts1;
        Ok (EArray vs, ts2)
    end

  with parse_index_expr (fuel : nat) (lhs : expr) (ts : list token) : P expr :=
    match fuel with
    | O => OutOfFuel
    | S f =>
        match lhs with
        | EIdent _ | EArray _ | EString _ =>
            do (i, ts1) <- parse_expr f PLowest (advance ts);
            do (_, ts2) <- skip KCloseBracket ts1;
            Ok (EIndex lhs i, ts2)
        | _ => Err ETypeError
        end
    end

  with parse_statement (fuel : nat) (ts : list token) : P stmt :=
    match fuel with
    | O => OutOfFuel
    | S f =>
        do (s, ts') <-
           match cur ts with
           | TFix KDeclare =>
               (* parse_decl_statement *)
               let ts1 := advance ts in
               match cur ts1 with
               | TIdent n =>
                   do (_, ts2) <- skip KAssign (advance ts1);
                   do (v, ts3) <- parse_expr f PLowest ts2;
                   Ok (SLet n v, ts3)
               | _ => Err ESyntaxError
               end
           | TFix KOpenBrace => do (b, ts1) <- parse_block_statement f ts; Ok (SBlock b, ts1)
           | TFix KReturn => do (e, ts1) <- parse_expr f PLowest (advance ts); Ok (SReturn e, ts1)
           | TFix KContinue => Ok (SContinue, advance ts)
           | TFix KBreak => Ok (SBreak, advance ts)
           | _ => do (e, ts1) <- parse_expr f PLowest ts; Ok (SExpr e, ts1)
           end;
        Ok (s, skip_optional KSemi ts')
    end

  with parse_block_statement (fuel : nat) (ts : list token) : P block :=
    match fuel with
    | O => OutOfFuel
    | S f =>
        do (_, ts1) <- skip KOpenBrace ts;
        do (b, ts2) <- parse_block_items f ts1;
        do (_, ts3) <- skip KCloseBrace ts2;
        Ok (b, ts3)
    end

  with parse_block_items (fuel : nat) (ts : list token) : P block :=
    match fuel with
    | O => OutOfFuel
    | S f =>
        if is_fix KEof (cur ts) || is_fix KCloseBrace (cur ts) then Ok ([], ts)
        else
          do (s, ts1) <- parse_statement f ts;
          do (rest, ts2) <- parse_block_items f ts1;
          Ok (s :: rest, ts2)
    end.

  (* parse(): statements until end of input *)
  Fixpoint parse_program (fuel : nat) (ts : list token) : outcome block :=
    match fuel with
    | O => OutOfFuel
    | S f =>
        if is_fix KEof (cur ts) then Ok []
        else
          do (s, ts1) <- parse_statement f ts;
          do rest <- parse_program f ts1;
          Ok (s :: rest)
    end.

  Definition fuel_for (ts : list token) : nat := 4 * length ts + 8.

  Definition parse_tokens (ts : list token) : outcome block := parse_program (fuel_for ts) ts.
End Parse.

Definition parse (u : unicode) (parse_f64 : text -> option float) (src : text) : outcome block :=
  parse_tokens parse_f64 (tokens u src).
