(* Ops.v - the operator methods of object.rs (impl_arith / impl_cmp / impl_logical,
   PartialEq / PartialOrd) on tagged words, as written; and their lifting to abstract values,
   which is what the VM model executes.  Which method name means which Rust operator comes
   from the regenerated tables (arith_methods, cmp_methods, logical_methods).
   Definitions only. *)
From NL.Model Require Export Value.
Open Scope Z_scope.

(** * isize arithmetic (64-bit target) *)

Definition fits_isize (z : Z) : bool := (- HALF <=? z) && (z <? HALF).

Definition checked (name : string) (x y : Z) : option Z :=
  let ret r := if fits_isize r then Some r else None in
  if String.eqb name "checked_add" then ret (x + y)
  else if String.eqb name "checked_sub" then ret (x - y)
  else if String.eqb name "checked_mul" then ret (x * y)
  else if String.eqb name "checked_div" then (if y =? 0 then None else ret (Z.quot x y))
  else if String.eqb name "checked_rem" then
         (if y =? 0 then None else if (x =? - HALF) && (y =? -1) then None else ret (Z.rem x y))
  else None.

(* Object::checked_int *)
Definition checked_int (r : option Z) : option Z :=
  match r with
  | Some z => if in_int_range z then Some (w_int z) else None
  | None => None
  end.

(** * floats *)

Definition float_arith (orc : oracle) (sym : string) (x y : float) : option float :=
  if String.eqb sym "+" then Some (x + y)%float
  else if String.eqb sym "-" then Some (x - y)%float
  else if String.eqb sym "*" then Some (x * y)%float
  else if String.eqb sym "/" then Some (x / y)%float
  else if String.eqb sym "%" then Some (float_rem orc x y)
  else None.

(* f64::partial_cmp *)
Definition float_cmp (x y : float) : option comparison :=
  match PrimFloat.compare x y with
  | FEq => Some Eq
  | FLt => Some Lt
  | FGt => Some Gt
  | FNotComparable => None
  end.

(** * text: str's Ord is the order of the UTF-8 bytes, which is the order of the code points *)
Fixpoint text_cmp (a b : text) : comparison :=
  match a, b with
  | [], [] => Eq
  | [], _ :: _ => Lt
  | _ :: _, [] => Gt
  | x :: a', y :: b' => match (x ?= y)%N with Eq => text_cmp a' b' | c => c end
  end.

(** * results at word level: allocation of a float result is left to the caller *)
Inductive wres : Type :=
| WWord (w : Z)
| WNewFloat (f : float)
| WErr (k : errkind)
| WFault (f : fault).

Section Deref.
  (* contents of the box a heap word points to; None = released box *)
  Variable deref : Z -> option obj.
  Variable orc : oracle.

  (* impl_arith!(name, sym, checked) *)
  Definition w_arith (sym checked_name : string) (a b : Z) : wres :=
    match w_tag a, w_tag b with
    | Some ta, Some tb =>
        if negb (tag_eqb ta tb) then WErr ETypeError
        else match ta with
             | TInt => match checked_int (checked checked_name (w_as_int a) (w_as_int b)) with
                       | Some w => WWord w
                       | None => WErr ETypeError
                       end
             | TFloat => match deref a, deref b with
                         | Some (OFloat x), Some (OFloat y) =>
                             match float_arith orc sym x y with
                             | Some f => WNewFloat f
                             | None => WFault FUnwrap
                             end
                         | _, _ => WFault FUseAfterFree
                         end
             | _ => WErr ETypeError
             end
    | _, _ => WFault FBadTag
    end.

  (* PartialEq for Object, both tags known to be equal (= ta) and not Array *)
  Definition w_eq (ta : tag) (a b : Z) : option bool :=
    match ta with
    | TNull | TBool | TInt | TFunction => Some (a =? b)
    | TFloat => match deref a, deref b with
                | Some (OFloat x), Some (OFloat y) => Some (PrimFloat.eqb x y)
                | _, _ => None
                end
    | TString => match deref a, deref b with
                 | Some (OStr x), Some (OStr y) => Some (text_eqb x y)
                 | _, _ => None
                 end
    | TArray => None
    end.

  (* PartialOrd for Object (after the repair of D1: signed comparison of the words) *)
  Definition w_partial_cmp (ta : tag) (a b : Z) : option (option comparison) :=
    match ta with
    | TNull | TBool | TInt => Some (Some (signed a ?= signed b))
    | TFloat => match deref a, deref b with
                | Some (OFloat x), Some (OFloat y) => Some (float_cmp x y)
                | _, _ => None
                end
    | TString => match deref a, deref b with
                 | Some (OStr x), Some (OStr y) => Some (Some (text_cmp x y))
                 | _, _ => None
                 end
    | TArray | TFunction => None
    end.

  (* what `self $op rhs` means for the six comparison symbols *)
  Definition cmp_sym (sym : string) (ta : tag) (a b : Z) : option bool :=
    if String.eqb sym "==" then w_eq ta a b
    else if String.eqb sym "!=" then option_map negb (w_eq ta a b)
    else match w_partial_cmp ta a b with
         | None => None
         | Some c =>
             if String.eqb sym "<" then Some (match c with Some Lt => true | _ => false end)
             else if String.eqb sym "<=" then Some (match c with Some Lt | Some Eq => true | _ => false end)
             else if String.eqb sym ">" then Some (match c with Some Gt => true | _ => false end)
             else if String.eqb sym ">=" then Some (match c with Some Gt | Some Eq => true | _ => false end)
             else None
         end.

  (* impl_cmp!(name, sym, ordering) *)
  Definition w_cmp (sym : string) (ordering : bool) (a b : Z) : wres :=
    match w_tag a, w_tag b with
    | Some ta, Some tb =>
        if negb (tag_eqb ta tb) then WErr ETypeError
        else if tag_eqb ta TArray || (ordering && tag_eqb ta TFunction) then WErr ETypeError
        else match cmp_sym sym ta a b with
             | Some r => WWord (w_bool r)
             | None => WFault FUseAfterFree
             end
    | _, _ => WFault FBadTag
    end.

  (* impl_logical!(name, sym) *)
  Definition w_logical (sym : string) (a b : Z) : wres :=
    match w_tag a, w_tag b with
    | Some TBool, Some TBool =>
        if String.eqb sym "&&" then WWord (w_bool (w_as_bool a && w_as_bool b))
        else if String.eqb sym "||" then WWord (w_bool (w_as_bool a || w_as_bool b))
        else WFault FUnwrap
    | Some _, Some _ => WErr ETypeError
    | _, _ => WFault FBadTag
    end.

  Fixpoint assoc3 {B C} (k : string) (l : list (string * B * C)) : option (B * C) :=
    match l with
    | [] => None
    | (s, b, c) :: r => if String.eqb k s then Some (b, c) else assoc3 k r
    end.
  Fixpoint assoc2 {B} (k : string) (l : list (string * B)) : option B :=
    match l with
    | [] => None
    | (s, b) :: r => if String.eqb k s then Some b else assoc2 k r
    end.

  (* Object::<method>(self, rhs, gc) for the 13 methods the VM dispatches to *)
  Definition w_method (m : string) (a b : Z) : wres :=
    match assoc3 m arith_methods with
    | Some (sym, chk) => w_arith sym chk a b
    | None =>
        match assoc3 m cmp_methods with
        | Some (sym, ordering) => w_cmp sym ordering a b
        | None =>
            match assoc2 m logical_methods with
            | Some sym => w_logical sym a b
            | None => WFault FUnwrap
            end
        end
    end.
End Deref.

(** * Lifting to abstract values and the heap *)

Definition deref_heap (h : heap) (w : Z) : option obj :=
  match loc_of_addr (w_as_ptr w) with
  | Some l => match h_get h l with Ok o => Some o | _ => None end
  | None => None
  end.

Definition lift_wres (h : heap) (r : wres) : outcome (val * heap) :=
  match r with
  | WWord w => match decode w with Some v => Ok (v, h) | None => Fault FBadTag end
  | WNewFloat f => let '(l, h') := h_alloc h (OFloat f) in Ok (VFloat l, h')
  | WErr k => Err k
  | WFault s => Fault s
  end.

(* left.method(right, gc) as the VM sees it *)
Definition binop (orc : oracle) (m : string) (h : heap) (a b : val) : outcome (val * heap) :=
  lift_wres h (w_method (deref_heap h) orc m (encode a) (encode b)).

(* OpCode::Negate: checked_neg + range check for ints, -f for floats *)
Definition negate (h : heap) (v : val) : outcome (val * heap) :=
  match v with
  | VInt z => match checked_int (if fits_isize (- z) then Some (- z) else None) with
              | Some w => match decode w with Some r => Ok (r, h) | None => Fault FBadTag end
              | None => Err ETypeError
              end
  | VFloat l => do f <- get_float h l;
                let '(l', h') := h_alloc h (OFloat (- f)%float) in Ok (VFloat l', h')
  | _ => Err ETypeError
  end.

(* OpCode::Not *)
Definition lognot (v : val) : outcome val :=
  match v with VBool b => Ok (VBool (negb b)) | _ => Err ETypeError end.
