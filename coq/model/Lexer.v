(* Lexer.v - the tokenizer of lexer.rs on code points with byte offsets, as written (after the
   repairs of D19/D20): Tokenizer::next with skip_while and its `escaped` flag, the one-character
   look-ahead of the two-character operators and the extra bump, keywords only as whole words,
   comments, the eleven white-space code points.  Character tables come from gen/Tables.v.
   Definitions only. *)
From NL.Model Require Export Base.
Open Scope Z_scope.

Inductive token : Type :=
| TIdent (s : text)
| TIntLit (s : text)
| TFloatLit (s : text)
| TStringLit (s : text)        (* the raw text between the quotes, escapes not yet decoded *)
| TFix (k : ftoken).

(* char::is_alphabetic / is_alphanumeric: computed for ASCII, an oracle beyond (DESIGN.md 4.1) *)
Record unicode : Type := mkUnicode {
  u_alpha : cp -> bool;
  u_alnum : cp -> bool
}.

Definition ascii_alpha (c : cp) : bool := ((65 <=? c) && (c <=? 90) || (97 <=? c) && (c <=? 122))%N.

Section Lex.
  Variable u : unicode.

  Definition is_alphabetic (c : cp) : bool := if (c <? 128)%N then ascii_alpha c else u_alpha u c.
  Definition is_alphanumeric (c : cp) : bool :=
    if (c <? 128)%N then ascii_alpha c || is_digit c else u_alnum u c.

  Definition is_ws (c : cp) : bool := existsb (N.eqb c) whitespace.

  Definition ident_start (c : cp) : bool := is_alphabetic c || (c =? 95)%N.
  Definition ident_char (c : cp) : bool := is_alphanumeric c || (c =? 95)%N.

  (* skip_while with a predicate that ignores the escape flag: (taken, rest) *)
  Fixpoint span (p : cp -> bool) (s : text) : text * text :=
    match s with
    | c :: r => if p c then let '(a, b) := span p r in (c :: a, b) else ([], s)
    | [] => ([], [])
    end.

  (* the number arm: digits, and the first '.' *)
  Fixpoint span_number (decimal : bool) (s : text) : text * text * bool :=
    match s with
    | c :: r =>
        if is_digit c then let '(a, b, d) := span_number decimal r in (c :: a, b, d)
        else if negb decimal && (c =? 46)%N then let '(a, b, d) := span_number true r in (c :: a, b, d)
        else ([], s, decimal)
    | [] => ([], [], decimal)
    end.

  (* the string arm: skip_while(|c, esc| c != QUOTE || esc) with escaped = (bumped == BACKSLASH) && !escaped *)
  Fixpoint span_string (escaped : bool) (s : text) : text * text :=
    match s with
    | c :: r =>
        if negb (c =? 34)%N || escaped
        then let '(a, b) := span_string ((c =? 92)%N && negb escaped) r in (c :: a, b)
        else ([], s)
    | [] => ([], [])
    end.

  Definition keyword_or_ident (s : text) : token :=
    match assoc_text s keywords with
    | Some k => TFix k
    | None => TIdent s
    end.

  Fixpoint find_double (c : cp) (l : list (N * N * ftoken * option ftoken))
    : option (N * ftoken * option ftoken) :=
    match l with
    | [] => None
    | (a, b, t, e) :: r => if (a =? c)%N then Some (b, t, e) else find_double c r
    end.

  Definition is_two_char (k : ftoken) : bool := existsb (ftoken_eqb k) two_char_tokens.

  (* Tokenizer::next.  Returns the token, the remaining input and the new byte offset.
     Fuel only bounds the number of white-space runs and comments skipped (each consumes input). *)
  Fixpoint next_token (fuel : nat) (s : text) (pos : Z) : option (token * text * Z) :=
    match fuel with
    | O => None
    | S f =>
        match s with
        | [] => None
        | c :: r =>
            let pos1 := pos + utf8_len1 c in
            if ident_start c then
              let '(a, rest) := span ident_char r in
              Some (keyword_or_ident (c :: a), rest, pos1 + utf8_len a)
            else if is_digit c then
              let '(a, rest, dec) := span_number false r in
              Some (if dec : bool then TFloatLit (c :: a) else TIntLit (c :: a), rest, pos1 + utf8_len a)
            else if (c =? 34)%N then
              let '(a, rest) := span_string false r in
              match rest with
              | [] => Some (TFix KIllegal, [], pos1 + utf8_len a)          (* no closing quote *)
              | q :: rest' => Some (TStringLit a, rest', pos1 + utf8_len a + utf8_len1 q)
              end
            else if is_ws c then next_token f r pos1
            else if (c =? 47)%N then
              match r with
              | 47%N :: _ =>
                  let '(a, rest) := span (fun x => negb (x =? 10)%N) r in
                  next_token f rest (pos1 + utf8_len a)
              | _ => Some (TFix KSlash, r, pos1)
              end
            else
              match find_double c double_tokens with
              | Some (second, t, els) =>
                  let matched := match r with x :: _ => (x =? second)%N | [] => false end in
                  let tok := if matched then Some t else els in
                  match tok with
                  | None => Some (TFix KIllegal, r, pos1)
                  | Some k =>
                      if is_two_char k then
                        match r with
                        | x :: r' => Some (TFix k, r', pos1 + utf8_len1 x)
                        | [] => Some (TFix k, [], pos1)
                        end
                      else Some (TFix k, r, pos1)
                  end
              | None =>
                  match assoc N.eqb c single_tokens with
                  | Some k => Some (TFix k, r, pos1)
                  | None => Some (TFix KIllegal, r, pos1)
                  end
              end
        end
    end.

  (* the whole token stream, with the end offset of every token *)
  Fixpoint lex_fuel (fuel : nat) (s : text) (pos : Z) : list (token * Z) :=
    match fuel with
    | O => []
    | S f =>
        match next_token (S (length s)) s pos with
        | None => []
        | Some (t, rest, pos') => (t, pos') :: lex_fuel f rest pos'
        end
    end.

  Definition lex (s : text) : list (token * Z) := lex_fuel (S (length s)) s 0.
  Definition tokens (s : text) : list token := map fst (lex s).
End Lex.
