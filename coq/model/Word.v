(* Word.v - the tagged 64-bit word of object.rs (word level of DESIGN.md section 4.1).
   A word is a Z in [0, 2^64).  Rust's `as isize`, `<<`, `>>` on isize, `|`, `&` are written out.
   Definitions only. *)
From NL.Model Require Export Base.
Open Scope Z_scope.

Definition WORD : Z := 2 ^ 64.
Definition HALF : Z := 2 ^ 63.

(* reinterpretations between usize / *mut u8 and isize *)
Definition wrap (z : Z) : Z := z mod WORD.
Definition signed (w : Z) : Z := if w <? HALF then w else w - WORD.

Definition is_word (w : Z) : Prop := 0 <= w < WORD.
Definition is_isize (z : Z) : Prop := - HALF <= z < HALF.

(* Object::with_type: raw | t *)
Definition with_type (raw : Z) (t : tag) : Z := Z.lor raw (tag_index t).

Definition tag_bits (w : Z) : Z := Z.land w TAG_MASK.

(* Object::tag: transmute of the low bits; None = a byte that is no Type at all (UB) *)
Definition w_tag (w : Z) : option tag := tag_of_index (tag_bits w).

Definition w_null : Z := with_type 0 TNull.

Definition w_bool (b : bool) : Z :=
  if b then with_type (Z.shiftl 1 VALUE_SHIFT_BITS) TBool else with_type 0 TBool.

(* Object::int, for value : isize.  The shift is on isize (wrapping), the cast to a pointer
   reinterprets the bits. *)
Definition w_int (z : Z) : Z := with_type (wrap (Z.shiftl z VALUE_SHIFT_BITS)) TInt.

(* the debug_assert of Object::int *)
Definition int_fits (z : Z) : bool :=
  Z.shiftr (signed (wrap (Z.shiftl z VALUE_SHIFT_BITS))) VALUE_SHIFT_BITS =? z.

(* Object::as_bool: (self.0 as u8 >> VALUE_SHIFT_BITS) != 0 *)
Definition w_as_bool (w : Z) : bool := negb (Z.shiftr (w mod 256) VALUE_SHIFT_BITS =? 0).

(* Object::as_int: self.0 as isize >> VALUE_SHIFT_BITS (arithmetic shift) *)
Definition w_as_int (w : Z) : Z := Z.shiftr (signed w) VALUE_SHIFT_BITS.

(* Object::function(ip: u32, num_locals: u16) *)
Definition w_function (ip n : Z) : Z :=
  with_type (wrap (Z.shiftl (Z.lor (Z.shiftl ip FUNCTION_IP_SHIFT) n) VALUE_SHIFT_BITS)) TFunction.

(* Object::as_function: [ (value >> 16) as u32, (value & 0xFFFF) as u32 ] *)
Definition w_as_function (w : Z) : Z * Z :=
  let v := Z.shiftr (signed w) VALUE_SHIFT_BITS in
  ((Z.shiftr v FUNCTION_IP_SHIFT) mod 2 ^ 32, Z.land v 65535).

(* Object::as_ptr: self.0 & PTR_MASK with PTR_MASK = !TAG_MASK *)
Definition w_as_ptr (w : Z) : Z := Z.land w (WORD - 1 - TAG_MASK).

(* a heap value: the allocator's address with the tag or-ed in *)
Definition w_heap (addr : Z) (t : tag) : Z := with_type addr t.

(* Object::is_heap_allocated: self.0 & TAG_MASK >= Type::Float as usize *)
Definition w_is_heap (w : Z) : bool := tag_index first_heap_tag <=? tag_bits w.

Definition is_heap_tag (t : tag) : bool := tag_index first_heap_tag <=? tag_index t.

(* the allocator contract assumed by the encoding (DESIGN.md section 7): non-null, 8-aligned *)
Definition aligned_addr (a : Z) : Prop := 0 < a < WORD /\ a mod 8 = 0.
