(* Ast.v - the syntax tree of ast.rs. Definitions only. *)
From Coq Require Export Floats.
From NL.Model Require Export Base.

Inductive expr : Type :=
| EInfix (l : expr) (o : operator) (r : expr)
| EPrefix (o : operator) (r : expr)
| EInt (z : Z)
| EFloat (f : float)
| EBool (b : bool)
| EIf (c : expr) (t : list stmt) (e : option (list stmt))
| EIdent (s : text)
| EFunction (name : text) (params : list text) (body : list stmt)
| ECall (f : expr) (args : list expr)
| EAssign (l r : expr)
| EString (s : text)
| EArray (vs : list expr)
| EIndex (l i : expr)
| EWhile (c : expr) (body : list stmt)
with stmt : Type :=
| SLet (n : text) (e : expr)
| SReturn (e : expr)
| SExpr (e : expr)
| SBlock (b : list stmt)
| SBreak
| SContinue.

Definition block := list stmt.
