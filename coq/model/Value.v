(* Value.v - run-time values at the abstract level, the heap with its allocation ledger,
   and the encoding of values into the words of Word.v (DESIGN.md section 4.1).
   Definitions only. *)
From Coq Require Export FMapPositive Floats.
From NL.Model Require Export Word.
Open Scope Z_scope.

Module PM := PositiveMap.

(* A heap location is a positive number; the box of location l lives at address 8 * l
   (non-null and 8-aligned: the allocator contract). *)
Inductive val : Set :=
| VNull
| VBool (b : bool)
| VInt (z : Z)
| VFun (ip n : Z)
| VFloat (l : positive)
| VStr (l : positive)
| VArr (l : positive).

Inductive obj : Set :=
| OFloat (f : float)
| OStr (s : text)
| OArr (vs : list val).

Definition val_tag (v : val) : tag :=
  match v with
  | VNull => TNull | VBool _ => TBool | VInt _ => TInt | VFun _ _ => TFunction
  | VFloat _ => TFloat | VStr _ => TString | VArr _ => TArray
  end.

Definition val_loc (v : val) : option positive :=
  match v with VFloat l | VStr l | VArr l => Some l | _ => None end.

Definition is_heap_val (v : val) : bool :=
  match val_loc v with Some _ => true | None => false end.

(* identity of run-time values: same word *)
Definition val_same (a b : val) : bool :=
  match a, b with
  | VNull, VNull => true
  | VBool x, VBool y => Bool.eqb x y
  | VInt x, VInt y => x =? y
  | VFun i n, VFun j m => (i =? j) && (n =? m)
  | VFloat l, VFloat k | VStr l, VStr k | VArr l, VArr k => Pos.eqb l k
  | _, _ => false
  end.

(** * Heap with ledger *)

(* A box is kept after it is released, flagged dead (the shadow heap's quarantine), so that a
   read of a released box and a second release are distinct outcomes and not no-ops. *)
Record heap : Type := mkHeap {
  cells : PM.t (bool * obj);       (* location -> (alive, contents) *)
  next_loc : positive;
  n_alloc : Z;
  n_freed : Z
}.

Definition empty_heap : heap := mkHeap (PM.empty _) 1%positive 0 0.

Definition h_alloc (h : heap) (o : obj) : positive * heap :=
  (next_loc h,
   mkHeap (PM.add (next_loc h) (true, o) (cells h)) (Pos.succ (next_loc h)) (n_alloc h + 1) (n_freed h)).

Definition h_get (h : heap) (l : positive) : outcome obj :=
  match PM.find l (cells h) with
  | Some (true, o) => Ok o
  | _ => Fault FUseAfterFree
  end.

Definition h_set (h : heap) (l : positive) (o : obj) : outcome heap :=
  match PM.find l (cells h) with
  | Some (true, _) => Ok (mkHeap (PM.add l (true, o) (cells h)) (next_loc h) (n_alloc h) (n_freed h))
  | _ => Fault FUseAfterFree
  end.

Definition h_free (h : heap) (l : positive) : outcome heap :=
  match PM.find l (cells h) with
  | Some (true, o) => Ok (mkHeap (PM.add l (false, o) (cells h)) (next_loc h) (n_alloc h) (n_freed h + 1))
  | _ => Fault FDoubleFree
  end.

Definition h_alive (h : heap) (l : positive) : bool :=
  match PM.find l (cells h) with Some (true, _) => true | _ => false end.

Definition h_live_count (h : heap) : Z := n_alloc h - n_freed h.

Definition get_float (h : heap) (l : positive) : outcome float :=
  do o <- h_get h l; match o with OFloat f => Ok f | _ => Fault FBadTag end.
Definition get_str (h : heap) (l : positive) : outcome text :=
  do o <- h_get h l; match o with OStr s => Ok s | _ => Fault FBadTag end.
Definition get_arr (h : heap) (l : positive) : outcome (list val) :=
  do o <- h_get h l; match o with OArr vs => Ok vs | _ => Fault FBadTag end.

(** * Encoding of values as words *)

Definition addr_of_loc (l : positive) : Z := 8 * Zpos l.
Definition loc_of_addr (a : Z) : option positive :=
  match a / 8 with Zpos p => Some p | _ => None end.

Definition encode (v : val) : Z :=
  match v with
  | VNull => w_null
  | VBool b => w_bool b
  | VInt z => w_int z
  | VFun ip n => w_function ip n
  | VFloat l => w_heap (addr_of_loc l) TFloat
  | VStr l => w_heap (addr_of_loc l) TString
  | VArr l => w_heap (addr_of_loc l) TArray
  end.

Definition decode (w : Z) : option val :=
  match w_tag w with
  | None => None
  | Some TNull => Some VNull
  | Some TBool => Some (VBool (w_as_bool w))
  | Some TInt => Some (VInt (w_as_int w))
  | Some TFunction => let '(ip, n) := w_as_function w in Some (VFun ip n)
  | Some TFloat => option_map VFloat (loc_of_addr (w_as_ptr w))
  | Some TString => option_map VStr (loc_of_addr (w_as_ptr w))
  | Some TArray => option_map VArr (loc_of_addr (w_as_ptr w))
  end.

(* values the constructors of object.rs can actually produce *)
Definition in_int_range (z : Z) : bool := (MIN_INT <=? z) && (z <=? MAX_INT).
Definition wf_val (v : val) : bool :=
  match v with
  | VInt z => in_int_range z
  | VFun ip n => (0 <=? ip) && (ip <? 2 ^ 32) && (0 <=? n) && (n <? 2 ^ 16)
  | VFloat l | VStr l | VArr l => Zpos l <? 2 ^ 60
  | _ => true
  end.

(** * Operations the model does not compute itself (DESIGN.md section 4.1): oracles *)
Record oracle : Type := mkOracle {
  show_float : float -> text;                (* f64::to_string *)
  parse_float : text -> option float;        (* str::parse::<f64> after trim *)
  float_rem : float -> float -> float        (* f64 % f64 (C fmod) *)
}.
