(* Builtins.v - the seven builtin functions of builtins.rs and Display for Object, as written
   (after the repairs of D22, D23).  Float text goes through the oracle.  Definitions only. *)
From NL.Model Require Export Ops.
Open Scope Z_scope.

(* f as isize: truncation toward zero, saturating, NaN -> 0 *)
Definition trunc_float (f : float) : Z :=
  match Prim2SF f with
  | S754_zero _ => 0
  | S754_nan => 0
  | S754_infinity s => if s then - HALF else HALF - 1
  | S754_finite s m e =>
      let mag := if 0 <=? e then Zpos m * 2 ^ e else Zpos m / 2 ^ (- e) in
      let z := if s then - mag else mag in
      if z <? - HALF then - HALF else if HALF - 1 <? z then HALF - 1 else z
  end.

(* isize as f64 for |z| <= 2^62 (every integer value of the language) *)
Definition float_of_int (z : Z) : float :=
  if z <? 0 then (- (PrimFloat.of_uint63 (Uint63.of_Z (- z))))%float
  else PrimFloat.of_uint63 (Uint63.of_Z z).

Section Builtins.
  Variable orc : oracle.

  (* Display for Object; fuel bounds the nesting depth (a cyclic array recurses forever in Rust) *)
  Fixpoint show_val (fuel : nat) (h : heap) (v : val) : outcome text :=
    match fuel with
    | O => OutOfFuel
    | S f =>
        match v with
        | VNull => Ok []
        | VBool b => Ok (str_cps (if b then display_true else display_false))
        | VInt z => Ok (show_Z z)
        | VFun _ _ => Ok (str_cps display_function)
        | VFloat l => do x <- get_float h l; Ok (show_float orc x)
        | VStr l => get_str h l
        | VArr l =>
            do vs <- get_arr h l;
            do body <- (fix go (l : list val) (first : bool) : outcome text :=
                          match l with
                          | [] => Ok []
                          | x :: r =>
                              do t <- show_val f h x;
                              do rest <- go r false;
                              Ok ((if first then [] else str_cps display_separator) ++ t ++ rest)
                          end) vs true;
            Ok (91%N :: body ++ [93%N])
        end
    end.

  Definition show_depth : nat := 2000.
  Definition display (h : heap) (v : val) : outcome text := show_val show_depth h v.

  (* str::find("{}") : text before and after the first placeholder *)
  Fixpoint find_placeholder (s : text) : option (text * text) :=
    match s with
    | [] => None
    | c :: r =>
        match r with
        | d :: r' =>
            if (c =? 123)%N && (d =? 125)%N then Some ([], r')
            else match find_placeholder r with
                 | Some (a, b) => Some (c :: a, b)
                 | None => None
                 end
        | [] => None
        end
    end.

  (* call_print's loop: fill placeholders left to right, never re-scanning filled-in text *)
  Fixpoint fill (h : heap) (rest : text) (args : list val) : outcome text :=
    match args with
    | [] => Ok rest
    | a :: more =>
        match find_placeholder rest with
        | Some (before, after) =>
            do t <- display h a;
            do tail <- fill h after more;
            Ok (before ++ t ++ tail)
        | None => Ok rest
        end
    end.

  Definition call_print (h : heap) (args : list val) : outcome text :=
    match args with
    | [] => Ok [10%N]
    | a0 :: rest =>
        do template <- display h a0;
        do s <- fill h template rest;
        Ok (s ++ [10%N])
    end.

  Definition alloc_str (h : heap) (s : text) : val * heap :=
    let '(l, h') := h_alloc h (OStr s) in (VStr l, h').
  Definition alloc_float (h : heap) (f : float) : val * heap :=
    let '(l, h') := h_alloc h (OFloat f) in (VFloat l, h').

  Definition one_arg {A} (args : list val) (k : val -> outcome A) : outcome A :=
    match args with
    | [a] => k a
    | _ => Err EArgumentError
    end.

  Definition call_type (h : heap) (args : list val) : outcome (val * heap) :=
    one_arg args (fun a => Ok (alloc_str h (type_name (val_tag a)))).

  Definition call_string (h : heap) (args : list val) : outcome (val * heap) :=
    one_arg args (fun a =>
      match a with
      | VNull => Ok (alloc_str h [])
      | VBool b => Ok (alloc_str h (str_cps (if b then "true" else "false")))
      | VFloat l => do x <- get_float h l; Ok (alloc_str h (show_float orc x))
      | VInt z => Ok (alloc_str h (show_Z z))
      | VStr _ => Ok (a, h)
      | VArr _ | VFun _ _ => Err EArgumentError
      end).

  Definition call_bool (h : heap) (args : list val) : outcome (val * heap) :=
    one_arg args (fun a =>
      match a with
      | VNull => Ok (VBool false, h)
      | VBool _ => Ok (a, h)
      | VFloat l => do x <- get_float h l; Ok (VBool (PrimFloat.ltb 0 x), h)
      | VInt z => Ok (VBool (0 <? z), h)
      | VStr l => do s <- get_str h l; Ok (VBool (negb (match s with [] => true | _ => false end)), h)
      | VArr l => do vs <- get_arr h l; Ok (VBool (negb (match vs with [] => true | _ => false end)), h)
      | VFun _ _ => Err EArgumentError
      end).

  Definition ranged_int (h : heap) (z : Z) : outcome (val * heap) :=
    if in_int_range z then Ok (VInt z, h) else Err EArgumentError.

  Definition call_int (h : heap) (args : list val) : outcome (val * heap) :=
    one_arg args (fun a =>
      match a with
      | VNull => ranged_int h 0
      | VBool b => ranged_int h (if b then 1 else 0)
      | VFloat l => do x <- get_float h l; ranged_int h (trunc_float x)
      | VInt _ => Ok (a, h)
      | VStr l => do s <- get_str h l;
                  match parse_isize (trim s) with
                  | Some z => ranged_int h z
                  | None => Err EArgumentError
                  end
      | VArr _ | VFun _ _ => Err EArgumentError
      end).

  Definition call_float (h : heap) (args : list val) : outcome (val * heap) :=
    one_arg args (fun a =>
      match a with
      | VNull => Ok (alloc_float h 0%float)
      | VBool b => Ok (alloc_float h (if b then 1%float else 0%float))
      | VFloat _ => Ok (a, h)
      | VInt z => Ok (alloc_float h (float_of_int z))
      | VStr l => do s <- get_str h l;
                  match parse_float orc s with          (* trim + str::parse::<f64> *)
                  | Some x => Ok (alloc_float h x)
                  | None => Err EArgumentError
                  end
      | VArr _ | VFun _ _ => Err EArgumentError
      end).

  Definition call_length (h : heap) (args : list val) : outcome (val * heap) :=
    one_arg args (fun a =>
      match a with
      | VStr l => do s <- get_str h l; Ok (VInt (zlength s), h)
      | VArr l => do vs <- get_arr h l; Ok (VInt (zlength vs), h)
      | _ => Err ETypeError
      end).

  (* builtins::call: result, heap, text printed *)
  Definition call_builtin (b : builtin) (h : heap) (args : list val) : outcome (val * heap * text) :=
    match b with
    | BPrint => do t <- call_print h args; Ok (VNull, h, t)
    | BType => do r <- call_type h args; Ok (r, [])
    | BString => do r <- call_string h args; Ok (r, [])
    | BBool => do r <- call_bool h args; Ok (r, [])
    | BFloat => do r <- call_float h args; Ok (r, [])
    | BInt => do r <- call_int h args; Ok (r, [])
    | BLength => do r <- call_length h args; Ok (r, [])
    end.
End Builtins.
