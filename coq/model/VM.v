(* VM.v - the stack machine of vm.rs, as written (after the repairs of D6, D7, D9, D16, D17, D21,
   D24d): the dispatch loop one instruction at a time, frames, globals, the per-run collector with
   its two collection points, indexing.  Every access the Rust code performs unchecked, or on
   which it would panic, is a Fault outcome.  Definitions only. *)
From NL.Model Require Export Compiler Builtins GC.
Open Scope Z_scope.

Record frame : Type := mkFrame { f_ip : Z; f_bp : Z }.

Record vm : Type := mkVM {
  v_stack : list val;           (* top of the stack first *)
  v_slen : Z;                   (* stack.len() *)
  v_globals : list val;
  v_frames : list frame;        (* current frame first *)
  v_ip : Z;
  v_bp : Z;
  v_final : val;                (* final_result *)
  v_heap : heap;
  v_gc : gc;
  v_out : text                  (* everything printed so far *)
}.

(* what a run executes: the instruction buffer and the constant pool as run-time values *)
Record program : Type := mkProgram { p_code : list Z; p_consts : list val }.

Inductive stepres : Type :=
| Continue (s : vm)
| Halted (v : val) (s : vm).

Definition upd_stack (s : vm) (st : list val) (n : Z) : vm :=
  mkVM st n (v_globals s) (v_frames s) (v_ip s) (v_bp s) (v_final s) (v_heap s) (v_gc s) (v_out s).
Definition upd_ip (s : vm) (ip : Z) : vm :=
  mkVM (v_stack s) (v_slen s) (v_globals s) (v_frames s) ip (v_bp s) (v_final s) (v_heap s) (v_gc s) (v_out s).
Definition upd_heap (s : vm) (h : heap) (g : gc) : vm :=
  mkVM (v_stack s) (v_slen s) (v_globals s) (v_frames s) (v_ip s) (v_bp s) (v_final s) h g (v_out s).
Definition upd_globals (s : vm) (gl : list val) : vm :=
  mkVM (v_stack s) (v_slen s) gl (v_frames s) (v_ip s) (v_bp s) (v_final s) (v_heap s) (v_gc s) (v_out s).
Definition upd_final (s : vm) (v : val) : vm :=
  mkVM (v_stack s) (v_slen s) (v_globals s) (v_frames s) (v_ip s) (v_bp s) v (v_heap s) (v_gc s) (v_out s).
Definition upd_out (s : vm) (o : text) : vm :=
  mkVM (v_stack s) (v_slen s) (v_globals s) (v_frames s) (v_ip s) (v_bp s) (v_final s) (v_heap s) (v_gc s) o.

Definition push (v : val) (s : vm) : vm := upd_stack s (v :: v_stack s) (v_slen s + 1).

Definition pop (s : vm) : outcome (val * vm) :=
  match v_stack s with
  | v :: r => Ok (v, upd_stack s r (v_slen s - 1))
  | [] => Fault FPopEmpty
  end.

Fixpoint pop_n (n : nat) (s : vm) (acc : list val) : outcome (list val * vm) :=
  match n with
  | O => Ok (acc, s)
  | S n' => do (v, s') <- pop s; pop_n n' s' (v :: acc)      (* acc ends up in push order *)
  end.

Section Run.
  Variable orc : oracle.
  Variable prog : program.

  Definition byte_at (ip : Z) : option Z :=
    if ip <? 0 then None else nth_error (p_code prog) (Z.to_nat ip).

  Definition read_u8 (s : vm) : outcome (Z * vm) :=
    match byte_at (v_ip s) with
    | Some b => Ok (b, upd_ip s (v_ip s + 1))
    | None => Fault FOperandOutside
    end.
  Definition read_u16 (s : vm) : outcome (Z * vm) :=
    match byte_at (v_ip s), byte_at (v_ip s + 1) with
    | Some lo, Some hi => Ok (lo + 256 * hi, upd_ip s (v_ip s + 2))
    | _, _ => Fault FOperandOutside
    end.

  Definition get_local (idx : Z) (s : vm) : outcome val :=
    let pos := v_bp s + idx in
    if pos <? v_slen s then
      match nth_error (v_stack s) (Z.to_nat (v_slen s - 1 - pos)) with
      | Some v => Ok v
      | None => Fault FLocalSlot
      end
    else Fault FLocalSlot.
  Definition set_local (idx : Z) (v : val) (s : vm) : outcome vm :=
    let pos := v_bp s + idx in
    if pos <? v_slen s
    then Ok (upd_stack s (replace_nth (Z.to_nat (v_slen s - 1 - pos)) v (v_stack s)) (v_slen s))
    else Fault FLocalSlot.

  Definition get_const (idx : Z) : outcome val :=
    match nth_error (p_consts prog) (Z.to_nat idx) with
    | Some v => Ok v
    | None => Fault FConstIndex
    end.

  (* a freshly allocated result is handed to the collector (Object::float/string/array trace) *)
  Definition with_new (s : vm) (r : val * heap) : vm :=
    let '(v, h') := r in
    if Pos.eqb (next_loc h') (next_loc (v_heap s)) then upd_heap s h' (v_gc s)
    else upd_heap s h' (trace (v_gc s) v).

  (* popframe *)
  Definition popframe (s : vm) : outcome vm :=
    match v_frames s with
    | fr :: rest =>
        let keep := Z.to_nat (v_slen s - f_bp fr) in
        let st := if f_bp fr <? v_slen s then skipn keep (v_stack s) else v_stack s in
        let n := if f_bp fr <? v_slen s then f_bp fr else v_slen s in
        match rest with
        | cur :: _ =>
            Ok (mkVM st n (v_globals s) rest (f_ip cur) (f_bp cur) (v_final s) (v_heap s) (v_gc s) (v_out s))
        | [] => Fault FNoFrame                   (* frames.last().unwrap() *)
        end
    | [] => Fault FNoFrame
    end.

  (* pushframe *)
  Definition pushframe (ip bp : Z) (s : vm) : outcome vm :=
    match v_frames s with
    | cur :: rest =>
        Ok (mkVM (v_stack s) (v_slen s) (v_globals s) (mkFrame ip bp :: mkFrame (v_ip s) (f_bp cur) :: rest)
                 ip bp (v_final s) (v_heap s) (v_gc s) (v_out s))
    | [] => Fault FNoFrame
    end.

  (* the root set handed to GC::run at both collection points *)
  Definition roots (s : vm) (extra : list val) : list val :=
    rev (v_stack s) ++ p_consts prog ++ v_globals s ++ extra.

  Definition collect (s : vm) (extra : list val) : outcome vm :=
    do (g', h') <- gc_run (v_heap s) (v_gc s) (roots s extra);
    Ok (upd_heap s h' g').

  (* index normalisation of the four index functions: negative += len; as usize; >= len *)
  Definition norm_index (z len : Z) : outcome Z :=
    let i := if z <? 0 then z + len else z in
    let u := if i <? 0 then i + WORD else i in
    if len <=? u then Err EIndexError else Ok i.

  Definition index_get (s : vm) (lhs index : val) : outcome vm :=
    match index with
    | VInt z =>
        match lhs with
        | VArr l =>
            do vs <- get_arr (v_heap s) l;
            do i <- norm_index z (zlength vs);
            match nth_error vs (Z.to_nat i) with
            | Some v => Ok (push v s)
            | None => Fault FUnwrap
            end
        | VStr l =>
            do t <- get_str (v_heap s) l;
            do i <- norm_index z (zlength t);
            match nth_error t (Z.to_nat i) with
            | Some c =>
                let r := alloc_str (v_heap s) [c] in
                Ok (push (fst r) (with_new s r))
            | None => Fault FUnwrap
            end
        | _ => Err ETypeError
        end
    | _ => Err ETypeError
    end.

  Definition index_set (s : vm) (lhs index value : val) : outcome vm :=
    match index with
    | VInt z =>
        match lhs with
        | VArr l =>
            do vs <- get_arr (v_heap s) l;
            do i <- norm_index z (zlength vs);
            do h' <- h_set (v_heap s) l (OArr (replace_nth (Z.to_nat i) value vs));
            Ok (push value (upd_heap s h' (v_gc s)))
        | VStr l =>
            do t <- get_str (v_heap s) l;
            do i <- norm_index z (zlength t);
            match value with
            | VStr k =>
                do repl <- get_str (v_heap s) k;            (* copied before the target changes *)
                let n := Z.to_nat i in
                do h' <- h_set (v_heap s) l (OStr (firstn n t ++ repl ++ skipn (S n) t));
                Ok (push value (upd_heap s h' (v_gc s)))
            | _ => Err ETypeError
            end
        | _ => Err ETypeError
        end
    | _ => Err ETypeError
    end.

  Definition binary (m : string) (s : vm) : outcome vm :=
    do (rhs, s1) <- pop s;
    do (lhs, s2) <- pop s1;
    do r <- binop orc m (v_heap s2) lhs rhs;
    Ok (push (fst r) (with_new s2 r)).

  Definition fused (m : string) (s : vm) : outcome vm :=
    do (li, s1) <- read_u16 s;
    do lhs <- get_local li s1;
    do (ci, s2) <- read_u16 s1;
    do rhs <- get_const ci;
    do r <- binop orc m (v_heap s2) lhs rhs;
    Ok (push (fst r) (with_new s2 r)).

  (* one iteration of the dispatch loop *)
  Definition step (s : vm) : outcome stepres :=
    match byte_at (v_ip s) with
    | None => Fault FFetchOutside
    | Some b =>
        match opcode_of_byte b with
        | None => Fault FBadOpcode
        | Some op =>
            let s := upd_ip s (v_ip s + 1) in
            let cont (r : outcome vm) : outcome stepres := do s' <- r; Ok (Continue s') in
            match op with
            | OConst =>
                cont (do (idx, s1) <- read_u16 s;
                      do v <- get_const idx;
                      match v with
                      | VStr l =>
                          do t <- get_str (v_heap s1) l;
                          let r := alloc_str (v_heap s1) t in
                          Ok (push (fst r) (with_new s1 r))
                      | _ => Ok (push v s1)
                      end)
            | OSetGlobal =>
                cont (do (idx, s1) <- read_u16 s;
                      do (v, s2) <- pop s1;
                      let n := Z.to_nat idx in
                      let gl := v_globals s2 in
                      let gl' := if Nat.ltb n (length gl) then gl
                                 else gl ++ repeat_val VNull (S n - length gl) in
                      Ok (upd_globals s2 (replace_nth n v gl')))
            | OGetGlobal =>
                cont (do (idx, s1) <- read_u16 s;
                      Ok (push (nth (Z.to_nat idx) (v_globals s1) VNull) s1))
            | OSetLocal =>
                cont (do (idx, s1) <- read_u16 s;
                      do (v, s2) <- pop s1;
                      set_local idx v s2)
            | OGetLocal =>
                cont (do (idx, s1) <- read_u16 s;
                      do v <- get_local idx s1;
                      Ok (push v s1))
            | OJump => cont (do (pos, s1) <- read_u16 s; Ok (upd_ip s1 pos))
            | OJumpIfFalse =>
                cont (do (c, s1) <- pop s;
                      match c with
                      | VBool b =>
                          do (pos, s2) <- read_u16 s1;
                          Ok (if b then s2 else upd_ip s2 pos)
                      | _ => Err ETypeError
                      end)
            | OPop => cont (do (v, s1) <- pop s; Ok (upd_final s1 v))
            | ONull => cont (Ok (push VNull s))
            | OTrue => cont (Ok (push (VBool true) s))
            | OFalse => cont (Ok (push (VBool false) s))
            | ONot =>
                cont (do (v, s1) <- pop s; do r <- lognot v; Ok (push r s1))
            | ONegate =>
                cont (do (v, s1) <- pop s;
                      do r <- negate (v_heap s1) v;
                      Ok (push (fst r) (with_new s1 r)))
            | OCall =>
                cont (do (argc, s1) <- read_u8 s;
                      do (f, s2) <- pop s1;
                      match f with
                      | VFun ip n =>
                          if n <? argc then Err EArgumentError
                          else if (MAX_STACK_SIZE <? v_slen s2 + n) || (MAX_FRAMES <=? zlength (v_frames s2))
                          then Err ETypeError
                          else if v_slen s2 <? argc then Fault FCallUnderflow
                          else
                            let bp := v_slen s2 - argc in
                            let pad := Z.to_nat (n - argc) in
                            let s3 := upd_stack s2 (repeat_val VNull pad ++ v_stack s2) (v_slen s2 + (n - argc)) in
                            pushframe ip bp s3
                      | _ => Err ETypeError
                      end)
            | OCallBuiltin =>
                cont (do (bb, s1) <- read_u8 s;
                      do (argc, s2) <- read_u8 s1;
                      do (args, s3) <- pop_n (Z.to_nat argc) s2 [];
                      match builtin_of_byte bb with
                      | None => Fault FBadBuiltin
                      | Some bi =>
                          do (r, printed) <- call_builtin orc bi (v_heap s3) args;
                          let s4 := with_new s3 r in
                          Ok (push (fst r) (upd_out s4 (v_out s4 ++ printed)))
                      end)
            | OReturnValue =>
                cont (do (result, s1) <- pop s;
                      do s2 <- popframe s1;
                      do s3 <- collect s2 [v_final s2; result];
                      Ok (push result s3))
            | OReturn =>
                cont (do s1 <- popframe s;
                      do s2 <- collect s1 [v_final s1];
                      Ok (push VNull s2))
            | OArray =>
                cont (do (n, s1) <- read_u16 s;
                      do (vs, s2) <- pop_n (Z.to_nat n) s1 [];
                      let '(l, h') := h_alloc (v_heap s2) (OArr vs) in
                      Ok (push (VArr l) (upd_heap s2 h' (trace (v_gc s2) (VArr l)))))
            | OIndexGet =>
                cont (do (index, s1) <- pop s;
                      do (lhs, s2) <- pop s1;
                      index_get s2 lhs index)
            | OIndexSet =>
                cont (do (value, s1) <- pop s;
                      do (index, s2) <- pop s1;
                      do (lhs, s3) <- pop s2;
                      index_set s3 lhs index value)
            | OHalt =>
                do g' <- untrace (v_heap s) (v_gc s) (v_final s);
                Ok (Halted (v_final s) (upd_heap s (v_heap s) g'))
            | _ =>
                match assoc opcode_eqb op binary_dispatch with
                | Some m => cont (binary m s)
                | None =>
                    match assoc opcode_eqb op fused_dispatch with
                    | Some m => cont (fused m s)
                    | None => Fault FBadOpcode
                    end
                end
            end
        end
    end.

  (* the dispatch loop under an instruction budget: the state at the exit is returned as well *)
  Fixpoint run_loop (budget : nat) (s : vm) : outcome val * vm * nat :=
    match budget with
    | O => (OutOfFuel, s, O)
    | S b =>
        match step s with
        | Ok (Continue s') => run_loop b s'
        | Ok (Halted v s') => (Ok v, s', b)
        | Err k => (Err k, s, b)
        | Fault f => (Fault f, s, b)
        | OutOfFuel => (OutOfFuel, s, b)
        end
    end.
End Run.

(* VM::new *)
Definition vm_new : vm := mkVM [] 0 [] [mkFrame 0 0] 0 0 VNull empty_heap gc_new [].

(* the constants of a Bytecode as run-time values; heap constants were allocated by the compiler *)
Fixpoint load_consts (ks : list const) (h : heap) : list val * heap :=
  match ks with
  | [] => ([], h)
  | k :: r =>
      let '(v, h1) :=
        match k with
        | KInt z => (VInt z, h)
        | KFun ip n => (VFun ip n, h)
        | KFloat f => let '(l, h') := h_alloc h (OFloat f) in (VFloat l, h')
        | KStr s => let '(l, h') := h_alloc h (OStr s) in (VStr l, h')
        end in
      let '(vs, h2) := load_consts r h1 in
      (v :: vs, h2)
  end.

(* VM::run(code) on a retained machine: what is reset and what is kept *)
Definition vm_start (s : vm) (consts : list val) (h : heap) : vm :=
  mkVM [] 0 (v_globals s) [mkFrame 0 0] 0 0 VNull h (fold_left maybe_trace consts gc_new) (v_out s).

(* what `eval` observes: outcome, printed text, executed instructions, and the ledger once the
   per-run collector has been dropped *)
Record observation : Type := mkObs {
  o_result : outcome val;
  o_out : text;
  o_steps : nat;
  o_heap : outcome heap            (* after Drop for GC *)
}.

Definition run_program (orc : oracle) (bc : bytecode) (budget : nat) : observation :=
  let '(consts, h0) := load_consts (b_constants bc) empty_heap in
  let s0 := vm_start vm_new consts h0 in
  let '(r, s, lhs) := run_loop orc (mkProgram (b_code bc) consts) budget s0 in
  mkObs r (v_out s) (budget - lhs)
        (do (g, h) <- gc_destroy (v_heap s) (v_gc s); Ok h).
