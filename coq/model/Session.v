(* Session.v - a retained (Compiler, VM) pair fed line after line, as bin/nederlang.rs's prompt and
   the retained-state test do: parse, compile_ast on the carried compiler, run on the carried
   machine.  What is carried: the compiler's symbol table and constant pool (code buffer, loops and
   last_instruction are transient), the machine's globals; the heap is the process heap.  Constants
   are allocated once, when they enter the pool; every run builds a fresh collector over ALL pool
   constants and drops it at the end, which releases them (DESIGN.md D24a: recorded finding).
   Definitions only. *)
From NL.Model Require Export Pipeline.
Open Scope Z_scope.

Record session : Type := mkSession {
  ss_compiler : cstate;
  ss_pool : list val;            (* run-time values of the pool constants, in pool order *)
  ss_vm : vm                     (* globals, heap, and whatever the last run left on stack / frames *)
}.

Definition session_new : session := mkSession compiler_new [] vm_new.

Record line_obs : Type := mkLineObs {
  lo_result : outcome val;
  lo_out : text;
  lo_stack : Z;                  (* vm.stack.len() after the line *)
  lo_frames : Z;                 (* vm.frames.len() *)
  lo_code : Z;                   (* compiler.instructions.len() *)
  lo_loops : Z;                  (* compiler.loop_contexts.len() *)
  lo_heap : heap                 (* the heap in which a returned value is to be read *)
}.

Definition front_obs (s : session) (r : outcome val) : line_obs :=
  mkLineObs r [] (v_slen (ss_vm s)) (zlength (v_frames (ss_vm s)))
            (code_len (ss_compiler s)) (zlength (c_loops (ss_compiler s))) (v_heap (ss_vm s)).

Definition run_line (u : unicode) (orc : oracle) (budget : nat) (s : session) (src : text) : session * line_obs :=
  match parse u (parse_float orc) src with
  | Ok ast =>
      match compile_ast ast (ss_compiler s) with
      | (st', Ok bc) =>
          (* constants new to the pool are allocated now (the compiler's own collector hands them over) *)
          let fresh := skipn (length (ss_pool s)) (b_constants bc) in
          let '(vals, h1) := load_consts fresh (v_heap (ss_vm s)) in
          let pool := ss_pool s ++ vals in
          let vm0 := mkVM (v_stack (ss_vm s)) (v_slen (ss_vm s)) (v_globals (ss_vm s)) (v_frames (ss_vm s))
                          0 0 VNull h1 gc_new [] in
          let s0 := vm_start vm0 pool h1 in
          let '(r, sf, _) := run_loop orc (mkProgram (b_code bc) pool) budget s0 in
          (* Drop for GC: everything the run's collector still manages is released *)
          let '(h2, r') := match gc_destroy (v_heap sf) (v_gc sf) with
                           | Ok (_, h) => (h, r)
                           | Fault f => (v_heap sf, Fault f)
                           | _ => (v_heap sf, r)
                           end in
          let vm' := mkVM (v_stack sf) (v_slen sf) (v_globals sf) (v_frames sf) 0 0 VNull h2 gc_new [] in
          (mkSession st' pool vm',
           mkLineObs r' (v_out sf) (v_slen sf) (zlength (v_frames sf)) (code_len st') (zlength (c_loops st')) h2)
      | (st', Err k) => let s' := mkSession st' (ss_pool s) (ss_vm s) in (s', front_obs s' (Err k))
      | (st', Fault f) => let s' := mkSession st' (ss_pool s) (ss_vm s) in (s', front_obs s' (Fault f))
      | (st', OutOfFuel) => (s, front_obs s OutOfFuel)
      end
  | Err k => (s, front_obs s (Err k))
  | Fault f => (s, front_obs s (Fault f))
  | OutOfFuel => (s, front_obs s OutOfFuel)
  end.

Fixpoint run_session (u : unicode) (orc : oracle) (budget : nat) (s : session) (lines : list text) : list line_obs :=
  match lines with
  | [] => []
  | l :: r => let '(s', o) := run_line u orc budget s l in o :: run_session u orc budget s' r
  end.
