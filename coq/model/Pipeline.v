(* Pipeline.v - lib.rs::eval: parse, compile with a fresh compiler, run on a fresh machine.
   Definitions only. *)
From NL.Model Require Export Parser VM.
Open Scope Z_scope.

Definition front (u : unicode) (orc : oracle) (src : text) : outcome bytecode :=
  do ast <- parse u (parse_float orc) src;
  compile ast.

Inductive eval_result : Type :=
| FrontError (r : outcome bytecode)        (* rejected before anything runs *)
| Ran (extra_allocs : Z) (o : observation).   (* literal objects that did not become pool constants *)

Definition heap_const_count (ks : list const) : Z :=
  zlength (filter (fun k => match k with KFloat _ | KStr _ => true | _ => false end) ks).

Definition eval (u : unicode) (orc : oracle) (src : text) (budget : nat) : eval_result :=
  match parse u (parse_float orc) src with
  | Ok ast =>
      match compile_ast ast compiler_new with
      | (st, Ok bc) => Ran (c_lit_allocs st - heap_const_count (b_constants bc)) (run_program orc bc budget)
      | (_, r) => FrontError r
      end
  | Err k => FrontError (Err k)
  | Fault f => FrontError (Fault f)
  | OutOfFuel => FrontError OutOfFuel
  end.
