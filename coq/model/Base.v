(* Base.v - shared vocabulary of the model: outcomes, code points, decimal text.
   Definitions only (DESIGN.md section 2: model files contain no proofs). *)
From Coq Require Export String Ascii.
From Coq Require Export List ZArith NArith Bool Lia.
Export ListNotations.
From NL.Gen Require Export Tables.
Close Scope string_scope.
Notation length := List.length.

Open Scope Z_scope.

(** * Outcomes *)

(* the five documented error kinds, object.rs Error *)
Inductive errkind : Set := ETypeError | ESyntaxError | EReferenceError | EIndexError | EArgumentError.

(* Accesses the Rust code performs unchecked, or on which it would panic: explicit outcomes,
   never silently totalised (DESIGN.md section 1). *)
Inductive fault : Set :=
| FPopEmpty | FFetchOutside | FOperandOutside | FBadOpcode | FBadBuiltin
| FLocalSlot | FConstIndex | FNoFrame | FCallUnderflow
| FUseAfterFree | FDoubleFree | FBadTag | FUnwrap | FOverflow.

Inductive outcome (A : Type) : Type :=
| Ok (a : A)
| Err (k : errkind)
| Fault (f : fault)
| OutOfFuel.
Arguments Ok {A} a.
Arguments Err {A} k.
Arguments Fault {A} f.
Arguments OutOfFuel {A}.

Definition bind {A B} (x : outcome A) (f : A -> outcome B) : outcome B :=
  match x with
  | Ok a => f a
  | Err k => Err k
  | Fault s => Fault s
  | OutOfFuel => OutOfFuel
  end.
Notation "'do' x <- e ; k" := (bind e (fun x => k)) (at level 200, x pattern, e at level 100, k at level 200).

Definition errkind_eqb (a b : errkind) : bool :=
  match a, b with
  | ETypeError, ETypeError | ESyntaxError, ESyntaxError | EReferenceError, EReferenceError
  | EIndexError, EIndexError | EArgumentError, EArgumentError => true
  | _, _ => false
  end.

(** * Code points and text *)

Definition cp := N.
Definition text := list cp.

(* char::len_utf8 *)
Definition utf8_len1 (c : cp) : Z :=
  if (c <? 128)%N then 1 else if (c <? 2048)%N then 2 else if (c <? 65536)%N then 3 else 4.
Definition utf8_len (s : text) : Z := fold_left (fun acc c => acc + utf8_len1 c) s 0.

Fixpoint text_eqb (a b : text) : bool :=
  match a, b with
  | [], [] => true
  | x :: a', y :: b' => (x =? y)%N && text_eqb a' b'
  | _, _ => false
  end.

(* ASCII table entries of Tables.v as code points *)
Fixpoint str_cps (s : string) : text :=
  match s with
  | EmptyString => []
  | String a r => N_of_ascii a :: str_cps r
  end.

Fixpoint assoc_text {A} (k : text) (l : list (string * A)) : option A :=
  match l with
  | [] => None
  | (s, a) :: r => if text_eqb k (str_cps s) then Some a else assoc_text k r
  end.

(** * Finite-table helpers over the generated enumerations *)

Definition opcode_eqb (a b : opcode) : bool :=
  match a, b with
  | OConst, OConst | OPop, OPop | OTrue, OTrue | OFalse, OFalse | OAdd, OAdd | OSubtract, OSubtract
  | ODivide, ODivide | OMultiply, OMultiply | OGt, OGt | OGte, OGte | OLt, OLt | OLte, OLte | OEq, OEq
  | ONeq, ONeq | OAnd, OAnd | OOr, OOr | ONot, ONot | OModulo, OModulo | ONegate, ONegate | OJump, OJump
  | OJumpIfFalse, OJumpIfFalse | ONull, ONull | OReturn, OReturn | OReturnValue, OReturnValue
  | OCall, OCall | OCallBuiltin, OCallBuiltin | OGetLocal, OGetLocal | OSetLocal, OSetLocal
  | OGetGlobal, OGetGlobal | OSetGlobal, OSetGlobal | OGtLocalConst, OGtLocalConst
  | OGteLocalConst, OGteLocalConst | OLtLocalConst, OLtLocalConst | OLteLocalConst, OLteLocalConst
  | OEqLocalConst, OEqLocalConst | ONeqLocalConst, ONeqLocalConst | OAddLocalConst, OAddLocalConst
  | OSubtractLocalConst, OSubtractLocalConst | OMultiplyLocalConst, OMultiplyLocalConst
  | ODivideLocalConst, ODivideLocalConst | OModuloLocalConst, OModuloLocalConst | OArray, OArray
  | OIndexGet, OIndexGet | OIndexSet, OIndexSet | OHalt, OHalt => true
  | _, _ => false
  end.

Definition operator_eqb (a b : operator) : bool :=
  match a, b with
  | OpAdd, OpAdd | OpSubtract, OpSubtract | OpMultiply, OpMultiply | OpDivide, OpDivide | OpGt, OpGt
  | OpGte, OpGte | OpLt, OpLt | OpLte, OpLte | OpEq, OpEq | OpNeq, OpNeq | OpNot, OpNot
  | OpNegate, OpNegate | OpAnd, OpAnd | OpOr, OpOr | OpModulo, OpModulo | OpAssign, OpAssign => true
  | _, _ => false
  end.

Definition tag_eqb (a b : tag) : bool :=
  match a, b with
  | TNull, TNull | TInt, TInt | TBool, TBool | TFunction, TFunction | TFloat, TFloat
  | TString, TString | TArray, TArray => true
  | _, _ => false
  end.

Definition ftoken_eqb (a b : ftoken) : bool :=
  match a, b with
  | KIf, KIf | KElse, KElse | KReturn, KReturn | KFunc, KFunc | KWhile, KWhile | KDeclare, KDeclare
  | KTrue, KTrue | KFalse, KFalse | KBreak, KBreak | KContinue, KContinue | KLte, KLte | KGte, KGte
  | KEq, KEq | KNeq, KNeq | KAnd, KAnd | KOr, KOr | KAssign, KAssign | KSemi, KSemi | KComma, KComma
  | KDot, KDot | KOpenParen, KOpenParen | KCloseParen, KCloseParen | KOpenBrace, KOpenBrace
  | KCloseBrace, KCloseBrace | KOpenBracket, KOpenBracket | KCloseBracket, KCloseBracket
  | KBang, KBang | KLt, KLt | KGt, KGt | KMinus, KMinus | KPlus, KPlus | KStar, KStar | KSlash, KSlash
  | KCaret, KCaret | KPercent, KPercent | KIllegal, KIllegal | KEof, KEof => true
  | _, _ => false
  end.

Fixpoint index_of {A} (eqb : A -> A -> bool) (x : A) (l : list A) : option nat :=
  match l with
  | [] => None
  | y :: r => if eqb x y then Some 0%nat else option_map S (index_of eqb x r)
  end.

Fixpoint assoc {A B} (eqb : A -> A -> bool) (x : A) (l : list (A * B)) : option B :=
  match l with
  | [] => None
  | (y, b) :: r => if eqb x y then Some b else assoc eqb x r
  end.

(* declaration order = byte value (repr(u8), first discriminant 0) *)
Definition byte_of_opcode (o : opcode) : Z :=
  match index_of opcode_eqb o opcode_list with Some i => Z.of_nat i | None => 255 end.
Definition opcode_of_byte (b : Z) : option opcode :=
  if b <? 0 then None else nth_error opcode_list (Z.to_nat b).

Definition builtin_eqb (a b : builtin) : bool :=
  match a, b with
  | BPrint, BPrint | BType, BType | BBool, BBool | BFloat, BFloat | BInt, BInt | BString, BString
  | BLength, BLength => true
  | _, _ => false
  end.
Definition byte_of_builtin (b : builtin) : Z :=
  match index_of builtin_eqb b builtin_list with Some i => Z.of_nat i | None => 255 end.
Definition builtin_of_byte (b : Z) : option builtin :=
  if b <? 0 then None else nth_error builtin_list (Z.to_nat b).

Definition tag_index (t : tag) : Z :=
  match index_of tag_eqb t tag_list with Some i => Z.of_nat i | None => 7 end.
Definition tag_of_index (i : Z) : option tag :=
  if i <? 0 then None else nth_error tag_list (Z.to_nat i).

Definition type_name (t : tag) : text :=
  match assoc tag_eqb t type_names with Some s => str_cps s | None => [] end.

(** * Decimal text of integers (Rust: isize::to_string, isize::from_str) *)

Definition digit_cp (d : N) : cp := (48 + d)%N.

Fixpoint show_N_fuel (fuel : nat) (n : N) (acc : text) : text :=
  match fuel with
  | O => acc
  | S f => if (n <? 10)%N then digit_cp n :: acc
           else show_N_fuel f (n / 10)%N (digit_cp (n mod 10)%N :: acc)
  end.
(* a number has at most as many decimal as binary digits *)
Definition show_N (n : N) : text := show_N_fuel (S (N.size_nat n)) n [].
Definition show_Z (z : Z) : text :=
  if z <? 0 then 45%N :: show_N (Z.to_N (- z)) else show_N (Z.to_N z).

Definition is_digit (c : cp) : bool := ((48 <=? c) && (c <=? 57))%N.

Fixpoint parse_digits (s : text) (acc : N) : option N :=
  match s with
  | [] => Some acc
  | c :: r => if is_digit c then parse_digits r (acc * 10 + (c - 48))%N else None
  end.

(* isize::from_str on a 64-bit target: optional sign, at least one ASCII digit, no overflow *)
Definition parse_isize (s : text) : option Z :=
  let '(neg, ds) :=
    match s with
    | 45%N :: r => (true, r)
    | 43%N :: r => (false, r)
    | _ => (false, s)
    end in
  match ds with
  | [] => None
  | _ => match parse_digits ds 0 with
         | None => None
         | Some n => let z := if neg : bool then - Z.of_N n else Z.of_N n in
                     if (- 2^63 <=? z) && (z <? 2^63) then Some z else None
         end
  end.

(* char::is_whitespace (Unicode White_Space), used by str::trim *)
Definition is_unicode_space (c : cp) : bool :=
  ((9 <=? c) && (c <=? 13) || (c =? 32) || (c =? 133) || (c =? 160) || (c =? 5760)
   || (8192 <=? c) && (c <=? 8202) || (c =? 8232) || (c =? 8233) || (c =? 8239) || (c =? 8287)
   || (c =? 12288))%N.

Fixpoint trim_start (s : text) : text :=
  match s with
  | c :: r => if is_unicode_space c then trim_start r else s
  | [] => []
  end.
Definition trim (s : text) : text := rev (trim_start (rev (trim_start s))).

(** * Small list helpers *)

Fixpoint replace_nth {A} (n : nat) (x : A) (l : list A) : list A :=
  match l, n with
  | [], _ => []
  | _ :: r, O => x :: r
  | y :: r, S n' => y :: replace_nth n' x r
  end.

Fixpoint repeat_val {A} (x : A) (n : nat) : list A :=
  match n with O => [] | S n' => x :: repeat_val x n' end.

Definition zlength {A} (l : list A) : Z := Z.of_nat (length l).
