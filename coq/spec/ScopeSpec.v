(* ScopeSpec.v - the abstract reading of a symbol table (property C09).  Definitions only.

   A context's visible declarations are the concatenation of its scopes, outermost scope first.
   The declaration a name refers to is the LAST occurrence of the name in that list (innermost scope
   first; within one scope the latest declaration first).  The slot of a declaration is its position
   in the list.  A name is looked up in the current (last) context and then, from inside a function,
   in the global (first) context; contexts in between are never consulted. *)
From NL.Model Require Export Symbols.
Local Open Scope nat_scope.

(** * The flattened view of a context *)

Definition flat (c : context) : list text := concat (c_syms c).

(* position of the last occurrence of x in l (structural, no accumulator, no index arithmetic) *)
Fixpoint last_occ (x : text) (l : list text) : option nat :=
  match l with
  | [] => None
  | y :: r =>
      match last_occ x r with
      | Some i => Some (S i)
      | None => if text_eqb y x then Some 0 else None
      end
  end.

(* the relational reading of "i is the last occurrence of x in l" *)
Definition is_last_occ (x : text) (l : list text) (i : nat) : Prop :=
  nth_error l i = Some x /\ forall j, i < j -> nth_error l j <> Some x.

(** * Documented name resolution *)

Definition current (t : symtab) : context := current_context t.
Definition global (t : symtab) : context := hd (context_new SGlobal) t.

Definition spec_lookup (c : context) (x : text) : option symbol :=
  option_map (mkSymbol (c_scope c)) (last_occ x (flat c)).

Definition spec_resolve (t : symtab) (x : text) : option symbol :=
  match spec_lookup (current t) x with
  | Some s => Some s
  | None => if Nat.ltb 1 (length t) then spec_lookup (global t) x else None
  end.

(* the context a symbol of a given kind lives in *)
Definition context_of_kind (t : symtab) (k : scope) : context :=
  match k with SLocal => current t | SGlobal => global t end.

(** * Well-formed tables *)

Definition wf_ctx (c : context) : Prop := c_syms c <> [] /\ total_len c <= c_max c.

Definition wf_tab (t : symtab) : Prop :=
  t <> [] /\
  c_scope (global t) = SGlobal /\
  Forall (fun c => c_scope c = SLocal) (tl t) /\
  Forall wf_ctx t.

(** * Sequences of symbol-table operations (what the compiler performs while walking a program) *)

Inductive sop : Type :=
| OpEnter                 (* enter_scope: start of a block *)
| OpDefine (x : text)     (* define *)
| OpLeave                 (* leave_scope: end of a block *)
| OpNewCtx                (* new_context: start of a function *)
| OpLeaveCtx.             (* leave_context: end of a function *)

Definition run_op (t : symtab) (o : sop) : symtab :=
  match o with
  | OpEnter => enter_scope t
  | OpDefine x => fst (define t x)
  | OpLeave => leave_scope t
  | OpNewCtx => new_context t
  | OpLeaveCtx => fst (leave_context t)
  end.
Definition run_ops (t : symtab) (ops : list sop) : symtab := fold_left run_op ops t.

(* The operations performed by the contents of a block: declarations, nested blocks, nested functions,
   every nested block/function closed again. *)
Inductive body : list sop -> Prop :=
| body_nil : body []
| body_define x r : body r -> body (OpDefine x :: r)
| body_block b r : body b -> body r -> body (OpEnter :: b ++ OpLeave :: r)
| body_func b r : body b -> body r -> body (OpNewCtx :: b ++ OpLeaveCtx :: r).

(* A body interrupted anywhere (the compiler stopping at an error): blocks and functions may be left open *)
Inductive open_body : list sop -> Prop :=
| open_nil : open_body []
| open_define x r : open_body r -> open_body (OpDefine x :: r)
| open_block_closed b r : body b -> open_body r -> open_body (OpEnter :: b ++ OpLeave :: r)
| open_func_closed b r : body b -> open_body r -> open_body (OpNewCtx :: b ++ OpLeaveCtx :: r)
| open_block r : open_body r -> open_body (OpEnter :: r)
| open_func r : open_body r -> open_body (OpNewCtx :: r).

(* t' is t with [names] appended to the innermost scope of the current context and the current context's
   max_size grown by n; everything else identical *)
Definition extends_by (names : list text) (n : nat) (t t' : symtab) : Prop :=
  t' = removelast t ++
       [mkContext (c_scope (current t)) (c_max (current t) + n)
                  (removelast (c_syms (current t)) ++ [last (c_syms (current t)) [] ++ names])].

(* t' is t except that the current context's max_size grew by n *)
Definition same_but_max (n : nat) (t t' : symtab) : Prop :=
  t' = removelast t ++ [mkContext (c_scope (current t)) (c_max (current t) + n) (c_syms (current t))].

(** * Renaming *)

Definition map_ctx (r : text -> text) (c : context) : context :=
  mkContext (c_scope c) (c_max c) (map (map r) (c_syms c)).
Definition map_tab (r : text -> text) (t : symtab) : symtab := map (map_ctx r) t.
Definition tab_names (t : symtab) : list text := concat (map flat t).

(** * The retained top level (checkpoint / rollback) *)

(* the first scope of the first context still starts with s, and the first context has kind k *)
Definition has_base (s : list text) (k : scope) (t : symtab) : Prop :=
  exists c0 rest more ss, t = c0 :: rest /\ c_syms c0 = (s ++ more) :: ss /\ c_scope c0 = k.

Definition top_level (t : symtab) : Prop :=
  exists c s, t = [c] /\ c_syms c = [s].

(** * Side conditions on arbitrary operation sequences *)

(* max_size of the context at position i *)
Definition max_at (t : symtab) (i : nat) : nat := c_max (nth i t (context_new SGlobal)).

(* the context at position i is alive (not popped) during the whole of ops *)
Fixpoint alive (i : nat) (t : symtab) (ops : list sop) : Prop :=
  match ops with
  | [] => True
  | o :: r => i < length (run_op t o) /\ alive i (run_op t o) r
  end.

(* neither the first context nor its first scope is ever popped during ops *)
Fixpoint base_kept (t : symtab) (ops : list sop) : Prop :=
  match ops with
  | [] => True
  | o :: r => run_op t o <> [] /\ c_syms (global (run_op t o)) <> [] /\ base_kept (run_op t o) r
  end.
