(* Layout.v - specification side of C07, second half: everything a writer of source text may vary
   WITHOUT changing the tree.  Definitions only; theorems in proofs/LayoutProofs.v (token level) and
   proofs/TextRoundTrip.v (text level).

   1. `tree_printable u show_f b` : the boolean condition under which every token of the printed tree has
      a spelling that lexes back to it (RenderSpec.printable): identifiers have identifier shape under the
      oracle u and are not keywords, float literals are written  digits '.' digits.
   2. a LAYOUT ORACLE `layout := list nat -> choice`: the choice made at the node reached from the root by
      a path of child numbers.  A choice says how many REDUNDANT pairs of parentheses to put around an
      expression, whether to leave out the optional `;` after a statement / the optional `,` after a list
      item, parameter (or to write a trailing `,`), and whether to write an alternative that consists of
      one `als` statement as an `anders als` chain.
   3. `print_program_lay` : the printer of spec/Printer.v driven by such an oracle.  The oracle is obeyed
      wherever the grammar allows (DESIGN.md, C07): a separator is kept although the oracle asks to omit
      it when the token that follows would continue the expression before it (`sep_required`), and the
      chain form is used only for an `als` that is a whole statement and is followed (after the
      optional `;`) by a token that does not continue an expression.  Under the `plain` layout it IS the
      printer of spec/Printer.v (LayoutProofs.print_program_lay_plain). *)
From NL.Model Require Import Parser.
From NL.Spec Require Import Printer RenderSpec.
Open Scope Z_scope.

(** * 1. Trees all of whose tokens can be spelled *)

(* identifier shape under the oracle, and not a keyword (boolean form of RenderSpec.printable (TIdent w)) *)
Definition ident_ok (u : unicode) (w : text) : bool :=
  match w with
  | c :: a => ident_start u c && forallb (ident_char u) a
  | [] => false
  end
  && match assoc_text w keywords with None => true | Some _ => false end.

(* digits '.' digits with at least one digit before the point (RenderSpec.printable (TFloatLit w)) *)
Definition float_ok (w : text) : bool :=
  let '(ds, rest) := span is_digit w in
  match ds, rest with
  | _ :: _, c :: fs => (c =? 46)%N && forallb is_digit fs
  | _, _ => false
  end.

Section Printable.
  Variable u : unicode.
  Variable show_f : float -> text.

  Fixpoint expr_printable (e : expr) {struct e} : bool :=
    match e with
    | EInfix l _ r => expr_printable l && expr_printable r
    | EPrefix _ r => expr_printable r
    | EInt _ => true
    | EFloat x => float_ok (show_f x)
    | EBool _ => true
    | EIf c t alt =>
        expr_printable c && forallb stmt_printable t
        && match alt with None => true | Some a => forallb stmt_printable a end
    | EIdent s => ident_ok u s
    | EFunction name params body =>
        match name with [] => true | _ => ident_ok u name end
        && forallb (ident_ok u) params && forallb stmt_printable body
    | ECall h args => expr_printable h && forallb expr_printable args
    | EAssign l r => expr_printable l && expr_printable r
    | EString _ => true
    | EArray vs => forallb expr_printable vs
    | EIndex b i => expr_printable b && expr_printable i
    | EWhile c b => expr_printable c && forallb stmt_printable b
    end
  with stmt_printable (s : stmt) {struct s} : bool :=
    match s with
    | SLet n e => ident_ok u n && expr_printable e
    | SReturn e => expr_printable e
    | SExpr e => expr_printable e
    | SBlock b => forallb stmt_printable b
    | SBreak => true
    | SContinue => true
    end.

  Definition tree_printable (b : block) : bool := forallb stmt_printable b.
End Printable.

(** * 2. Layout oracles *)

Record choice : Type := mkChoice {
  extra : nat;     (* redundant pairs of parentheses around this expression *)
  omit : bool;     (* statement, or list item / parameter that is not the last of its list: leave out
                      the optional `;` / `,` after it *)
  trail : bool;    (* last item / parameter of a list: write a trailing `,` after it *)
  chain : bool     (* expression statement `als c {..} anders { als .. }`: write `anders als ..` *)
}.

Definition layout : Type := list nat -> choice.
(* the oracle of child number i *)
Definition sub (lay : layout) (i : nat) : layout := fun q => lay (i :: q).
Definition shift (ll : nat -> layout) : nat -> layout := fun i => ll (S i).

(* the plain layout: nothing redundant, every separator written, no chain *)
Definition plain : layout := fun _ => mkChoice 0 false false false.

(** * 3. Where separators are required *)

(* t, standing after a complete expression, is taken by the loop of parse_expr(Lowest) as a continuation
   of that expression (or, for `.`, at least not as the start of something new) *)
Definition continues (t : token) : bool := prec_lt PLowest (token_precedence t).

(* DESIGN.md C07: the separator after a statement / item may not be left out when what comes before it
   ends in an expression and the token after it continues an expression *)
Definition sep_required (ends_in_expr next_continues : bool) : bool := ends_in_expr && next_continues.

(** * 4. The printer *)

Definition paren (ts : list token) : list token := TFix KOpenParen :: ts ++ [TFix KCloseParen].
Fixpoint wrap (k : nat) (ts : list token) : list token :=
  match k with O => ts | S k' => paren (wrap k' ts) end.

(* the minimal parenthesisation of spec/Printer.v *)
Definition print_min (e : expr) (raw : prec -> prec -> list token) (p f : prec) : list token :=
  if need_parens p f e then paren (raw PLowest PLowest) else raw p f.
(* ... and k redundant pairs around it *)
Definition with_extra (k : nat) (m : prec -> prec -> list token) (p f : prec) : list token :=
  match k with O => m p f | S _ => wrap k (m PLowest PLowest) end.

(* the optional `;` after a statement printed with choice c; `cont`: the token that follows the
   separator continues an expression *)
Definition opt_semi (c : choice) (ends_in_expr cont : bool) : list token :=
  if omit c && negb (sep_required ends_in_expr cont) then [] else [TFix KSemi].
(* the optional `,` after a list item (which always ends in an expression) or a parameter (which is
   never followed by a token that continues an expression) *)
Definition opt_comma (c : choice) (last cont : bool) : list token :=
  if last then (if trail c then [TFix KComma] else [])
  else if omit c && negb cont then [] else [TFix KComma].

Section Seq.
  Context {A : Type}.
  (* pr lay last cont x : x and its optional separator; last: x is the last item; cont: the token after x
     and its separator continues an expression *)
  Variable pr : layout -> bool -> bool -> A -> list token.
  (* items from left to right; item number i is laid out by ll i *)
  Fixpoint lay_seq (ll : nat -> layout) (xs : list A) {struct xs} : list token :=
    match xs with
    | [] => []
    | x :: r =>
        let tl := lay_seq (shift ll) r in
        pr (ll 0%nat) (match r with [] => true | _ => false end) (continues (cur tl)) x ++ tl
    end.
End Seq.

Definition is_if (e : expr) : bool := match e with EIf _ _ _ => true | _ => false end.
(* a statement that `anders` may be followed by directly *)
Definition chainable (s : stmt) : bool := match s with SExpr e => is_if e | _ => false end.

(* the chain form is asked for and allowed: lay is the oracle of the statement `SExpr (EIf c t (Some [s2]))`,
   cont says whether the token after the statement (and its optional `;`) continues an expression;
   neither the `als` itself (path [0]) nor the `als` of s2 (path [1; 0]) is put in redundant parentheses *)
Definition use_chain (lay : layout) (cont : bool) (s2 : stmt) : bool :=
  chain (lay []) && negb cont && chainable s2
  && (extra (lay [0%nat]) =? 0)%nat && (extra (lay [1%nat; 0%nat]) =? 0)%nat.

Section PrintLay.
  Variable show_f : float -> text.

  Fixpoint print_expr_lay (lay : layout) (p f : prec) (e : expr) {struct e} : list token :=
    let item (l : layout) (last cont : bool) (x : expr) : list token :=
      print_expr_lay l PLowest PLowest x ++ opt_comma (l []) last cont in
    let param (l : layout) (last cont : bool) (n : text) : list token :=
      TIdent n :: opt_comma (l []) last cont in
    let stm (l : layout) (last cont : bool) (s : stmt) : list token := print_stmt_lay l cont s in
    let raw (p f : prec) : list token :=
      match e with
      | EInfix l o r =>
          let k := infix_tok o in
          print_expr_lay (sub lay 0) p (tok_prec k) l ++ TFix k :: print_expr_lay (sub lay 1) (tok_prec k) f r
      | EPrefix o r =>
          let k := prefix_tok o in
          TFix k :: print_expr_lay (sub lay 0) (tok_prec k) f r
      | EInt z => [TIntLit (show_N (Z.to_N z))]
      | EFloat x => [TFloatLit (show_f x)]
      | EBool b => [TFix (if b then KTrue else KFalse)]
      | EIf c t alt =>
          TFix KIf :: print_expr_lay (sub lay 0) PLowest PLowest c
          ++ (TFix KOpenBrace :: lay_seq stm (sub (sub lay 1)) t ++ [TFix KCloseBrace])
          ++ match alt with
             | None => []
             | Some a =>
                 TFix KElse :: TFix KOpenBrace :: lay_seq stm (sub (sub lay 2)) a
                 ++ [TFix KCloseBrace]
             end
      | EIdent s => [TIdent s]
      | EFunction name params body =>
          TFix KFunc :: match name with [] => [] | _ => [TIdent name] end
          ++ TFix KOpenParen :: lay_seq param (sub (sub lay 0)) params
          ++ TFix KCloseParen :: TFix KOpenBrace :: lay_seq stm (sub (sub lay 1)) body
          ++ [TFix KCloseBrace]
      | ECall h args =>
          print_expr_lay (sub lay 0) p (tok_prec KOpenParen) h
          ++ TFix KOpenParen :: lay_seq item (sub (sub lay 1)) args ++ [TFix KCloseParen]
      | EAssign l r =>
          print_expr_lay (sub lay 0) p (tok_prec KAssign) l
          ++ TFix KAssign :: print_expr_lay (sub lay 1) (tok_prec KAssign) f r
      | EString s => [TStringLit (Printer.quote s)]
      | EArray vs =>
          TFix KOpenBracket :: lay_seq item (sub (sub lay 0)) vs ++ [TFix KCloseBracket]
      | EIndex b i =>
          print_expr_lay (sub lay 0) p (tok_prec KOpenBracket) b
          ++ TFix KOpenBracket :: print_expr_lay (sub lay 1) PLowest PLowest i ++ [TFix KCloseBracket]
      | EWhile c b =>
          TFix KWhile :: print_expr_lay (sub lay 0) PLowest PLowest c
          ++ TFix KOpenBrace :: lay_seq stm (sub (sub lay 1)) b ++ [TFix KCloseBrace]
      end in
    with_extra (extra (lay [])) (print_min e raw) p f

  (* the statement and its optional `;`; cont: the token after them continues an expression *)
  with print_stmt_lay (lay : layout) (cont : bool) (s : stmt) {struct s} : list token :=
    match s with
    | SLet n e =>
        TFix KDeclare :: TIdent n :: TFix KAssign :: print_expr_lay (sub lay 0) PLowest PLowest e
        ++ opt_semi (lay []) true cont
    | SReturn e =>
        TFix KReturn :: print_expr_lay (sub lay 0) PLowest PLowest e ++ opt_semi (lay []) true cont
    | SExpr e =>
        let default := print_expr_lay (sub lay 0) PLowest PLowest e ++ opt_semi (lay []) true cont in
        match e with
        | EIf c t (Some (s2 :: nil)) =>
            if use_chain lay cont s2 then
              (* the `;` of the whole statement is the one written (or not) by the last link of the chain *)
              TFix KIf :: print_expr_lay (sub (sub lay 0) 0) PLowest PLowest c
              ++ (TFix KOpenBrace :: lay_seq (fun l _ cn s' => print_stmt_lay l cn s') (sub (sub (sub lay 0) 1)) t ++ [TFix KCloseBrace])
              ++ TFix KElse :: print_stmt_lay (sub lay 1) cont s2
            else default
        | _ => default
        end
    | SBlock b =>
        TFix KOpenBrace :: lay_seq (fun l _ cn s' => print_stmt_lay l cn s') (sub (sub lay 0)) b
        ++ TFix KCloseBrace :: opt_semi (lay []) false cont
    | SBreak => TFix KBreak :: opt_semi (lay []) false cont
    | SContinue => TFix KContinue :: opt_semi (lay []) false cont
    end.

  Definition print_stm_lay (l : layout) (last cont : bool) (s : stmt) : list token :=
    print_stmt_lay l cont s.
  Definition print_stmts_lay (ll : nat -> layout) (b : block) : list token :=
    lay_seq print_stm_lay ll b.
  Definition print_item_lay (l : layout) (last cont : bool) (x : expr) : list token :=
    print_expr_lay l PLowest PLowest x ++ opt_comma (l []) last cont.
  Definition print_param_lay (l : layout) (last cont : bool) (n : text) : list token :=
    TIdent n :: opt_comma (l []) last cont.
  Definition print_list_lay (ll : nat -> layout) (es : list expr) : list token :=
    lay_seq print_item_lay ll es.
  Definition print_params_lay (ll : nat -> layout) (ps : list text) : list token :=
    lay_seq print_param_lay ll ps.
  Definition print_block_lay (ll : nat -> layout) (b : block) : list token :=
    TFix KOpenBrace :: print_stmts_lay ll b ++ [TFix KCloseBrace].

  (* print_expr_lay without the parenthesis decisions at the root (print_expr_lay_eq in LayoutProofs.v) *)
  Definition print_raw_lay (lay : layout) (p f : prec) (e : expr) : list token :=
    match e with
    | EInfix l o r =>
        let k := infix_tok o in
        print_expr_lay (sub lay 0) p (tok_prec k) l ++ TFix k :: print_expr_lay (sub lay 1) (tok_prec k) f r
    | EPrefix o r =>
        let k := prefix_tok o in
        TFix k :: print_expr_lay (sub lay 0) (tok_prec k) f r
    | EInt z => [TIntLit (show_N (Z.to_N z))]
    | EFloat x => [TFloatLit (show_f x)]
    | EBool b => [TFix (if b then KTrue else KFalse)]
    | EIf c t alt =>
        TFix KIf :: print_expr_lay (sub lay 0) PLowest PLowest c ++ print_block_lay (sub (sub lay 1)) t
        ++ match alt with None => [] | Some a => TFix KElse :: print_block_lay (sub (sub lay 2)) a end
    | EIdent s => [TIdent s]
    | EFunction name params body =>
        TFix KFunc :: match name with [] => [] | _ => [TIdent name] end
        ++ TFix KOpenParen :: print_params_lay (sub (sub lay 0)) params
        ++ TFix KCloseParen :: print_block_lay (sub (sub lay 1)) body
    | ECall h args =>
        print_expr_lay (sub lay 0) p (tok_prec KOpenParen) h
        ++ TFix KOpenParen :: print_list_lay (sub (sub lay 1)) args ++ [TFix KCloseParen]
    | EAssign l r =>
        print_expr_lay (sub lay 0) p (tok_prec KAssign) l
        ++ TFix KAssign :: print_expr_lay (sub lay 1) (tok_prec KAssign) f r
    | EString s => [TStringLit (Printer.quote s)]
    | EArray vs => TFix KOpenBracket :: print_list_lay (sub (sub lay 0)) vs ++ [TFix KCloseBracket]
    | EIndex b i =>
        print_expr_lay (sub lay 0) p (tok_prec KOpenBracket) b
        ++ TFix KOpenBracket :: print_expr_lay (sub lay 1) PLowest PLowest i ++ [TFix KCloseBracket]
    | EWhile c b =>
        TFix KWhile :: print_expr_lay (sub lay 0) PLowest PLowest c ++ print_block_lay (sub (sub lay 1)) b
    end.

  (* the chain form of `SExpr (EIf c t (Some [s2]))` *)
  Definition print_chain_lay (lay : layout) (cont : bool) (c : expr) (t : block) (s2 : stmt) : list token :=
    TFix KIf :: print_expr_lay (sub (sub lay 0) 0) PLowest PLowest c
    ++ print_block_lay (sub (sub (sub lay 0) 1)) t
    ++ TFix KElse :: print_stmt_lay (sub lay 1) cont s2.

  (* the token list of a program; statement number i is laid out by `sub lay i` *)
  Definition print_program_lay (lay : layout) (b : block) : list token := print_stmts_lay (sub lay) b.
End PrintLay.
