(* Printer.v - specification side of C07: a printer from syntax trees to token lists with MINIMAL
   parentheses for the Pratt parser of model/Parser.v, and `wf_tree`, the boolean image of the parser.
   Definitions only; the theorems are in proofs/PrinterProofs.v.

   The parenthesisation rule is the one of tools/nlast.py (`need = head(e) <= p or open_(e) < f`), with
   every rank computed from the generated tables (prec_list, token_prec, token_operator, infix_tokens).

   Layout is deterministic: `;` after every statement, `,` between list items (never trailing), the
   alternative of an `als` always in the block form `anders { ... }` (never an `anders als` chain),
   an assignment always in the long form `a = a + e` (never `a += e`). *)
From NL.Model Require Import Parser.
Open Scope Z_scope.

(** * Operators and their tokens (inverse of Operator::from(Token) by search over the tables) *)

(* rank of the precedence of a fixed token *)
Definition tok_prec (k : ftoken) : prec := token_precedence (TFix k).
Definition tok_rank (k : ftoken) : nat := prec_rank (tok_prec k).
(* larger than every rank *)
Definition inf_rank : nat := length prec_list.

Definition find_tok (cands : list ftoken) (o : operator) : option ftoken :=
  find (fun k => match operator_of (TFix k) with Some o' => operator_eqb o' o | None => false end) cands.

(* the two tokens parse_expr hands to parse_prefix_expr *)
Definition prefix_tokens : list ftoken := [KBang; KMinus].

Definition is_infix_op (o : operator) : bool :=
  match find_tok infix_tokens o with Some _ => true | None => false end.
Definition is_prefix_op (o : operator) : bool :=
  match find_tok prefix_tokens o with Some _ => true | None => false end.
(* KIllegal: the operator has no such token (excluded by wf_tree) *)
Definition infix_tok (o : operator) : ftoken :=
  match find_tok infix_tokens o with Some k => k | None => KIllegal end.
Definition prefix_tok (o : operator) : ftoken :=
  match find_tok prefix_tokens o with Some k => k | None => KIllegal end.

(** * String literals: the raw text between the quotes *)

Definition escape_cp (c : cp) : text :=
  if (c =? 34)%N then [92; 34]%N            (* "  -> \" *)
  else if (c =? 92)%N then [92; 92]%N       (* \  -> \\ *)
  else if (c =? 10)%N then [92; 110]%N      (* newline -> \n *)
  else if (c =? 9)%N then [92; 116]%N       (* tab -> \t *)
  else [c].
Definition quote (s : text) : text := flat_map escape_cp s.

(** * The parenthesisation rule *)

(* rank of the loop iteration that builds the root of e (infinite: built in prefix position) *)
Definition head_rank (e : expr) : nat :=
  match e with
  | EInfix _ o _ => tok_rank (infix_tok o)
  | EAssign _ _ => tok_rank KAssign
  | _ => inf_rank
  end.

(* lowest p' of a parse_expr(p') call still active when the last token of e has been read *)
Definition open_rank (e : expr) : nat :=
  match e with
  | EInfix _ o _ => tok_rank (infix_tok o)
  | EAssign _ _ => tok_rank KAssign
  | EPrefix o _ => tok_rank (prefix_tok o)       (* quirk: the operator token's INFIX rank *)
  | _ => inf_rank
  end.

(* e is printed for a context where its first token is read by parse_expr(p) and the token that
   follows its last token has binding power at most f *)
Definition need_parens (p f : prec) (e : expr) : bool :=
  (head_rank e <=? prec_rank p)%nat || (open_rank e <? prec_rank f)%nat.

Fixpoint sep_concat (sep : token) (xs : list (list token)) : list token :=
  match xs with
  | [] => []
  | x :: rest => match rest with [] => x | _ => x ++ sep :: sep_concat sep rest end
  end.

Section Print.
  Variable show_f : float -> text.      (* decimal text of a float literal; an oracle like parse_f64 *)

  Fixpoint print_expr (p f : prec) (e : expr) {struct e} : list token :=
    let raw (p f : prec) : list token :=
      match e with
      | EInfix l o r =>
          let k := infix_tok o in
          print_expr p (tok_prec k) l ++ TFix k :: print_expr (tok_prec k) f r
      | EPrefix o r =>
          let k := prefix_tok o in
          TFix k :: print_expr (tok_prec k) f r
      | EInt z => [TIntLit (show_N (Z.to_N z))]
      | EFloat x => [TFloatLit (show_f x)]
      | EBool b => [TFix (if b then KTrue else KFalse)]
      | EIf c t alt =>
          TFix KIf :: print_expr PLowest PLowest c
          ++ (TFix KOpenBrace :: flat_map print_stmt t ++ [TFix KCloseBrace])
          ++ match alt with
             | None => []
             | Some a => TFix KElse :: TFix KOpenBrace :: flat_map print_stmt a ++ [TFix KCloseBrace]
             end
      | EIdent s => [TIdent s]
      | EFunction name params body =>
          TFix KFunc :: match name with [] => [] | _ => [TIdent name] end
          ++ TFix KOpenParen :: sep_concat (TFix KComma) (map (fun n => [TIdent n]) params)
          ++ TFix KCloseParen :: TFix KOpenBrace :: flat_map print_stmt body ++ [TFix KCloseBrace]
      | ECall h args =>
          print_expr p (tok_prec KOpenParen) h
          ++ TFix KOpenParen :: sep_concat (TFix KComma) (map (print_expr PLowest PLowest) args)
          ++ [TFix KCloseParen]
      | EAssign l r =>
          print_expr p (tok_prec KAssign) l ++ TFix KAssign :: print_expr (tok_prec KAssign) f r
      | EString s => [TStringLit (quote s)]
      | EArray vs =>
          TFix KOpenBracket :: sep_concat (TFix KComma) (map (print_expr PLowest PLowest) vs)
          ++ [TFix KCloseBracket]
      | EIndex b i =>
          print_expr p (tok_prec KOpenBracket) b ++ TFix KOpenBracket :: print_expr PLowest PLowest i ++ [TFix KCloseBracket]
      | EWhile c b =>
          TFix KWhile :: print_expr PLowest PLowest c
          ++ TFix KOpenBrace :: flat_map print_stmt b ++ [TFix KCloseBrace]
      end in
    if need_parens p f e then TFix KOpenParen :: raw PLowest PLowest ++ [TFix KCloseParen]
    else raw p f

  with print_stmt (s : stmt) {struct s} : list token :=
    match s with
    | SLet n e => TFix KDeclare :: TIdent n :: TFix KAssign :: print_expr PLowest PLowest e ++ [TFix KSemi]
    | SReturn e => TFix KReturn :: print_expr PLowest PLowest e ++ [TFix KSemi]
    | SExpr e => print_expr PLowest PLowest e ++ [TFix KSemi]
    | SBlock b => TFix KOpenBrace :: flat_map print_stmt b ++ [TFix KCloseBrace; TFix KSemi]
    | SBreak => [TFix KBreak; TFix KSemi]
    | SContinue => [TFix KContinue; TFix KSemi]
    end.

  Definition print_stmts (b : block) : list token := flat_map print_stmt b.
  Definition print_block (b : block) : list token :=
    TFix KOpenBrace :: print_stmts b ++ [TFix KCloseBrace].
  Definition print_list (es : list expr) : list token :=
    sep_concat (TFix KComma) (map (print_expr PLowest PLowest) es).
  Definition print_params (ps : list text) : list token :=
    sep_concat (TFix KComma) (map (fun n => [TIdent n]) ps).

  (* the same printer without the outermost parenthesis decision (print_expr_eq in PrinterProofs.v) *)
  Definition print_raw (p f : prec) (e : expr) : list token :=
    match e with
    | EInfix l o r =>
        let k := infix_tok o in
        print_expr p (tok_prec k) l ++ TFix k :: print_expr (tok_prec k) f r
    | EPrefix o r =>
        let k := prefix_tok o in
        TFix k :: print_expr (tok_prec k) f r
    | EInt z => [TIntLit (show_N (Z.to_N z))]
    | EFloat x => [TFloatLit (show_f x)]
    | EBool b => [TFix (if b then KTrue else KFalse)]
    | EIf c t alt =>
        TFix KIf :: print_expr PLowest PLowest c ++ print_block t
        ++ match alt with None => [] | Some a => TFix KElse :: print_block a end
    | EIdent s => [TIdent s]
    | EFunction name params body =>
        TFix KFunc :: match name with [] => [] | _ => [TIdent name] end
        ++ TFix KOpenParen :: print_params params ++ TFix KCloseParen :: print_block body
    | ECall h args =>
        print_expr p (tok_prec KOpenParen) h ++ TFix KOpenParen :: print_list args ++ [TFix KCloseParen]
    | EAssign l r =>
        print_expr p (tok_prec KAssign) l ++ TFix KAssign :: print_expr (tok_prec KAssign) f r
    | EString s => [TStringLit (quote s)]
    | EArray vs => TFix KOpenBracket :: print_list vs ++ [TFix KCloseBracket]
    | EIndex b i =>
        print_expr p (tok_prec KOpenBracket) b ++ TFix KOpenBracket :: print_expr PLowest PLowest i ++ [TFix KCloseBracket]
    | EWhile c b => TFix KWhile :: print_expr PLowest PLowest c ++ print_block b
    end.

  (* the token list of a program *)
  Definition print_program (b : block) : list token := print_stmts b.
End Print.

(** * The image of the parser *)

Definition is_function (e : expr) : bool := match e with EFunction _ _ _ => true | _ => false end.
(* parse_call_expr *)
Definition call_head (e : expr) : bool :=
  match e with EIdent _ | EFunction _ _ _ => true | _ => false end.
(* parse_index_expr *)
Definition index_base (e : expr) : bool :=
  match e with EIdent _ | EArray _ | EString _ => true | _ => false end.
(* parse_assign_expr *)
Definition assign_target (e : expr) : bool :=
  match e with EIdent _ | EIndex _ _ => true | _ => false end.

Section Wf.
  (* which float literals are admitted (the theorem assumes parse_f64 (show_f x) = Some x for them);
     `fun _ => false` excludes float literals, `fun _ => true` admits all *)
  Variable fok : float -> bool.

  Fixpoint wf_expr (e : expr) {struct e} : bool :=
    match e with
    | EInfix l o r => is_infix_op o && negb (is_function l) && wf_expr l && wf_expr r
    | EPrefix o r => is_prefix_op o && wf_expr r
    | EInt z => (0 <=? z) && (z <=? MAX_INT)
    | EFloat x => fok x
    | EBool _ => true
    | EIf c t alt =>
        wf_expr c && forallb wf_stmt t
        && match alt with None => true | Some a => forallb wf_stmt a end
    | EIdent _ => true
    | EFunction _ _ body => forallb wf_stmt body
    | ECall h args => call_head h && wf_expr h && forallb wf_expr args
    | EAssign l r => assign_target l && wf_expr l && wf_expr r
    | EString _ => true
    | EArray vs => forallb wf_expr vs
    | EIndex b i => index_base b && wf_expr b && wf_expr i
    | EWhile c b => wf_expr c && forallb wf_stmt b
    end
  with wf_stmt (s : stmt) {struct s} : bool :=
    match s with
    | SLet _ e => wf_expr e
    | SReturn e => wf_expr e
    | SExpr e => wf_expr e
    | SBlock b => forallb wf_stmt b
    | SBreak => true
    | SContinue => true
    end.

  Definition wf_tree_gen (b : block) : bool := forallb wf_stmt b.
End Wf.

(* every float literal admitted *)
Definition wf_tree (b : block) : bool := wf_tree_gen (fun _ => true) b.
(* no float literal anywhere *)
Definition wf_tree_nofloat (b : block) : bool := wf_tree_gen (fun _ => false) b.
