(* Fragment3.v - the fragment F3 of the language (FUNCTIONS) for which compiler correctness
   (property C01) and the call facts of properties C10 / C12 are proved in
   proofs/CompileCorrectE.v .. I.v.  Definitions only.

   F3 = F2 + function literals (anonymous anywhere an expression may stand, named ones as whole
   statements: DESIGN 4.3 item 13), parameters, local variables in function bodies (block scopes,
   slot reuse), calls of non-builtin callees (any expression as callee: functions are first class),
   `antwoord` anywhere inside a function (also in operand position), recursion through a global name,
   nested function literals, the fused instructions.  Values: scalars and function values.

   Static restrictions (each reported in the final reply of the proof engineer):
   * stop / volgende only in statement position of the innermost loop (flag lp, as in F2; item 6);
   * `stel x = e` with x mentioned in e only when e is itself an anonymous function literal
     (`stel fib = functie(n) { ... fib(n - 1) ... }`: nothing is read while e is evaluated);
     otherwise as in F2 (item 7: the slot of a dead variable is reused);
   * function literals stand at scope depth 0 of the top level or inside function bodies, not inside
     a block / als / zolang of the TOP LEVEL (flag fa): a function written there could mention a
     block-local global whose slot is reused after the block (item 9);
   * callees are not builtin names (builtins are fragment F4; item 8).

   Dynamic exclusions, stated on the runs (see compile_correct_F3):
   * a call with MORE arguments than the callee has parameters: Sem says ArgumentError, the machine
     compares with num_locals (item 4).  Hypothesis: the result of Sem is not that ArgumentError
     (no other construct of F3 produces an ArgumentError).  FEWER arguments are included: both
     sides bind the missing parameters to null;
   * the machine's limits (65535 stack cells / frames) and `==` / `!=` applied to TWO FUNCTION
     VALUES: `hits_excluded` below, a property of the machine run.  The second one is a genuine
     discrepancy between Sem.v and the machine, not listed in DESIGN 4.3: Sem compares closure
     identities (every evaluation of a function literal creates a new one), the machine compares
     (entry point, number of locals), so two values of the SAME literal are equal for the machine
     and different for Sem (program: CompileCorrectI.ex_funeq, Example ex_funeq_differs). *)
From NL.Model Require Export VM.
From NL.Spec Require Export Sem Fragment Fragment2.
Open Scope Z_scope.

Definition is_funlit (e : expr) : bool :=
  match e with EFunction [] _ _ => true | _ => false end.

Definition is_builtin_callee (f : expr) : bool :=
  match f with EIdent x => is_builtin_name x | _ => false end.

(* lp : a stop / volgende of the innermost enclosing loop may be written here
   fa : a function literal may be written here
   fn : inside a function body *)
Fixpoint f3e (lp fa fn : bool) (e : expr) {struct e} : bool :=
  let f3b := fix f3b (lp fa fn : bool) (l : list stmt) : bool :=
    match l with [] => true | s :: r => f3s lp fa fn s && f3b lp fa fn r end in
  let f3es := fix f3es (l : list expr) : bool :=
    match l with [] => true | x :: r => f3e false fa fn x && f3es r end in
  match e with
  | EInt z => lit_ok z
  | EBool _ => true
  | EIdent _ => true
  | EAssign l r => match l with EIdent _ => f3e false fa fn r | _ => false end
  | EInfix l o r => is_binop o && f3e false fa fn l && f3e false fa fn r
  | EPrefix o r => is_prefix_op o && f3e false fa fn r
  | EIf c t alt => f3e false fa fn c && f3b lp fn fn t && match alt with Some b => f3b lp fn fn b | None => true end
  | EWhile c b => f3e false fa fn c && f3b true fn fn b
  | EFunction name _ body => fa && is_nil name && f3b false true true body
  | ECall f args => negb (is_builtin_callee f) && f3es args && f3e false fa fn f
  | _ => false
  end
with f3s (lp fa fn : bool) (s : stmt) {struct s} : bool :=
  let f3b := fix f3b (lp fa fn : bool) (l : list stmt) : bool :=
    match l with [] => true | s :: r => f3s lp fa fn s && f3b lp fa fn r end in
  match s with
  | SLet x e => f3e false fa fn e && (negb (mentions x e) || is_funlit e)
  | SExpr e =>
      match e with
      | EFunction (_ :: _) _ body => fa && f3b false true true body
      | _ => f3e lp fa fn e
      end
  | SBlock b => f3b lp fn fn b
  | SBreak | SContinue => lp
  | SReturn e => f3e false fa fn e
  end.

Fixpoint f3b (lp fa fn : bool) (l : list stmt) : bool :=
  match l with [] => true | s :: r => f3s lp fa fn s && f3b lp fa fn r end.

Definition f3es (fa fn : bool) : list expr -> bool :=
  fix f3es (l : list expr) : bool :=
    match l with [] => true | x :: r => f3e false fa fn x && f3es r end.

(* a top-level program: not inside a loop, function literals allowed, not inside a function *)
Definition in_F3 (p : block) : bool := f3b false true false p.

(* the statement list ends (through blocks) in an `antwoord`: what the compiler's
   `last_instruction_is OReturnValue` test sees at the end of a function body *)
Fixpoint stmt_ret (s : stmt) {struct s} : bool :=
  match s with
  | SReturn _ => true
  | SBlock b => (fix go (l : list stmt) : bool :=
                   match l with
                   | [] => false
                   | s :: r => match r with [] => stmt_ret s | _ :: _ => go r end
                   end) b
  | _ => false
  end.
Fixpoint ends_ret (l : list stmt) : bool :=
  match l with
  | [] => false
  | s :: r => match r with [] => stmt_ret s | _ :: _ => ends_ret r end
  end.

(* fuel that is certainly enough for the static pass *)
Fixpoint size3_e (e : expr) {struct e} : nat :=
  let bs := fix bs (l : list stmt) : nat := match l with [] => 1%nat | s :: r => S (size3_s s + bs r) end in
  let es := fix es (l : list expr) : nat := match l with [] => 0%nat | x :: r => (size3_e x + es r)%nat end in
  match e with
  | EInfix l _ r => S (size3_e l + size3_e r)
  | EPrefix _ r => S (size3_e r)
  | EIf c t alt => S (size3_e c + bs t + match alt with Some b => bs b | None => 0%nat end)
  | EFunction _ _ b => S (bs b)
  | ECall f args => S (es args + size3_e f)
  | EAssign l r => S (size3_e l + size3_e r)
  | EArray vs => S (es vs)
  | EIndex l i => S (size3_e l + size3_e i)
  | EWhile c b => S (size3_e c + bs b)
  | _ => 1%nat
  end
with size3_s (s : stmt) {struct s} : nat :=
  match s with
  | SLet _ e | SReturn e | SExpr e => S (size3_e e)
  | SBlock b => S ((fix bs (l : list stmt) : nat := match l with [] => 1%nat | s :: r => S (size3_s s + bs r) end) b)
  | SBreak | SContinue => 1%nat
  end.
Fixpoint size3_b (l : list stmt) : nat := match l with [] => 1%nat | s :: r => S (size3_s s + size3_b r) end.

(** * Observations: function values are compared by kind *)

(* a function value of Sem is an index into its closure table, a function value of the machine is
   (entry point, number of locals): as a program's result they are both just "a function" *)
Definition val_obs_eq (machine spec : val) : Prop :=
  match spec with
  | VFun _ _ => exists ip n, machine = VFun ip n
  | _ => machine = spec
  end.

Definition obs_eq3 (o : observation) (r : sem_result) : Prop :=
  match r with
  | SemValue v _ out => exists v', o_result o = Ok v' /\ val_obs_eq v' v /\ o_out o = out
  | SemError k out => o_result o = Err k /\ o_out o = out
  | SemFault f out => o_result o = Fault f /\ o_out o = out
  | SemRejected _ => False
  | SemFuel => False
  end.

(** * Machine states outside the comparison *)

(* about to execute a Call that exceeds the stack / frame limit (DESIGN 4.3 item 5) *)
Definition at_limit (prog : program) (s : vm) : Prop :=
  exists argc ip n rest,
    byte_at prog (v_ip s) = Some (byte_of_opcode OCall) /\ byte_at prog (v_ip s + 1) = Some argc /\
    v_stack s = VFun ip n :: rest /\ argc <= n /\
    (MAX_STACK_SIZE < v_slen s - 1 + n \/ MAX_FRAMES <= zlength (v_frames s)).

(* about to compare two function values with == or != *)
Definition at_funeq (prog : program) (s : vm) : Prop :=
  exists op i n j k rest,
    byte_at prog (v_ip s) = Some (byte_of_opcode op) /\ (op = OEq \/ op = ONeq) /\
    v_stack s = VFun j k :: VFun i n :: rest.

Definition excluded (prog : program) (s : vm) : Prop := at_limit prog s \/ at_funeq prog s.

(* the run of the bytecode passes through an excluded state: after `budget` instructions, none of
   which failed or halted, the machine is in such a state *)
Definition hits_excluded (orc : oracle) (bc : bytecode) : Prop :=
  exists budget s,
    let '(consts, h0) := load_consts (b_constants bc) empty_heap in
    let prog := mkProgram (b_code bc) consts in
    run_loop orc prog budget (vm_start vm_new consts h0) = (OutOfFuel, s, O) /\ excluded prog s.
