(* Fragment2h.v - the fragment F2h of the language for which compiler correctness (property C01) is
   proved in proofs/CompileCorrectH*.v, and the observation relation used there.
   Definitions only.

   F2h = F2 + HEAP VALUES + BUILTINS: float / string / array literals, the operators on floats and
   strings, indexing `a[i]` and index assignment `a[i] = v` on arrays and strings, and calls of the
   seven builtins (print, type, bool, int, float, string, lengte).  Still top-level code: one
   context, nested scopes, no user functions (so the collector never runs during the program).

   Restrictions (the two of F2, plus two about float literals):
   * stop / volgende only in statement position; operands (of operators, index expressions, array
     literals, argument lists, initialisers) contain no stop / volgende of an enclosing loop;
   * `stel x = e` where e mentions x is excluded (stale slot, see Fragment2.v);
   * a float literal is not NaN (`PrimFloat.eqb f f = true`): the parser cannot produce one;
   * the constant pool merges float literals that are IEEE-equal (PoolProofs: 0.0 and -0.0 share a
     slot).  The theorem assumes `lits_exact`: two float literals of the program that are IEEE-equal
     are the same float.  (Source text cannot spell -0.0 as a literal.) *)
From NL.Model Require Export VM.
From NL.Spec Require Export Sem Fragment Fragment2.
Open Scope Z_scope.

(** * The fragment *)

(* lp: a stop / volgende of the innermost enclosing loop may be written here *)
Fixpoint f2he (lp : bool) (e : expr) {struct e} : bool :=
  let f2hb := fix f2hb (lp : bool) (l : list stmt) : bool :=
    match l with [] => true | s :: r => f2hs lp s && f2hb lp r end in
  let f2hl := fix f2hl (l : list expr) : bool :=
    match l with [] => true | x :: r => f2he false x && f2hl r end in
  match e with
  | EInt z => lit_ok z
  | EBool _ => true
  | EFloat f => PrimFloat.eqb f f
  | EString _ => true
  | EIdent _ => true
  | EAssign l r =>
      match l with
      | EIdent _ => f2he false r
      | EIndex b i => f2he false b && f2he false i && f2he false r
      | _ => false
      end
  | EInfix l o r => is_binop o && f2he false l && f2he false r
  | EPrefix o r => is_prefix_op o && f2he false r
  | EIf c t alt => f2he false c && f2hb lp t && match alt with Some b => f2hb lp b | None => true end
  | EWhile c b => f2he false c && f2hb true b
  | EArray vs => f2hl vs
  | EIndex b i => f2he false b && f2he false i
  | ECall fn args => match fn with EIdent x => is_builtin_name x | _ => false end && f2hl args
  | EFunction _ _ _ => false
  end
with f2hs (lp : bool) (s : stmt) {struct s} : bool :=
  match s with
  | SLet x e => f2he false e && negb (mentions x e)
  | SExpr e => f2he lp e
  | SBlock b => (fix f2hb (lp : bool) (l : list stmt) : bool :=
                   match l with [] => true | s :: r => f2hs lp s && f2hb lp r end) lp b
  | SBreak | SContinue => lp
  | SReturn _ => false
  end.

Fixpoint f2hb (lp : bool) (l : list stmt) : bool :=
  match l with [] => true | s :: r => f2hs lp s && f2hb lp r end.

Fixpoint f2hl (l : list expr) : bool :=
  match l with [] => true | x :: r => f2he false x && f2hl r end.

(* a top-level program: not inside a loop *)
Definition in_F2h (p : block) : bool := f2hb false p.

(** * The heap literals of a program (as pool constants) *)

Fixpoint lits_e (e : expr) {struct e} : list const :=
  let stmts := fix stmts (l : list stmt) : list const :=
    match l with [] => [] | s :: r => lits_s s ++ stmts r end in
  let exprs := fix exprs (l : list expr) : list const :=
    match l with [] => [] | x :: r => lits_e x ++ exprs r end in
  match e with
  | EFloat f => [KFloat f]
  | EString s => [KStr s]
  | EInfix l _ r => lits_e l ++ lits_e r
  | EPrefix _ r => lits_e r
  | EIf c t alt => lits_e c ++ stmts t ++ match alt with Some b => stmts b | None => [] end
  | EFunction _ _ body => stmts body
  | ECall f args => exprs args ++ lits_e f
  | EAssign l r => lits_e l ++ lits_e r
  | EArray vs => exprs vs
  | EIndex l i => lits_e l ++ lits_e i
  | EWhile c b => lits_e c ++ stmts b
  | _ => []
  end
with lits_s (s : stmt) {struct s} : list const :=
  match s with
  | SLet _ e | SReturn e | SExpr e => lits_e e
  | SBlock b => (fix stmts (l : list stmt) : list const :=
                   match l with [] => [] | s :: r => lits_s s ++ stmts r end) b
  | SBreak | SContinue => []
  end.

Fixpoint lits_b (l : list stmt) : list const :=
  match l with [] => [] | s :: r => lits_s s ++ lits_b r end.

Fixpoint lits_l (l : list expr) : list const :=
  match l with [] => [] | x :: r => lits_e x ++ lits_l r end.

(* float literals that the pool would merge are the same float *)
Definition lits_exact (l : list const) : Prop :=
  forall f g, In (KFloat f) l -> In (KFloat g) l -> PrimFloat.eqb f g = true -> f = g.

(** * Fuel that is certainly enough for the static pass *)

Fixpoint size2h_e (e : expr) {struct e} : nat :=
  let stmts := fix stmts (l : list stmt) : nat :=
    match l with [] => 1%nat | s :: r => S (size2h_s s + stmts r) end in
  let exprs := fix exprs (l : list expr) : nat :=
    match l with [] => 0%nat | x :: r => (size2h_e x + exprs r)%nat end in
  match e with
  | EInfix l _ r => S (size2h_e l + size2h_e r)
  | EPrefix _ r => S (size2h_e r)
  | EAssign l r => S (size2h_e l + size2h_e r)
  | EIf c t alt => S (size2h_e c + stmts t + match alt with Some b => stmts b | None => 0%nat end)
  | EWhile c b => S (size2h_e c + stmts b)
  | EArray vs => S (exprs vs)
  | EIndex l i => S (size2h_e l + size2h_e i)
  | ECall f args => S (exprs args + size2h_e f)
  | _ => 1%nat
  end
with size2h_s (s : stmt) {struct s} : nat :=
  match s with
  | SLet _ e | SExpr e | SReturn e => S (size2h_e e)
  | SBlock b => S ((fix stmts (l : list stmt) : nat :=
                      match l with [] => 1%nat | s :: r => S (size2h_s s + stmts r) end) b)
  | SBreak | SContinue => 1%nat
  end.
Fixpoint size2h_b (l : list stmt) : nat :=
  match l with [] => 1%nat | s :: r => S (size2h_s s + size2h_b r) end.
Fixpoint size2h_l (l : list expr) : nat :=
  match l with [] => 0%nat | x :: r => (size2h_e x + size2h_l r)%nat end.

(** * Same value graph under a correspondence of locations *)

(* Sem allocates a fresh box for every evaluation of a literal; the machine copies a string constant
   but pushes the pooled box of a float constant.  So the two heaps are compared through a relation
   R between Sem locations and machine locations: one-to-one on strings and arrays (the mutable
   boxes: aliasing is the same on both sides), many Sem floats to one machine float allowed. *)
Definition loc_rel := positive -> positive -> Prop.

(* function values do not occur in F2h: they are not related *)
Inductive val_rel (R : loc_rel) : val -> val -> Prop :=
| VR_null : val_rel R VNull VNull
| VR_bool : forall b, val_rel R (VBool b) (VBool b)
| VR_int : forall z, val_rel R (VInt z) (VInt z)
| VR_float : forall l l', R l l' -> val_rel R (VFloat l) (VFloat l')
| VR_str : forall l l', R l l' -> val_rel R (VStr l) (VStr l')
| VR_arr : forall l l', R l l' -> val_rel R (VArr l) (VArr l').

Definition obj_rel (R : loc_rel) (o o' : obj) : Prop :=
  match o, o' with
  | OFloat f, OFloat f' => f = f'
  | OStr s, OStr s' => s = s'
  | OArr vs, OArr vs' => Forall2 (val_rel R) vs vs'
  | _, _ => False
  end.

Record graph_rel (R : loc_rel) (hs hm : heap) : Prop := mkGR {
  (* related locations hold live boxes with related contents *)
  gr_obj : forall l l', R l l' ->
             exists o o', h_get hs l = Ok o /\ h_get hm l' = Ok o' /\ obj_rel R o o';
  (* a Sem box has one machine box *)
  gr_fun : forall l l1 l2, R l l1 -> R l l2 -> l1 = l2;
  (* two Sem boxes share a machine box only if it is a float (immutable) *)
  gr_inj : forall l1 l2 l', R l1 l' -> R l2 l' ->
             l1 = l2 \/ exists f, h_get hm l' = Ok (OFloat f)
}.

(* value v in Sem's heap hs and value v' in the machine's heap hm are the same graph *)
Definition graph_eq (hs : heap) (v : val) (hm : heap) (v' : val) : Prop :=
  exists R : loc_rel, val_rel R v v' /\ graph_rel R hs hm.

(* what is compared between a run of the machine and the denotation: the outcome - the final value
   GRAPH, read in the heap the observation carries (after the collector has been dropped), or the
   error kind / fault - and everything printed (same text, in the same order; for an error: what was
   printed before it was raised) *)
Definition obs_eq_h (o : observation) (r : sem_result) : Prop :=
  match r with
  | SemValue v hs out =>
      exists v' hm, o_result o = Ok v' /\ o_heap o = Ok hm /\ o_out o = out /\ graph_eq hs v hm v'
  | SemError k out => o_result o = Err k /\ o_out o = out
  | SemFault f out => o_result o = Fault f /\ o_out o = out
  | SemRejected _ => False
  | SemFuel => False
  end.

(** * Address space *)

(* the state in which Sem's evaluation of the program ends (normally or with an error) *)
Definition sem_final_state (orc : oracle) (fuel : nat) (p : block) : option sstate :=
  match exec_block orc fuel (mkD [[]] None) p VNull sem_init with
  | ROk _ st | RSig _ st | RErr _ st | RFault _ st => Some st
  | RFuel => None
  end.

(* a heap word carries 61 address bits (VMInv.addr_bounded): the operators of Ops.v read the right
   box only for locations below 2^60, in Sem as in the machine.  The denotation allocates fewer
   boxes than that (nconsts: the boxes of the constant pool, which only the machine allocates). *)
Definition sem_small (orc : oracle) (fuel : nat) (p : block) (nconsts : nat) : Prop :=
  forall st, sem_final_state orc fuel p = Some st ->
             n_alloc (st_heap st) + Z.of_nat nconsts + 1 < 2 ^ 60.
