(* VMInv.v - the machine-state invariant under which the collector properties C03 / C04 are lifted
   from gc.rs (spec/GCInv.v, proofs/GCProofs.v) to whole runs of the VM model (model/VM.v).
   Definitions only; the theorems are in proofs/VMGCProofs.v. *)
From NL.Model Require Export VM.
From NL.Spec Require Export GCInv.
Open Scope Z_scope.

(* every value the machine can still use: what the next instructions can read *)
Definition vm_vals (prog : program) (s : vm) : list val :=
  v_final s :: v_stack s ++ v_globals s ++ p_consts prog.

Definition held (prog : program) (s : vm) (v : val) : Prop :=
  In v (v_stack s) \/ In v (v_globals s) \/ In v (p_consts prog) \/ v = v_final s.

(* number of boxes that are allocated and not released (executable) *)
Definition alive_count (h : heap) : nat :=
  length (filter (fun c : positive * (bool * obj) => fst (snd c)) (PM.elements (cells h))).

Record VMInv (prog : program) (s : vm) : Prop := {
  (* the collector's representation invariant *)
  vi_gc : GCInv (v_heap s) (v_gc s);
  (* whatever the machine holds points to a live box of the right kind ... *)
  vi_held_ok : forall v, held prog s v -> val_ok (v_heap s) v = true;
  (* ... that the collector knows about (so the root list of VM.roots covers it) *)
  vi_held_managed : forall v l, held prog s v -> val_loc v = Some l -> managed (v_gc s) l;
  (* nothing that is allocated escapes the collector (the converse is inv_ok of GCInv) *)
  vi_alive_managed : forall l, h_alive (v_heap s) l = true -> managed (v_gc s) l;
  (* the allocator hands out fresh locations *)
  vi_fresh : forall l, (next_loc (v_heap s) <= l)%positive -> PM.find l (cells (v_heap s)) = None;
  vi_next : Zpos (next_loc (v_heap s)) = n_alloc (v_heap s) + 1;
  (* the ledger: allocations minus releases = boxes alive *)
  vi_ledger : h_live_count (v_heap s) = Z.of_nat (alive_count (v_heap s))
}.

(* the three outcomes that mean "a released / recycled / doubly released box was touched" *)
Definition non_heap_fault (f : fault) : Prop :=
  f <> FUseAfterFree /\ f <> FDoubleFree /\ f <> FBadTag.

(* a heap word can only carry 61 address bits (Word.v: w_as_ptr), the model's locations are unbounded
   positives: the word-level operators of Ops.v read the right box only for locations below 2^60
   (WordProofs.as_ptr_encode).  [addr_bounded] says that fewer than 2^60 - 1 boxes were allocated. *)
Definition addr_bounded (s : vm) : Prop := n_alloc (v_heap s) + 1 < 2 ^ 60.

(* the instruction about to be executed is one of the two collection points *)
Definition at_return (prog : program) (s : vm) : Prop :=
  exists b, byte_at prog (v_ip s) = Some b
            /\ (opcode_of_byte b = Some OReturn \/ opcode_of_byte b = Some OReturnValue).
