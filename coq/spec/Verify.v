(* Verify.v - a lightweight bytecode verifier for the VM model of VM.v (property C02:
   "execution never leaves the interpreter's own memory").

   A certificate assigns to instruction-boundary pcs an entry (mode, h):
     mode = false : top-level code,   mode = true : inside a function body
     h            : a LOWER bound on  v_slen s - v_bp s  at the moment the instruction at that pc is fetched.
   `check` validates a certificate against a program (this is all soundness depends on, see
   proofs/VerifyProofs.v); `infer` proposes one by a worklist dataflow computation; `verify` combines them.
   Definitions only, everything executable. *)
From NL.Model Require Import VM.
Open Scope Z_scope.

(* the faults that stand for accesses the Rust VM performs UNCHECKED *)
Definition c02_fault (f : fault) : bool :=
  match f with
  | FPopEmpty | FFetchOutside | FOperandOutside | FBadOpcode | FBadBuiltin
  | FLocalSlot | FConstIndex | FNoFrame | FCallUnderflow => true
  | FUseAfterFree | FDoubleFree | FBadTag | FUnwrap | FOverflow => false
  end.

(** * Certificates *)

Definition entry : Type := (bool * Z)%type.       (* (inside a function body?, lower bound) *)
Definition cert : Type := PM.t entry.

Definition key (pc : Z) : positive := Z.to_pos (pc + 1).
Definition lookup (c : cert) (pc : Z) : option entry :=
  if pc <? 0 then None else PM.find (key pc) c.

(* pc is certified in mode m with a bound that the known lower bound h' justifies *)
Definition succ_ok (c : cert) (m : bool) (pc' h' : Z) : bool :=
  match lookup c pc' with
  | Some (m', h'') => Bool.eqb m m' && (h'' <=? h')
  | None => false
  end.

(** * What one instruction demands and where it continues *)

(* The instruction bytes are read through `fetch : Z -> option Z`.  The soundness proof instantiates it with
   VM.byte_at; the executable checker uses an equal but faster map-based function (fetch_map below). *)
Definition rd16 (fetch : Z -> option Z) (pc : Z) : option Z :=
  match fetch pc, fetch (pc + 1) with
  | Some lo, Some hi => Some (lo + 256 * hi)
  | _, _ => None
  end.

Definition const_in (consts : list val) (idx : Z) : bool :=
  match nth_error consts (Z.to_nat idx) with Some _ => true | None => false end.

Fixpoint build_from (l : list Z) (k : positive) (m : PM.t Z) : PM.t Z :=
  match l with
  | [] => m
  | b :: r => build_from r (Pos.succ k) (PM.add k b m)
  end.
Definition code_map (code : list Z) : PM.t Z := build_from code 1%positive (PM.empty Z).
Definition fetch_map (cm : PM.t Z) (pc : Z) : option Z :=
  if pc <? 0 then None else PM.find (Z.to_pos (pc + 1)) cm.

(* number of operand bytes, from the generated table *)
Definition opwidth (o : opcode) : Z := Z.of_nat (fold_right Nat.add 0%nat (operands o)).

Definition guard {A} (b : bool) (x : A) : option A := if b then Some x else None.

(* None: the instruction at pc is not acceptable when only h operands are known to be on the frame's
   stack; Some l: acceptable, and l lists the possible next pcs in the SAME frame together with the lower
   bound that holds there.  (The entry of a called function is not listed: it is reached through a
   function value, see const_val_ok.  After `Call argc` the listed successor is the return address.) *)
Definition instr_succs (fetch : Z -> option Z) (len : Z) (consts : list val)
  (pc : Z) (m : bool) (h : Z) : option (list (Z * Z)) :=
  match fetch pc with
  | None => None
  | Some b =>
      match opcode_of_byte b with
      | None => None
      | Some op =>
          let nxt := pc + 1 + opwidth op in
          (* all operand bytes inside the code (widths from Tables.operands; the explicit operand reads
             below repeat this for the reads VM.step really performs) *)
          if negb (nxt <=? len) then None
          else
            match op with
            | OConst =>
                match rd16 fetch (pc + 1) with
                | Some idx => guard (const_in consts idx) [(nxt, h + 1)]
                | None => None
                end
            | OSetGlobal =>
                match rd16 fetch (pc + 1) with
                | Some _ => guard (1 <=? h) [(nxt, h - 1)]
                | None => None
                end
            | OGetGlobal =>
                match rd16 fetch (pc + 1) with
                | Some _ => Some [(nxt, h + 1)]
                | None => None
                end
            | OSetLocal =>
                match rd16 fetch (pc + 1) with
                | Some idx => guard ((1 <=? h) && (0 <=? idx) && (idx <? h - 1)) [(nxt, h - 1)]
                | None => None
                end
            | OGetLocal =>
                match rd16 fetch (pc + 1) with
                | Some idx => guard ((0 <=? idx) && (idx <? h)) [(nxt, h + 1)]
                | None => None
                end
            | OJump =>
                match rd16 fetch (pc + 1) with
                | Some pos => Some [(pos, h)]
                | None => None
                end
            | OJumpIfFalse =>
                match rd16 fetch (pc + 1) with
                | Some pos => guard (1 <=? h) [(nxt, h - 1); (pos, h - 1)]
                | None => None
                end
            | OPop => guard (1 <=? h) [(nxt, h - 1)]
            | ONull | OTrue | OFalse => Some [(nxt, h + 1)]
            | ONot | ONegate => guard (1 <=? h) [(nxt, h)]
            | OCall =>
                match fetch (pc + 1) with
                | Some argc => guard ((0 <=? argc) && (argc + 1 <=? h)) [(nxt, h - argc)]
                | None => None
                end
            | OCallBuiltin =>
                match fetch (pc + 1), fetch (pc + 2) with
                | Some bb, Some argc =>
                    match builtin_of_byte bb with
                    | Some _ => guard ((0 <=? argc) && (argc <=? h)) [(nxt, h - argc + 1)]
                    | None => None
                    end
                | _, _ => None
                end
            | OReturnValue => guard (m && (1 <=? h)) []
            | OReturn => guard m []
            | OArray =>
                match rd16 fetch (pc + 1) with
                | Some n => guard ((0 <=? n) && (n <=? h)) [(nxt, h - n + 1)]
                | None => None
                end
            | OIndexGet => guard (2 <=? h) [(nxt, h - 1)]
            | OIndexSet => guard (3 <=? h) [(nxt, h - 2)]
            | OHalt =>
                (* VM.step on Halt only untraces the final result and stops (no Continue state); this
                   touches neither the stack nor the frames, so it is memory-safe in either mode *)
                Some []
            | _ =>
                match assoc opcode_eqb op binary_dispatch with
                | Some _ => guard (2 <=? h) [(nxt, h - 1)]
                | None =>
                    match assoc opcode_eqb op fused_dispatch with
                    | Some _ =>
                        match rd16 fetch (pc + 1), rd16 fetch (pc + 3) with
                        | Some li, Some ci =>
                            guard ((0 <=? li) && (li <? h) && const_in consts ci) [(nxt, h + 1)]
                        | _, _ => None
                        end
                    | None => None
                    end
                end
            end
      end
  end.

Definition check_instr (fetch : Z -> option Z) (len : Z) (consts : list val)
  (c : cert) (pc : Z) (e : entry) : bool :=
  let '(m, h) := e in
  match instr_succs fetch len consts pc m h with
  | Some l => forallb (fun '(pc', h') => succ_ok c m pc' h') l
  | None => false
  end.

(* a function value may be called: its entry is certified in function mode, and the num_locals slots the
   call sets up justify the bound recorded there *)
Definition const_val_ok (c : cert) (v : val) : bool :=
  match v with
  | VFun ip n => (0 <=? n) && succ_ok c true ip n
  | _ => true
  end.

(** * The checker *)
Definition check (p : program) (c : cert) : bool :=
  let fetch := fetch_map (code_map (p_code p)) in
  let len := zlength (p_code p) in
  forallb (fun '(k, e) => check_instr fetch len (p_consts p) c (Zpos k - 1) e) (PM.elements c)
  && match lookup c 0 with Some (false, h) => h <=? 0 | _ => false end
  && forallb (const_val_ok c) (p_consts p).

(** * Inference: worklist dataflow, minimum at joins *)

Definition fun_entries (ks : list val) : list (Z * entry) :=
  flat_map (fun v => match v with VFun ip n => [(ip, (true, n))] | _ => [] end) ks.

Fixpoint infer_loop (fuel : nat) (fetch : Z -> option Z) (len : Z) (consts : list val)
  (wl : list (Z * entry)) (c : cert) : option cert :=
  match fuel with
  | O => None
  | S f =>
      match wl with
      | [] => Some c
      | (pc, (m, h)) :: wl' =>
          if pc <? 0 then None
          else
            let visit :=
              match instr_succs fetch len consts pc m h with
              | Some l => infer_loop f fetch len consts (map (fun '(pc', h') => (pc', (m, h'))) l ++ wl') (PM.add (key pc) (m, h) c)
              | None => None
              end in
            match PM.find (key pc) c with
            | Some (m', h') =>
                if negb (Bool.eqb m m') then None
                else if h' <=? h then infer_loop f fetch len consts wl' c
                else visit
            | None => visit
            end
      end
  end.

Definition infer_fuel (p : program) : nat := (64 * S (length (p_code p)))%nat.

Definition infer (p : program) : option cert :=
  infer_loop (infer_fuel p) (fetch_map (code_map (p_code p))) (zlength (p_code p)) (p_consts p)
             ((0, (false, 0)) :: fun_entries (p_consts p)) (PM.empty _).

Definition verify (p : program) : bool :=
  match infer p with
  | Some c => check p c
  | None => false
  end.
