(* SemSession.v - what a retained session MEANS (property C17): one growing program.  The lines are
   evaluated by the definitional semantics of Sem.v with one carried environment: every line sees
   the declarations and current values of the earlier lines; a line rejected by the front end
   (syntax / reference error) contributes nothing; a line that fails while running contributes
   exactly the effects it completed before failing.  Definitions only. *)
From NL.Spec Require Export Sem.
Open Scope Z_scope.

Record sem_session : Type := mkSemS {
  sm_static : sctx;
  sm_dyn : dctx;
  sm_state : sstate
}.

Definition sem_session_new : sem_session := mkSemS (mkS [[]] None 0) (mkD [[]] None) sem_init.

(* names a top-level statement declares in the enclosing (global) scope *)
Definition stmt_declares (s : stmt) : option text :=
  match s with
  | SLet x _ => Some x
  | SExpr (EFunction (c :: n) _ _) => Some (c :: n)
  | _ => None
  end.

(* the static context after the statements of a line *)
Fixpoint static_after (c : sctx) (b : list stmt) : sctx :=
  match b with
  | [] => c
  | s :: r => static_after (match stmt_declares s with Some x => s_declare c x | None => c end) r
  end.

Inductive line_result : Type :=
| LRejected (k : errkind)
| LValue (v : val) (h : heap) (out : text)
| LError (k : errkind) (out : text)
| LFault (f : fault) (out : text)
| LFuel.

Section Eval.
  Variable orc : oracle.

  (* the statements of a line one by one, threading the environment (exec_block of Sem.v does the same
     but does not return the environment).  Returns the environment and state reached, also on failure. *)
  Fixpoint exec_top (fuel : nat) (c : dctx) (b : list stmt) (last : val) (st : sstate)
    : dctx * res val :=
    match b with
    | [] => (c, ROk last st)
    | s :: r =>
        match s with
        | SLet x e =>
            let '(cl, st1) := new_cell st in
            let c' := d_declare c x cl in
            match eval_expr orc fuel c' e st1 with
            | ROk v st2 => exec_top fuel c' r VNull (set_cell cl v st2)
            | other => (c', other)
            end
        | SExpr e =>
            match eval_expr orc fuel c e st with
            | ROk v st1 =>
                let c' := match e with
                          | EFunction (ch :: name) _ _ => d_declare c (ch :: name) (Pos.pred (st_next st1))
                          | _ => c
                          end in
                exec_top fuel c' r v st1
            | other => (c, other)
            end
        | SBlock b' =>
            match exec_block orc fuel (d_push c) b' VNull st with
            | ROk v st1 => exec_top fuel c r v st1
            | other => (c, other)
            end
        | SReturn _ => (c, RErr ESyntaxError st)
        | SBreak | SContinue => (c, RErr ESyntaxError st)
        end
    end.

  Definition clear_out (st : sstate) : sstate :=
    mkSt (st_heap st) (st_cells st) (st_next st) (st_funs st) [].

  Definition state_of (r : res val) (dflt : sstate) : sstate :=
    match r with
    | ROk _ st | RSig _ st | RErr _ st | RFault _ st => st
    | RFuel => dflt
    end.

  Definition sem_line (fuel : nat) (s : sem_session) (ast : block) : sem_session * line_result :=
    match check_block fuel (sm_static s) ast with
    | Some k => (s, LRejected k)
    | None =>
        let st0 := clear_out (sm_state s) in
        let '(c', r) := exec_top fuel (sm_dyn s) ast VNull st0 in
        let st' := state_of r st0 in
        let s' := mkSemS (match r with
                          | ROk _ _ => static_after (sm_static s) ast
                          | _ => sm_static s      (* see sem_static_of_dyn below *)
                          end) c' st' in
        (s', match r with
             | ROk v st => LValue v (st_heap st) (st_out st)
             | RSig _ st => LError ESyntaxError (st_out st)
             | RErr k st => LError k (st_out st)
             | RFault f st => LFault f (st_out st)
             | RFuel => LFuel
             end)
    end.
End Eval.

(* after a line that failed while running, the names visible later are exactly those whose
   declaration was executed: rebuild the static context from the dynamic one *)
Definition static_of_dyn (c : dctx) : sctx :=
  mkS (map (map fst) (d_local c)) None 0.

Definition sem_line' (orc : oracle) (fuel : nat) (s : sem_session) (ast : block) : sem_session * line_result :=
  let '(s', r) := sem_line orc fuel s ast in
  (mkSemS (static_of_dyn (sm_dyn s')) (sm_dyn s') (sm_state s'), r).
