(* ReachSpec.v - reachability on the heap graph (properties C03, C04): the least set of
   locations containing the heap values among the roots and closed under array elements. *)
From NL.Model Require Export Value.

Inductive reach (h : heap) (roots : list val) : positive -> Prop :=
| reach_root : forall v l, In v roots -> val_loc v = Some l -> reach h roots l
| reach_elem : forall la a vs v l,
    reach h roots la -> PM.find la (cells h) = Some (a, OArr vs) ->
    In v vs -> val_loc v = Some l -> reach h roots l.

(* executable version (used as the oracle of the correspondence runs): worklist with fuel *)
Fixpoint reach_list_fuel (fuel : nat) (h : heap) (todo : list val) (seen : list positive) : list positive :=
  match fuel with
  | O => seen
  | S f =>
      match todo with
      | [] => seen
      | v :: r =>
          match val_loc v with
          | None => reach_list_fuel f h r seen
          | Some l =>
              if existsb (Pos.eqb l) seen then reach_list_fuel f h r seen
              else match PM.find l (cells h) with
                   | Some (_, OArr vs) => reach_list_fuel f h (vs ++ r) (l :: seen)
                   | _ => reach_list_fuel f h r (l :: seen)
                   end
          end
      end
  end.
