(* GCInv.v - the collector's representation invariant, under which C03/C04 are stated. *)
From NL.Model Require Export GC.
From NL.Spec Require Export ReachSpec.
Open Scope Z_scope.

Definition managed (g : gc) (l : positive) : Prop :=
  exists v, In v (objects g) /\ val_loc v = Some l.

(* the box a value points to is alive and holds what the value's tag says *)
Definition val_ok (h : heap) (v : val) : bool :=
  match v with
  | VFloat l => match PM.find l (cells h) with Some (true, OFloat _) => true | _ => false end
  | VStr l => match PM.find l (cells h) with Some (true, OStr _) => true | _ => false end
  | VArr l => match PM.find l (cells h) with Some (true, OArr _) => true | _ => false end
  | _ => true
  end.

Record GCInv (h : heap) (g : gc) : Prop := {
  inv_heap_vals : forall v, In v (objects g) -> is_heap_val v = true;
  inv_nodup : NoDup (map val_loc (objects g));              (* nothing is managed twice *)
  inv_ok : forall v, In v (objects g) -> val_ok h v = true; (* every managed box is alive, well typed *)
  inv_closed : forall la a vs v l,                          (* what a managed array holds is managed *)
      managed g la -> PM.find la (cells h) = Some (a, OArr vs) ->
      In v vs -> val_loc v = Some l -> managed g l;
  inv_elems_ok : forall la a vs v,                          (* ... and carries the tag of its box *)
      managed g la -> PM.find la (cells h) = Some (a, OArr vs) ->
      In v vs -> val_ok h v = true
}.

Definition roots_managed (g : gc) (roots : list val) : Prop :=
  forall v l, In v roots -> val_loc v = Some l -> managed g l.

(* a root points to a live box of the kind its tag says.  Without this (and inv_elems_ok) the
   collector statements are false: a root VFloat l whose box l holds an array is marked without
   descending, so the array's elements are swept although `reach` (which follows the heap
   contents) holds for them; a root VArr l whose box holds a float makes mark fault (FBadTag). *)
Definition roots_ok (h : heap) (roots : list val) : Prop :=
  forall v, In v roots -> val_ok h v = true.
