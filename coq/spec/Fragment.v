(* Fragment.v - the fragments of the language for which compiler correctness (property C01) is
   proved in proofs/CompileCorrect*.v, and the observation relation used there.
   Definitions only.

   F1a : closed scalar expressions (integer and boolean literals, the 13 binary operators,
         prefix `!` and prefix `-`).
   F1e : F1a + global variables: `EIdent x` and `EAssign (EIdent x) e`.
   F1  : top-level programs: lists of `SLet x e` / `SExpr e` with e in F1e. *)
From NL.Model Require Export VM.
From NL.Spec Require Export Sem.
Open Scope Z_scope.

(* the 13 operators the parser produces in infix position (Tables.infix_tokens) *)
Definition is_binop (o : operator) : bool :=
  match o with
  | OpAdd | OpSubtract | OpMultiply | OpDivide | OpModulo
  | OpGt | OpGte | OpLt | OpLte | OpEq | OpNeq | OpAnd | OpOr => true
  | _ => false
  end.

(* prefix operators: `!` is OpNot, `-` is OpSubtract (the parser) or OpNegate (same meaning) *)
Definition is_prefix_op (o : operator) : bool :=
  match o with OpNot | OpSubtract | OpNegate => true | _ => false end.

(* the parser only produces literals 0 <= z <= MAX_INT *)
Definition lit_ok (z : Z) : bool := (0 <=? z) && (z <=? MAX_INT).

Fixpoint in_F1a (e : expr) : bool :=
  match e with
  | EInt z => lit_ok z
  | EBool _ => true
  | EInfix l o r => is_binop o && in_F1a l && in_F1a r
  | EPrefix o r => is_prefix_op o && in_F1a r
  | _ => false
  end.

Fixpoint in_F1e (e : expr) : bool :=
  match e with
  | EInt z => lit_ok z
  | EBool _ => true
  | EIdent _ => true
  | EAssign l r => match l with EIdent _ => in_F1e r | _ => false end
  | EInfix l o r => is_binop o && in_F1e l && in_F1e r
  | EPrefix o r => is_prefix_op o && in_F1e r
  | _ => false
  end.

Definition in_F1s (s : stmt) : bool :=
  match s with
  | SLet _ e => in_F1e e
  | SExpr e => in_F1e e
  | _ => false
  end.

Definition in_F1 (p : block) : bool := forallb in_F1s p.

(* the program is empty or its last statement is an expression statement: DESIGN.md excludes the
   value of a program that ends in a declaration *)
Fixpoint ends_expr (l : block) : bool :=
  match l with
  | [] => true
  | s :: r =>
      match r with
      | [] => match s with SExpr _ => true | _ => false end
      | _ :: _ => ends_expr r
      end
  end.

(* fuel that is certainly enough for the static pass (the dynamic pass reports RFuel itself) *)
Fixpoint size_expr (e : expr) : nat :=
  match e with
  | EInfix l _ r => S (size_expr l + size_expr r)
  | EPrefix _ r => S (size_expr r)
  | EAssign l r => S (size_expr l + size_expr r)
  | _ => 1%nat
  end.
Definition size_stmt (s : stmt) : nat :=
  match s with SLet _ e | SExpr e | SReturn e => S (size_expr e) | _ => 1%nat end.
Fixpoint size_block (l : block) : nat :=
  match l with [] => 1%nat | s :: r => S (size_stmt s + size_block r) end.

(* values that occur in F1 runs: no heap object, no function *)
Definition scalar (v : val) : bool :=
  match v with
  | VNull | VBool _ => true
  | VInt z => in_int_range z
  | _ => false
  end.

(* what is compared between a run of the machine and the denotation: the outcome (final value or
   error kind / fault) and everything printed.  For F1 the final value is a scalar, so equality of
   values is the right comparison (no heap locations to relate). *)
Definition obs_eq (o : observation) (r : sem_result) : Prop :=
  match r with
  | SemValue v _ out => o_result o = Ok v /\ o_out o = out
  | SemError k out => o_result o = Err k /\ o_out o = out
  | SemFault f out => o_result o = Fault f /\ o_out o = out
  | SemRejected _ => False
  | SemFuel => False
  end.
