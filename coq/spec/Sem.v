(* Sem.v - the definitional evaluator of DESIGN.md section 4.2: what a program's syntax tree DENOTES
   under the README's rules.  A fuelled big-step interpreter of the tree itself: no bytecode, no
   stack, no slots, no collector.  Names are resolved lexically (innermost enclosing declaration
   that textually precedes the use; a function body sees its own context and the globals visible
   where the function was written; no closures over locals); a static pass rejects undeclared names
   and misplaced stop / volgende / antwoord before anything runs.
   Value-level operations (operators, builtins) are the functions of Ops.v / Builtins.v, which
   C06 and C14 tie to their own specifications.  Definitions only. *)
From NL.Model Require Export Ast Builtins.
Open Scope Z_scope.

(** * Static pass: what the front end rejects before anything runs *)

(* contexts (function bodies) of scopes (blocks) of names; innermost first *)
Definition senv := list (list text).

Fixpoint in_scope (x : text) (s : list text) : bool :=
  match s with [] => false | y :: r => text_eqb x y || in_scope x r end.
Definition in_senv (x : text) (e : senv) : bool := existsb (in_scope x) e.

Record sctx : Type := mkS {
  s_local : senv;                 (* the current context *)
  s_global : option senv;         (* the global context as visible where the current function was written; None at top level *)
  s_loops : nat                   (* enclosing loops inside the current function *)
}.

Definition s_visible (c : sctx) (x : text) : bool :=
  in_senv x (s_local c) || match s_global c with Some g => in_senv x g | None => false end.

Definition s_declare (c : sctx) (x : text) : sctx :=
  match s_local c with
  | s :: r => mkS ((x :: s) :: r) (s_global c) (s_loops c)
  | [] => mkS [[x]] (s_global c) (s_loops c)
  end.
Definition s_push (c : sctx) : sctx := mkS ([] :: s_local c) (s_global c) (s_loops c).
Definition s_pop_to (c outer : sctx) : sctx := mkS (s_local outer) (s_global c) (s_loops outer).

Definition is_builtin_name (x : text) : bool :=
  match assoc_text x builtin_names with Some _ => true | None => false end.

Definition first_err (a : option errkind) (b : unit -> option errkind) : option errkind :=
  match a with Some k => Some k | None => b tt end.

(* None = accepted.  The traversal order is the order in which the names are met in the text of
   each construct as the compiler meets them, so that the FIRST problem decides the error kind. *)
Fixpoint check_expr (fuel : nat) (c : sctx) (e : expr) : option errkind :=
  match fuel with
  | O => Some ESyntaxError
  | S f =>
      let exprs := fix go (c : sctx) (l : list expr) : option errkind :=
                     match l with
                     | [] => None
                     | x :: r => first_err (check_expr f c x) (fun _ => go c r)
                     end in
      match e with
      | EInt _ | EFloat _ | EBool _ | EString _ => None
      | EIdent x => if s_visible c x then None else Some EReferenceError
      | EPrefix _ r => check_expr f c r
      | EInfix l _ r => first_err (check_expr f c l) (fun _ => check_expr f c r)
      | EAssign (EIdent x) r =>
          if s_visible c x then check_expr f c r else Some EReferenceError
      | EAssign (EIndex l i) r =>
          first_err (check_expr f c l) (fun _ => first_err (check_expr f c i) (fun _ => check_expr f c r))
      | EAssign _ _ => Some ETypeError
      | EIf cnd t alt =>
          first_err (check_expr f c cnd) (fun _ =>
          first_err (check_block f (s_push c) t) (fun _ =>
          match alt with Some b => check_block f (s_push c) b | None => None end))
      | EWhile cnd body =>
          let c' := mkS (s_local c) (s_global c) (S (s_loops c)) in
          first_err (check_expr f c' cnd) (fun _ => check_block f (s_push c') body)
      | EFunction name params body =>
          let c1 := match name with [] => c | _ => s_declare c name end in
          let g := match s_global c1 with Some g => g | None => s_local c1 end in
          check_block f (mkS [rev params] (Some g) 0) body
      | ECall fn args =>
          first_err (exprs c args) (fun _ =>
            match fn with
            | EIdent x => if is_builtin_name x then None else check_expr f c fn
            | _ => check_expr f c fn
            end)
      | EArray vs => exprs c vs
      | EIndex l i => first_err (check_expr f c l) (fun _ => check_expr f c i)
      end
  end

(* the statements of one block; the scope for them has already been pushed *)
with check_block (fuel : nat) (c : sctx) (b : list stmt) : option errkind :=
  match fuel with
  | O => Some ESyntaxError
  | S f =>
      match b with
      | [] => None
      | s :: r =>
          match s with
          | SLet x e =>
              let c' := s_declare c x in
              first_err (check_expr f c' e) (fun _ => check_block f c' r)
          | SExpr (EFunction name params body) =>
              first_err (check_expr f c (EFunction name params body)) (fun _ =>
                check_block f (match name with [] => c | _ => s_declare c name end) r)
          | SExpr e => first_err (check_expr f c e) (fun _ => check_block f c r)
          | SBlock b' => first_err (check_block f (s_push c) b') (fun _ => check_block f c r)
          | SReturn e =>
              match s_global c with
              | None => Some ESyntaxError
              | Some _ => first_err (check_expr f c e) (fun _ => check_block f c r)
              end
          | SBreak | SContinue =>
              match s_loops c with O => Some ESyntaxError | S _ => check_block f c r end
          end
      end
  end.

Definition static_check (fuel : nat) (p : block) : option errkind :=
  check_block fuel (mkS [[]] None 0) p.

(** * Dynamic semantics *)

(* run-time environments: scopes of (name, cell), innermost first, latest declaration first *)
Definition denv := list (list (text * positive)).

Fixpoint scope_find (x : text) (s : list (text * positive)) : option positive :=
  match s with
  | [] => None
  | (y, c) :: r => if text_eqb x y then Some c else scope_find x r
  end.
Fixpoint denv_find (x : text) (e : denv) : option positive :=
  match e with
  | [] => None
  | s :: r => match scope_find x s with Some c => Some c | None => denv_find x r end
  end.

Record closure : Type := mkClo { k_params : list text; k_body : list stmt; k_genv : denv }.

Record sstate : Type := mkSt {
  st_heap : heap;
  st_cells : PM.t val;
  st_next : positive;
  st_funs : list closure;         (* function value VFun i _ denotes the i-th closure created *)
  st_out : text
}.

Record dctx : Type := mkD { d_local : denv; d_global : option denv }.

Inductive signal : Type := SigBreak | SigContinue | SigReturn (v : val).

Inductive res (A : Type) : Type :=
| ROk (a : A) (st : sstate)
| RSig (s : signal) (st : sstate)
| RErr (k : errkind) (st : sstate)
| RFault (f : fault) (st : sstate)
| RFuel.
Arguments ROk {A} a st.
Arguments RSig {A} s st.
Arguments RErr {A} k st.
Arguments RFault {A} f st.
Arguments RFuel {A}.

Definition rbind {A B} (x : res A) (k : A -> sstate -> res B) : res B :=
  match x with
  | ROk a st => k a st
  | RSig s st => RSig s st
  | RErr e st => RErr e st
  | RFault f st => RFault f st
  | RFuel => RFuel
  end.
Notation "'rdo' ( x , st ) <- e ; k" := (rbind e (fun x st => k))
  (at level 200, x pattern, st name, e at level 100, k at level 200).

(* lifting the value-level functions of the model, which thread the heap *)
Definition lift_heap (st : sstate) (r : outcome (val * heap)) : res val :=
  match r with
  | Ok (v, h) => ROk v (mkSt h (st_cells st) (st_next st) (st_funs st) (st_out st))
  | Err k => RErr k st
  | Fault f => RFault f st
  | OutOfFuel => RFuel
  end.
Definition lift_plain {A} (st : sstate) (r : outcome A) : res A :=
  match r with
  | Ok a => ROk a st
  | Err k => RErr k st
  | Fault f => RFault f st
  | OutOfFuel => RFuel
  end.

Definition with_heap (st : sstate) (h : heap) : sstate :=
  mkSt h (st_cells st) (st_next st) (st_funs st) (st_out st).

Definition new_cell (st : sstate) : positive * sstate :=
  (st_next st, mkSt (st_heap st) (st_cells st) (Pos.succ (st_next st)) (st_funs st) (st_out st)).
Definition set_cell (c : positive) (v : val) (st : sstate) : sstate :=
  mkSt (st_heap st) (PM.add c v (st_cells st)) (st_next st) (st_funs st) (st_out st).
Definition get_cell (c : positive) (st : sstate) : val :=
  match PM.find c (st_cells st) with Some v => v | None => VNull end.

Definition d_lookup (c : dctx) (x : text) : option positive :=
  match denv_find x (d_local c) with
  | Some cell => Some cell
  | None => match d_global c with Some g => denv_find x g | None => None end
  end.
Definition d_declare (c : dctx) (x : text) (cell : positive) : dctx :=
  match d_local c with
  | s :: r => mkD (((x, cell) :: s) :: r) (d_global c)
  | [] => mkD [[(x, cell)]] (d_global c)
  end.
Definition d_push (c : dctx) : dctx := mkD ([] :: d_local c) (d_global c).

(* the README's indexing rule: from the front for i >= 0, from the back for i < 0 *)
Definition spec_index (i len : Z) : option nat :=
  if (0 <=? i) && (i <? len) then Some (Z.to_nat i)
  else if (i <? 0) && (- len <=? i) then Some (Z.to_nat (len + i))
  else None.

Section Eval.
  Variable orc : oracle.

  Definition sem_index_get (st : sstate) (base idx : val) : res val :=
    match idx with
    | VInt i =>
        match base with
        | VArr l =>
            rdo (vs, st) <- lift_plain st (get_arr (st_heap st) l);
            match spec_index i (zlength vs) with
            | Some n => match nth_error vs n with Some v => ROk v st | None => RErr EIndexError st end
            | None => RErr EIndexError st
            end
        | VStr l =>
            rdo (t, st) <- lift_plain st (get_str (st_heap st) l);
            match spec_index i (zlength t) with
            | Some n => match nth_error t n with
                        | Some ch => lift_heap st (Ok (alloc_str (st_heap st) [ch]))
                        | None => RErr EIndexError st
                        end
            | None => RErr EIndexError st
            end
        | _ => RErr ETypeError st
        end
    | _ => RErr ETypeError st
    end.

  Definition sem_index_set (st : sstate) (base idx v : val) : res val :=
    match idx with
    | VInt i =>
        match base with
        | VArr l =>
            rdo (vs, st) <- lift_plain st (get_arr (st_heap st) l);
            match spec_index i (zlength vs) with
            | Some n =>
                rdo (h, st) <- lift_plain st (h_set (st_heap st) l (OArr (replace_nth n v vs)));
                ROk v (with_heap st h)
            | None => RErr EIndexError st
            end
        | VStr l =>
            rdo (t, st) <- lift_plain st (get_str (st_heap st) l);
            match spec_index i (zlength t) with
            | Some n =>
                match v with
                | VStr k =>
                    rdo (repl, st) <- lift_plain st (get_str (st_heap st) k);
                    rdo (h, st) <- lift_plain st (h_set (st_heap st) l (OStr (firstn n t ++ repl ++ skipn (S n) t)));
                    ROk v (with_heap st h)
                | _ => RErr ETypeError st
                end
            | None => RErr EIndexError st
            end
        | _ => RErr ETypeError st
        end
    | _ => RErr ETypeError st
    end.

  Definition method_of (o : operator) : option string :=
    match assoc operator_eqb o compile_operator_table with
    | Some c => assoc opcode_eqb c binary_dispatch
    | None => None
    end.

  Fixpoint eval_expr (fuel : nat) (c : dctx) (e : expr) (st : sstate) : res val :=
    match fuel with
    | O => RFuel
    | S f =>
        let eval_list := fix go (l : list expr) (st : sstate) : res (list val) :=
                           match l with
                           | [] => ROk [] st
                           | x :: r =>
                               rdo (v, st) <- eval_expr f c x st;
                               rdo (vs, st) <- go r st;
                               ROk (v :: vs) st
                           end in
        match e with
        | EInt z => ROk (VInt z) st
        | EBool b => ROk (VBool b) st
        | EFloat x => lift_heap st (Ok (alloc_float (st_heap st) x))
        | EString s => lift_heap st (Ok (alloc_str (st_heap st) s))
        | EIdent x =>
            match d_lookup c x with
            | Some cell => ROk (get_cell cell st) st
            | None => RErr EReferenceError st
            end
        | EPrefix op r =>
            rdo (v, st) <- eval_expr f c r st;
            match op with
            | OpNegate | OpSubtract => lift_heap st (negate (st_heap st) v)
            | OpNot => lift_plain st (lognot v)
            | _ => RErr ETypeError st
            end
        | EInfix l op r =>
            rdo (a, st) <- eval_expr f c l st;
            rdo (b, st) <- eval_expr f c r st;
            match method_of op with
            | Some m => lift_heap st (binop orc m (st_heap st) a b)
            | None => RErr ETypeError st
            end
        | EAssign (EIdent x) r =>
            match d_lookup c x with
            | Some cell =>
                rdo (v, st) <- eval_expr f c r st;
                ROk v (set_cell cell v st)
            | None => RErr EReferenceError st
            end
        | EAssign (EIndex l i) r =>
            rdo (base, st) <- eval_expr f c l st;
            rdo (idx, st) <- eval_expr f c i st;
            rdo (v, st) <- eval_expr f c r st;
            sem_index_set st base idx v
        | EAssign _ _ => RErr ETypeError st
        | EIf cnd t alt =>
            rdo (b, st) <- eval_expr f c cnd st;
            match b with
            | VBool true => exec_block f (d_push c) t VNull st
            | VBool false =>
                match alt with
                | Some bl => exec_block f (d_push c) bl VNull st
                | None => ROk VNull st
                end
            | _ => RErr ETypeError st
            end
        | EWhile cnd body => eval_while f f c cnd body VNull st
        | EFunction name params body =>
            let '(c1, st1, cell) :=
              match name with
              | [] => (c, st, None)
              | _ => let '(cl, st') := new_cell st in (d_declare c name cl, st', Some cl)
              end in
            let g := match d_global c1 with Some g => g | None => d_local c1 end in
            let id := zlength (st_funs st1) in
            let st2 := mkSt (st_heap st1) (st_cells st1) (st_next st1)
                            (st_funs st1 ++ [mkClo params body g]) (st_out st1) in
            let v := VFun id 0 in
            ROk v (match cell with Some cl => set_cell cl v st2 | None => st2 end)
        | ECall fn args =>
            rdo (vs, st) <- eval_list args st;
            let builtin := match fn with EIdent x => assoc_text x builtin_names | _ => None end in
            match builtin with
            | Some b =>
                match call_builtin orc b (st_heap st) vs with
                | Ok (v, h, printed) =>
                    ROk v (mkSt h (st_cells st) (st_next st) (st_funs st) (st_out st ++ printed))
                | Err k => RErr k st
                | Fault x => RFault x st
                | OutOfFuel => RFuel
                end
            | None =>
                rdo (fv, st) <- eval_expr f c fn st;
                match fv with
                | VFun id _ =>
                    match nth_error (st_funs st) (Z.to_nat id) with
                    | Some clo =>
                        if Nat.ltb (length (k_params clo)) (length vs) then RErr EArgumentError st
                        else
                          (* fresh activation: one cell per parameter, bound by position *)
                          let '(scope, st1) :=
                            (fix bind (ps : list text) (vs : list val) (acc : list (text * positive)) (st : sstate) :=
                               match ps with
                               | [] => (acc, st)
                               | p :: ps' =>
                                   let '(cl, st') := new_cell st in
                                   let '(v, vs') := match vs with v :: r => (v, r) | [] => (VNull, []) end in
                                   bind ps' vs' ((p, cl) :: acc) (set_cell cl v st')
                               end) (k_params clo) vs [] st in
                          match exec_block f (mkD [scope] (Some (k_genv clo))) (k_body clo) VNull st1 with
                          | ROk v st2 => ROk v st2
                          | RSig (SigReturn v) st2 => ROk v st2
                          | RSig _ st2 => RErr ESyntaxError st2        (* excluded statically *)
                          | RErr k st2 => RErr k st2
                          | RFault x st2 => RFault x st2
                          | RFuel => RFuel
                          end
                    | None => RFault FBadTag st
                    end
                | _ => RErr ETypeError st
                end
            end
        | EArray vs =>
            rdo (xs, st) <- eval_list vs st;
            let '(l, h) := h_alloc (st_heap st) (OArr xs) in
            ROk (VArr l) (with_heap st h)
        | EIndex l i =>
            rdo (base, st) <- eval_expr f c l st;
            rdo (idx, st) <- eval_expr f c i st;
            sem_index_get st base idx
        end
    end

  (* `zolang`: `last` is the value of the body of the last completed iteration *)
  with eval_while (fuel iter : nat) (c : dctx) (cnd : expr) (body : list stmt) (last : val) (st : sstate) : res val :=
    match fuel with
    | O => RFuel
    | S f =>
        rdo (b, st) <- eval_expr f c cnd st;
        match b with
        | VBool true =>
            match exec_block f (d_push c) body VNull st with
            | ROk v st1 => eval_while f iter c cnd body v st1
            | RSig SigBreak st1 => ROk VNull st1
            | RSig SigContinue st1 => eval_while f iter c cnd body VNull st1
            | other => other
            end
        | VBool false => ROk last st
        | _ => RErr ETypeError st
        end
    end

  (* the statements of a block in order; `last` = value of the last statement executed so far that
     has one (an expression statement or a nested block), null otherwise *)
  with exec_block (fuel : nat) (c : dctx) (b : list stmt) (last : val) (st : sstate) : res val :=
    match fuel with
    | O => RFuel
    | S f =>
        match b with
        | [] => ROk last st
        | s :: r =>
            match s with
            | SLet x e =>
                let '(cl, st1) := new_cell st in
                let c' := d_declare c x cl in
                rdo (v, st2) <- eval_expr f c' e st1;
                exec_block f c' r VNull (set_cell cl v st2)
            | SExpr e =>
                rdo (v, st1) <- eval_expr f c e st;
                (* a named function literal declares its name in the enclosing scope *)
                let c' := match e with
                          | EFunction (ch :: name) _ _ =>
                              d_declare c (ch :: name) (Pos.pred (st_next st1))
                          | _ => c
                          end in
                exec_block f c' r v st1
            | SBlock b' =>
                rdo (v, st1) <- exec_block f (d_push c) b' VNull st;
                exec_block f c r v st1
            | SReturn e =>
                rdo (v, st1) <- eval_expr f c e st;
                RSig (SigReturn v) st1
            | SBreak => RSig SigBreak st
            | SContinue => RSig SigContinue st
            end
        end
    end.
End Eval.

(** * Whole programs *)

Inductive sem_result : Type :=
| SemRejected (k : errkind)                     (* before anything runs; no output *)
| SemValue (v : val) (h : heap) (out : text)
| SemError (k : errkind) (out : text)
| SemFault (f : fault) (out : text)
| SemFuel.

Definition sem_init : sstate := mkSt empty_heap (PM.empty _) 1%positive [] [].

Definition sem_program (orc : oracle) (fuel : nat) (p : block) : sem_result :=
  match static_check fuel p with
  | Some k => SemRejected k
  | None =>
      match exec_block orc fuel (mkD [[]] None) p VNull sem_init with
      | ROk v st => SemValue v (st_heap st) (st_out st)
      | RSig _ st => SemError ESyntaxError (st_out st)
      | RErr k st => SemError k (st_out st)
      | RFault x st => SemFault x (st_out st)
      | RFuel => SemFuel
      end
  end.
