(* Fragment4.v - the fragment F4 of the language for which compiler correctness (property C01, the
   capstone) is proved in proofs/CompileCorrectJ*.v, and the observation relation used there.
   Definitions only.

   F4 = F3 + F2h = user FUNCTIONS (parameters, locals, calls, antwoord, recursion, first-class
   functions, fused instructions) AND HEAP VALUES (floats, strings, arrays, indexing, index
   assignment) AND the seven BUILTINS (print output included): the whole language minus the
   documented exclusions of DESIGN.md section 4.3.

   ===========================================================================================
   STAGE 0 - DESIGN NOTE (architecture of the proof; the files are proofs/CompileCorrectJ0..J10)
   ===========================================================================================
   The new difficulty with respect to F3 and F2h: a collection runs at EVERY function return
   (OReturn / OReturnValue hand VM.roots = the whole stack ++ constants ++ globals ++ final_result
   [++ the returned value] to GC.gc_run), so the machine's heap does not only grow, while the heap of
   Sem.v does.

   Fact found first (model/Value.v, model/GC.v): `h_alloc` ALWAYS takes `next_loc`, which only grows,
   and `h_free` keeps the released box in the cell map, flagged dead.  A location is therefore NEVER
   REUSED: "allocation after a sweep" takes a brand-new location exactly as allocation before a
   sweep does.  A collection changes nothing but alive flags (GCProofs.run_char), and only those of
   boxes unreachable from the roots.

   Architecture chosen: (b) of the brief, in its strongest form - the collector is unobservable AT THE
   MACHINE LEVEL, proved once, independently of the compiler (J1):
     real machine  <--lockstep-->  collection-free machine `step_ng` (same dispatch loop; Return /
     ReturnValue do not collect, Halt does not untrace).
   Relation: all components of the two states are EQUAL except the heap (and the collector's own
   bookkeeping); the real heap is the collection-free heap with some boxes flagged dead (`hle`).
   Why it is preserved: (1) every value-level function of Ops / Builtins / VM is MONOTONE in `hle`:
   whatever it computes from the real heap without reading a dead box, it computes from the
   collection-free heap (relation `ole`; one short lemma per function, no invariant needed);
   (2) the real machine never reads a dead box (VMGCProofs.vm_no_heap_fault, from VMInv: everything
   the machine holds - stack, globals, constants, final_result - is alive: that is where the ROOT
   CORRESPONDENCE enters: the root list of VM.roots covers `VMInv.held`); (3) a collection point never
   fails (VMGCProofs.collect_ok) and only flags boxes dead (`collect_hle`: the COLLECTION LEMMA).
   "Freed locations are exactly ones outside the relation" becomes: a freed box is unreachable from
   what the machine holds, so no later instruction reads it; "reuse" does not exist.
   Rejected alternative (a): an intermediate evaluator that runs the collector itself would have to
   know the WHOLE operand stack (pending operands of all enclosing expressions and activations are
   roots) and final_result, i.e. it would have to be the machine.

   Above the collection-free machine the tower of F3 (CompileCorrectE..I) is redone with the heap
   constructs of F2h added; no collector anywhere in it.  The files (proofs/CompileCorrectJ*.v):
     J1  the collection-free machine `step_ng`, the relation `vsim` / `hle`, monotonicity of every
         value-level function, the COLLECTION LEMMA `collect_hle`, the lockstep theorem
         `gc_lockstep`, runs: `gc_unobservable_steps` (needs the address bound of the state reached:
         the heap of `step_ng` only grows, `ng_alloc_mono`);
     J2  the intermediate evaluator `yeval` (F3's, keyed by the compiler state, activations = slot
         vectors, function table) extended with the output, literals through a literal policy,
         arrays / indexing / index assignment / builtins (value-level functions of H1), over-arity
         calls and == on two functions as excluded events; results without a value (errors, excluded
         events) carry the state in which they arose; instruction lemmas for `step_ng`; runs of the
         collection-free machine with BOUNDED excluded events (`exclL Bd`);
     J0  Sem's heap only grows, for every program (`eval_grows_all`);
     J3  the collection-free machine simulates the evaluator on the compiled code (exact states);
         the evaluator's heap only grows (`yeval_grows`);
     J4  Sem.v agrees with the evaluator under the policy "a literal allocates a fresh box": the two
         heaps have the SAME locations (`hsame`), only function values differ (closure number vs
         entry point, also inside arrays);
     J5  the function literals of a program have pairwise different entry points; `fun_table`;
     J6  the value-level functions under a relation R on locations that grows (H3 redone with
         function values: `HRm`, `vrm`);
     J7  the evaluator under the policy "fresh box" against the evaluator under the policy "constant
         pool" (float literal = the pooled box, string literal = a copy of the pooled box): a
         logical-relations proof over ONE definition (`ml_agree`), with the address-space bound
         carried backwards from the result (`ybd`);
     J8  the constant pool along the compilation (`compile_pool_facts4`, `lits_good4`), the static
         pass (`static_accepts_F4`);
     J9  initial states, the run on the collection-free machine, the transfer to the machine,
         dropping the collector (`graph_final`), compile_correct_F4;
     J10 corollaries and examples.
   The relation between Sem locations and machine locations (`loc_rel`, below) therefore relates
   Sem's boxes to boxes of the COLLECTION-FREE heap; its restriction to the boxes reachable from the
   machine's roots is a relation to the real heap, and at the end of a run its restriction to the
   result graph is the relation of `obs_eq4` (`reachable_never_reclaimed_source`).
   =========================================================================================== *)
From NL.Model Require Export VM.
From NL.Spec Require Export Sem Fragment Fragment2 Fragment2h Fragment3.
Open Scope Z_scope.

(** * The fragment *)

(* lp : a stop / volgende of the innermost enclosing loop may be written here
   fa : a function literal may be written here
   fn : inside a function body
   Restrictions: those of F3 (stop / volgende in statement position; `stel x = e` with x in e only
   for a function literal; function literals not inside a block of the top level; named function
   literals as whole statements) and those of F2h (no NaN literal).  A call whose callee is a builtin
   name is a builtin call (its callee is not evaluated), any other callee is an expression. *)
Fixpoint f4e (lp fa fn : bool) (e : expr) {struct e} : bool :=
  let f4b := fix f4b (lp fa fn : bool) (l : list stmt) : bool :=
    match l with [] => true | s :: r => f4s lp fa fn s && f4b lp fa fn r end in
  let f4es := fix f4es (l : list expr) : bool :=
    match l with [] => true | x :: r => f4e false fa fn x && f4es r end in
  match e with
  | EInt z => lit_ok z
  | EBool _ => true
  | EFloat f => PrimFloat.eqb f f
  | EString _ => true
  | EIdent _ => true
  | EAssign l r =>
      match l with
      | EIdent _ => f4e false fa fn r
      | EIndex b i => f4e false fa fn b && f4e false fa fn i && f4e false fa fn r
      | _ => false
      end
  | EInfix l o r => is_binop o && f4e false fa fn l && f4e false fa fn r
  | EPrefix o r => is_prefix_op o && f4e false fa fn r
  | EIf c t alt => f4e false fa fn c && f4b lp fn fn t && match alt with Some b => f4b lp fn fn b | None => true end
  | EWhile c b => f4e false fa fn c && f4b true fn fn b
  | EFunction name _ body => fa && is_nil name && f4b false true true body
  | ECall f args => f4es args && (is_builtin_callee f || f4e false fa fn f)
  | EArray vs => f4es vs
  | EIndex b i => f4e false fa fn b && f4e false fa fn i
  end
with f4s (lp fa fn : bool) (s : stmt) {struct s} : bool :=
  let f4b := fix f4b (lp fa fn : bool) (l : list stmt) : bool :=
    match l with [] => true | s :: r => f4s lp fa fn s && f4b lp fa fn r end in
  match s with
  | SLet x e => f4e false fa fn e && (negb (mentions x e) || is_funlit e)
  | SExpr e =>
      match e with
      | EFunction (_ :: _) _ body => fa && f4b false true true body
      | _ => f4e lp fa fn e
      end
  | SBlock b => f4b lp fn fn b
  | SBreak | SContinue => lp
  | SReturn e => f4e false fa fn e
  end.

Fixpoint f4b (lp fa fn : bool) (l : list stmt) : bool :=
  match l with [] => true | s :: r => f4s lp fa fn s && f4b lp fa fn r end.

Definition f4es (fa fn : bool) : list expr -> bool :=
  fix f4es (l : list expr) : bool :=
    match l with [] => true | x :: r => f4e false fa fn x && f4es r end.

(* a top-level program: not inside a loop, function literals allowed, not inside a function *)
Definition in_F4 (p : block) : bool := f4b false true false p.

(* fuel certainly enough for the static pass: Fragment3.size3_b counts every construct *)

(** * Same value graph: locations through a relation, function values by kind *)

(* spec value, machine value.  A function value of Sem is a closure number, a function value of the
   machine is (entry point, number of locals): as part of a result they are both "a function"
   (Fragment3.val_obs_eq), also inside an array *)
Inductive val_rel4 (R : loc_rel) : val -> val -> Prop :=
| V4_null : val_rel4 R VNull VNull
| V4_bool : forall b, val_rel4 R (VBool b) (VBool b)
| V4_int : forall z, val_rel4 R (VInt z) (VInt z)
| V4_fun : forall id k ip n, val_rel4 R (VFun id k) (VFun ip n)
| V4_float : forall l l', R l l' -> val_rel4 R (VFloat l) (VFloat l')
| V4_str : forall l l', R l l' -> val_rel4 R (VStr l) (VStr l')
| V4_arr : forall l l', R l l' -> val_rel4 R (VArr l) (VArr l').

Definition obj_rel4 (R : loc_rel) (o o' : obj) : Prop :=
  match o, o' with
  | OFloat f, OFloat f' => f = f'
  | OStr s, OStr s' => s = s'
  | OArr vs, OArr vs' => Forall2 (val_rel4 R) vs vs'
  | _, _ => False
  end.

(* as Fragment2h.graph_rel: one-to-one on the mutable boxes, several Sem floats may share one
   (immutable, pooled) machine float *)
Record graph_rel4 (R : loc_rel) (hs hm : heap) : Prop := mkGR4 {
  gr4_obj : forall l l', R l l' ->
              exists o o', h_get hs l = Ok o /\ h_get hm l' = Ok o' /\ obj_rel4 R o o';
  gr4_fun : forall l l1 l2, R l l1 -> R l l2 -> l1 = l2;
  gr4_inj : forall l1 l2 l', R l1 l' -> R l2 l' ->
              l1 = l2 \/ exists f, h_get hm l' = Ok (OFloat f)
}.

Definition graph_eq4 (hs : heap) (v : val) (hm : heap) (v' : val) : Prop :=
  exists R : loc_rel, val_rel4 R v v' /\ graph_rel4 R hs hm.

(* what is compared: the final value GRAPH (read in the heap the observation carries, i.e. after the
   collector has been dropped), everything printed, or the error kind / fault and what was printed
   before it was raised - also when it is raised inside a function *)
Definition obs_eq4 (o : observation) (r : sem_result) : Prop :=
  match r with
  | SemValue v hs out =>
      exists v' hm, o_result o = Ok v' /\ o_heap o = Ok hm /\ o_out o = out /\ graph_eq4 hs v hm v'
  | SemError k out => o_result o = Err k /\ o_out o = out
  | SemFault f out => o_result o = Fault f /\ o_out o = out
  | SemRejected _ => False
  | SemFuel => False
  end.

(** * Machine states outside the comparison *)

(* DESIGN 4.3 item 4: a call with more arguments than the callee has parameters.  Sem says
   ArgumentError, the machine compares the argument count with the number of LOCALS n of the callee
   (parameters + declared variables): for  parameters < argc <= n  it runs the body.  T ip n np says:
   "the function with entry point ip and n locals has np parameters" (a table read off the source
   program: CompileCorrectJ5.fun_table) *)
Definition at_overcall (T : Z -> Z -> nat -> Prop) (prog : program) (s : vm) : Prop :=
  exists argc ip n rest np,
    byte_at prog (v_ip s) = Some (byte_of_opcode OCall) /\ byte_at prog (v_ip s + 1) = Some argc /\
    v_stack s = VFun ip n :: rest /\ argc <= n /\ T ip n np /\ Z.of_nat np < argc.

(* Fragment3.excluded: the 16-bit stack / frame limits (item 5), == on two function values (item 14) *)
Definition excluded4 (T : Z -> Z -> nat -> Prop) (prog : program) (s : vm) : Prop :=
  excluded prog s \/ at_overcall T prog s.

(* the run of the bytecode passes through an excluded state: after `budget` instructions, none of
   which failed or halted, the machine is in such a state *)
Definition hits_excluded4 (T : Z -> Z -> nat -> Prop) (orc : oracle) (bc : bytecode) : Prop :=
  exists budget s,
    let '(consts, h0) := load_consts (b_constants bc) empty_heap in
    let prog := mkProgram (b_code bc) consts in
    run_loop orc prog budget (vm_start vm_new consts h0) = (OutOfFuel, s, O) /\ excluded4 T prog s.
