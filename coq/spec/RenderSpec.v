(* RenderSpec.v - the textual side of the lexer specification (property C08).
   Definitions only: how a string is written as a literal (`quote`), how a token is spelled
   (`spelling`), what may stand between tokens (`gap`, `sepgap`), which adjacent tokens must be
   kept apart (`needs_sep`), and how a token sequence is rendered back to text (`render`).
   The character data of the fixed tokens is looked up in gen/Tables.v, never restated here;
   the only literal code points are the ones the lexer itself hard-codes
   (quote 34, backslash 92, '.' 46, '/' 47, newline 10, 'n' 110, 't' 116, tab 9). *)
From NL.Model Require Export Lexer.
Open Scope Z_scope.

(** * String literals *)

(* the text to write between the quotes so that the literal denotes s *)
Fixpoint quote (s : text) : text :=
  match s with
  | [] => []
  | c :: r =>
      if (c =? 34)%N then 92%N :: 34%N :: quote r
      else if (c =? 92)%N then 92%N :: 92%N :: quote r
      else if (c =? 10)%N then 92%N :: 110%N :: quote r
      else if (c =? 9)%N then 92%N :: 116%N :: quote r
      else c :: quote r
  end.

(* The raw texts that may stand between two quotes: a sequence of units, each either one code
   point that is neither a quote nor a backslash, or a backslash followed by any code point.
   (Every `quote s` is of this form; the form also admits unknown escapes such as \a.) *)
Inductive raw_string : text -> Prop :=
| raw_nil : raw_string []
| raw_plain : forall c r, c <> 34%N -> c <> 92%N -> raw_string r -> raw_string (c :: r)
| raw_escape : forall c r, raw_string r -> raw_string (92%N :: c :: r).

(* body (the text after an opening quote) has a closing quote *)
Definition terminated (body : text) : Prop :=
  exists r rest, raw_string r /\ body = r ++ 34%N :: rest.

(** * Spelling of tokens *)

Fixpoint spell_keyword (k : ftoken) (l : list (string * ftoken)) : option text :=
  match l with
  | [] => None
  | (s, k') :: r => if ftoken_eqb k k' then Some (str_cps s) else spell_keyword k r
  end.

Fixpoint spell_single (k : ftoken) (l : list (N * ftoken)) : option text :=
  match l with
  | [] => None
  | (c, k') :: r => if ftoken_eqb k k' then Some [c] else spell_single k r
  end.

Fixpoint spell_double (k : ftoken) (l : list (N * N * ftoken * option ftoken)) : option text :=
  match l with
  | [] => None
  | (a, b, t, e) :: r =>
      if ftoken_eqb k t then Some [a; b]
      else match e with
           | Some k' => if ftoken_eqb k k' then Some [a] else spell_double k r
           | None => spell_double k r
           end
  end.

(* keywords, one-character tokens, the two-character operators and their one-character
   prefixes, and '/' (which the lexer treats apart because of comments).
   None exactly for KIllegal and KEof (LexerProofs.fixed_spelling_total). *)
Definition fixed_spelling (k : ftoken) : option text :=
  match spell_keyword k keywords with
  | Some w => Some w
  | None =>
      match spell_single k single_tokens with
      | Some w => Some w
      | None =>
          match spell_double k double_tokens with
          | Some w => Some w
          | None => if ftoken_eqb k KSlash then Some [47%N] else None
          end
      end
  end.

Definition spelling (t : token) : text :=
  match t with
  | TIdent w | TIntLit w | TFloatLit w => w
  | TStringLit r => 34%N :: r ++ [34%N]
  | TFix k => match fixed_spelling k with Some w => w | None => [] end
  end.

(** * Material the lexer skips *)

Definition no_newline (body : text) : bool := forallb (fun x => negb (x =? 10)%N) body.

(* white-space code points of the table, and comments: `//`, then anything but a newline, up to
   (excluding) the next newline or the end of the input *)
Inductive gap : text -> Prop :=
| gap_nil : gap []
| gap_ws : forall c g, is_ws c = true -> gap g -> gap (c :: g)
| gap_comment : forall body g, no_newline body = true ->
    match g with [] => True | c :: _ => c = 10%N end ->
    gap g -> gap (47%N :: 47%N :: body ++ g).

(** * Coverage: the input is the interleaving of gaps and token spellings *)

(* covers pos s l : the token list l (with end offsets, as returned by `lex`), read from byte
   offset pos, accounts for every code point of s:  s = gap, spelling, gap, spelling, ..., gap.
   KIllegal has no spelling of its own; it flags either one offending code point (lexing goes on
   after it) or an opening quote without closing quote together with all the remaining input
   (the token list ends there). *)
Inductive covers : Z -> text -> list (token * Z) -> Prop :=
| cov_end : forall pos g, gap g -> covers pos g []
| cov_tok : forall pos g t rest l,
    gap g -> t <> TFix KIllegal -> t <> TFix KEof -> spelling t <> [] ->
    covers (pos + utf8_len (g ++ spelling t)) rest l ->
    covers pos (g ++ spelling t ++ rest) ((t, pos + utf8_len (g ++ spelling t)) :: l)
| cov_bad_char : forall pos g c rest l,
    gap g ->
    covers (pos + utf8_len (g ++ [c])) rest l ->
    covers pos (g ++ c :: rest) ((TFix KIllegal, pos + utf8_len (g ++ [c])) :: l)
| cov_bad_string : forall pos g body,
    gap g -> ~ terminated body ->
    covers pos (g ++ 34%N :: body) [(TFix KIllegal, pos + utf8_len (g ++ 34%N :: body))].

(** * Rendering token sequences *)

Definition is_keyword (k : ftoken) : bool := existsb (fun p => ftoken_eqb k (snd p)) keywords.

Definition starts_with (c : cp) (t : token) : bool :=
  match spelling t with x :: _ => (x =? c)%N | [] => false end.

Definition numberlike (t : token) : bool :=
  match t with TIntLit _ | TFloatLit _ => true | _ => false end.

(* spelled with identifier characters from the first one on *)
Definition wordlike (t : token) : bool :=
  match t with
  | TIdent _ | TIntLit _ | TFloatLit _ => true
  | TFix k => is_keyword k
  | TStringLit _ => false
  end.

(* k is the one-character prefix token of a two-character operator whose second character
   begins t2 *)
Definition prefix_clash (k : ftoken) (t2 : token) : bool :=
  existsb (fun '(a, b, t, e) =>
             match e with Some k' => ftoken_eqb k k' && starts_with b t2 | None => false end)
          double_tokens.

(* Would t2, written immediately after t1, be lexed differently?
   - a word (identifier, keyword) swallows a following word or number;
   - an integer swallows a following number and a '.', a float a following number
     (but `1x` is the two tokens 1, x and `1.5.` the two tokens 1.5, .);
   - `= ! < >` followed by `=`/`==` would become the two-character operator;
   - `/` followed by `/` would open a comment;
   - nothing else: one-character tokens, two-character operators and string literals end by
     themselves.
   (Exact for every oracle in which alphabetic code points are alphanumeric; for other oracles
   it may ask for a separator between two words where the lexer would not need one.) *)
Definition needs_sep (t1 t2 : token) : bool :=
  match t1 with
  | TIdent _ => wordlike t2
  | TIntLit _ => numberlike t2 || starts_with 46%N t2
  | TFloatLit _ => numberlike t2
  | TStringLit _ => false
  | TFix k =>
      if is_keyword k then wordlike t2
      else if ftoken_eqb k KSlash then starts_with 47%N t2
      else prefix_clash k t2
  end.

Section Render.
  Variable u : unicode.

  (* a white-space code point that the oracle does not classify as part of a word
     (always true for the ASCII ones; beyond ASCII, ident_start is tested before is_ws) *)
  Definition sep_char (c : cp) : bool :=
    is_ws c && negb (ident_start u c) && negb (ident_char u c).

  (* separators: white space, and comments closed by their newline *)
  Inductive sepgap : text -> Prop :=
  | sg_nil : sepgap []
  | sg_ws : forall c g, sep_char c = true -> sepgap g -> sepgap (c :: g)
  | sg_comment : forall body g, no_newline body = true -> sepgap g ->
      sepgap (47%N :: 47%N :: body ++ 10%N :: g).

  (* what may follow the last token: a separator, possibly ending in an unclosed comment *)
  Inductive trailgap : text -> Prop :=
  | tg_sep : forall g, sepgap g -> trailgap g
  | tg_comment : forall g body, sepgap g -> no_newline body = true ->
      trailgap (g ++ 47%N :: 47%N :: body).

  (* tokens that have a spelling which lexes back to them *)
  Definition printable (t : token) : Prop :=
    match t with
    | TIdent w =>
        match w with
        | c :: a => ident_start u c = true /\ forallb (ident_char u) a = true
        | [] => False
        end /\ assoc_text w keywords = None
    | TIntLit w => w <> [] /\ forallb is_digit w = true
    | TFloatLit w =>
        exists ds fs, w = ds ++ 46%N :: fs /\ ds <> [] /\
                      forallb is_digit ds = true /\ forallb is_digit fs = true
    | TStringLit r => raw_string r
    | TFix k => k <> KIllegal /\ k <> KEof
    end.
End Render.

(* sep_1, spelling t_1, sep_2, spelling t_2, ..., trail *)
Fixpoint render (items : list (text * token)) (trail : text) : text :=
  match items with
  | [] => trail
  | (sep, t) :: r => sep ++ spelling t ++ render r trail
  end.

(* a separator may be empty only where needs_sep allows; `/` must not be followed directly by a
   comment *)
Definition sep_admissible (prev : option token) (sep : text) (t : token) : Prop :=
  match prev with
  | None => True
  | Some p =>
      match sep with
      | [] => needs_sep p t = false
      | c :: _ => c = 47%N -> p <> TFix KSlash
      end
  end.

Fixpoint admissible (u : unicode) (prev : option token) (items : list (text * token)) : Prop :=
  match items with
  | [] => True
  | (sep, t) :: r =>
      sepgap u sep /\ printable u t /\ sep_admissible prev sep t /\ admissible u (Some t) r
  end.

(* the last token of prev, t_1, ..., t_n *)
Fixpoint last_tok (prev : option token) (items : list (text * token)) : option token :=
  match items with
  | [] => prev
  | (_, t) :: r => last_tok (Some t) r
  end.

Definition trail_admissible (last : option token) (trail : text) : Prop :=
  match last, trail with
  | Some p, c :: _ => c = 47%N -> p <> TFix KSlash
  | _, _ => True
  end.

(* the simple layout: exactly one space between consecutive tokens *)
Definition space_items (ts : list token) : list (text * token) :=
  match ts with
  | [] => []
  | t :: r => ([], t) :: map (fun t' => ([32%N], t')) r
  end.
Definition render_spaces (ts : list token) : text := render (space_items ts) [].
