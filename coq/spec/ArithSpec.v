(* ArithSpec.v - what the binary operators of the language mean (property C06):
   exact integer arithmetic on Z with a range check, IEEE-754 on floats through the kernel's
   binary64 primitives, lexicographic order on text.  Written from the README and the property
   statement, not from object.rs.  Short enough to read in a minute. *)
From NL.Model Require Export Value.
Open Scope Z_scope.

Inductive sres : Type :=
| SInt (z : Z) | SBool (b : bool) | SFloat (f : float) | SErr.

Definition int_result (z : Z) : sres := if in_int_range z then SInt z else SErr.

Definition cmp_holds (o : operator) (c : comparison) : option bool :=
  match o with
  | OpLt => Some (match c with Lt => true | _ => false end)
  | OpLte => Some (match c with Gt => false | _ => true end)
  | OpGt => Some (match c with Gt => true | _ => false end)
  | OpGte => Some (match c with Lt => false | _ => true end)
  | OpEq => Some (match c with Eq => true | _ => false end)
  | OpNeq => Some (match c with Eq => false | _ => true end)
  | _ => None
  end.

Definition spec_int (o : operator) (a b : Z) : sres :=
  match o with
  | OpAdd => int_result (a + b)
  | OpSubtract => int_result (a - b)
  | OpMultiply => int_result (a * b)
  | OpDivide => if b =? 0 then SErr else int_result (Z.quot a b)
  | OpModulo => if b =? 0 then SErr else int_result (Z.rem a b)
  | _ => match cmp_holds o (a ?= b) with Some r => SBool r | None => SErr end
  end.

(* IEEE-754 ordering through the kernel's comparison primitive: unordered (NaN) compares false *)
Definition f_lt (x y : float) : bool := match PrimFloat.compare x y with FLt => true | _ => false end.
Definition f_le (x y : float) : bool := match PrimFloat.compare x y with FLt | FEq => true | _ => false end.
Definition f_gt (x y : float) : bool := match PrimFloat.compare x y with FGt => true | _ => false end.
Definition f_ge (x y : float) : bool := match PrimFloat.compare x y with FGt | FEq => true | _ => false end.

Definition spec_float (frem : float -> float -> float) (o : operator) (x y : float) : sres :=
  match o with
  | OpAdd => SFloat (x + y)%float
  | OpSubtract => SFloat (x - y)%float
  | OpMultiply => SFloat (x * y)%float
  | OpDivide => SFloat (x / y)%float
  | OpModulo => SFloat (frem x y)
  | OpLt => SBool (f_lt x y)
  | OpLte => SBool (f_le x y)
  | OpGt => SBool (f_gt x y)
  | OpGte => SBool (f_ge x y)
  | OpEq => SBool (PrimFloat.eqb x y)
  | OpNeq => SBool (negb (PrimFloat.eqb x y))
  | _ => SErr
  end.

Fixpoint lex_cmp (a b : text) : comparison :=
  match a, b with
  | [], [] => Eq
  | [], _ => Lt
  | _, [] => Gt
  | x :: a', y :: b' => match (x ?= y)%N with Eq => lex_cmp a' b' | c => c end
  end.

Definition spec_text (o : operator) (a b : text) : sres :=
  match cmp_holds o (lex_cmp a b) with Some r => SBool r | None => SErr end.

(* nee < ja; null is equal to itself *)
Definition spec_bool (o : operator) (a b : bool) : sres :=
  match o with
  | OpAnd => SBool (a && b)
  | OpOr => SBool (a || b)
  | _ => match cmp_holds o (Z.b2z a ?= Z.b2z b) with Some r => SBool r | None => SErr end
  end.

Definition spec_null (o : operator) : sres :=
  match cmp_holds o Eq with Some r => SBool r | None => SErr end.

(* functions can only be tested for (in)equality: same entry point and same number of locals *)
Definition spec_fun (o : operator) (same : bool) : sres :=
  match o with
  | OpEq => SBool same
  | OpNeq => SBool (negb same)
  | _ => SErr
  end.

(* the operands as the specification sees them: contents, not locations *)
Inductive sval : Type :=
| XNull | XBool (b : bool) | XInt (z : Z) | XFun (ip n : Z) | XFloat (f : float) | XText (s : text) | XArray.

Definition spec_binop (frem : float -> float -> float) (o : operator) (a b : sval) : sres :=
  match a, b with
  | XInt x, XInt y => spec_int o x y
  | XFloat x, XFloat y => spec_float frem o x y
  | XText x, XText y => spec_text o x y
  | XBool x, XBool y => spec_bool o x y
  | XNull, XNull => spec_null o
  | XFun i n, XFun j m => spec_fun o ((i =? j) && (n =? m))
  | _, _ => SErr      (* different types, arrays *)
  end.

(* view of a run-time value for the specification *)
Definition sval_of (h : heap) (v : val) : option sval :=
  match v with
  | VNull => Some XNull
  | VBool b => Some (XBool b)
  | VInt z => Some (XInt z)
  | VFun ip n => Some (XFun ip n)
  | VFloat l => match h_get h l with Ok (OFloat f) => Some (XFloat f) | _ => None end
  | VStr l => match h_get h l with Ok (OStr s) => Some (XText s) | _ => None end
  | VArr l => match h_get h l with Ok (OArr _) => Some XArray | _ => None end
  end.

(* what the machine must answer, given what the specification says *)
Definition lift_sres (h : heap) (r : sres) : outcome (val * heap) :=
  match r with
  | SInt z => Ok (VInt z, h)
  | SBool b => Ok (VBool b, h)
  | SFloat f => let '(l, h') := h_alloc h (OFloat f) in Ok (VFloat l, h')
  | SErr => Err ETypeError
  end.

