(* EqSpec.v - what "equal" means for run-time values (property C15). *)
From NL.Model Require Export Value.
Open Scope Z_scope.

(* equality (PartialEq for Object) is equality of type and content, arrays excepted:
   scalars and functions by value, text by its characters, floats by IEEE equality
   (so NaN differs from itself and +0 equals -0). *)
Definition content_eq (h : heap) (a b : val) : option bool :=
  match a, b with
  | VNull, VNull => Some true
  | VBool x, VBool y => Some (Bool.eqb x y)
  | VInt x, VInt y => Some (x =? y)
  | VFun i n, VFun j m => Some ((i =? j) && (n =? m))
  | VFloat l, VFloat k =>
      match h_get h l, h_get h k with
      | Ok (OFloat x), Ok (OFloat y) => Some (PrimFloat.eqb x y)
      | _, _ => None
      end
  | VStr l, VStr k =>
      match h_get h l, h_get h k with
      | Ok (OStr x), Ok (OStr y) => Some (text_eqb x y)
      | _, _ => None
      end
  | _, _ => None
  end.

