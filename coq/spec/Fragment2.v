(* Fragment2.v - the fragment F2 of the language for which compiler correctness (property C01) and
   the control-flow facts of property C11 are proved in proofs/CompileCorrectC.v / D.v.
   Definitions only.

   F2 = F1 + `als` (with or without `anders`), nested blocks, `zolang`, and `stop` / `volgende`
   as STATEMENTS of a loop body at any block depth; still top-level code (one context, nested
   scopes: every variable is a global slot), scalars only, no functions.

   Two restrictions, both reported:
   * stop / volgende only in statement position (DESIGN 4.3 item 6): the flag `lp` below is true
     exactly where a `stop` of the innermost enclosing loop may be written: in the statements of
     the loop body, of nested blocks, and of the branches of an `als` that is itself a whole
     expression statement.  Operands (of operators, of assignments, conditions, initialisers)
     must not contain a stop / volgende of an enclosing loop.
   * `stel x = e` where e mentions x is excluded: slots of dead block-local variables are reused,
     and the machine (model AND Rust) reads the stale value of the dead variable where the
     semantics reads null (counterexample in CompileCorrectD.v).  F1 (one scope, no reuse) does
     allow it. *)
From NL.Model Require Export VM.
From NL.Spec Require Export Sem Fragment.
Open Scope Z_scope.

(* x occurs as a variable (read or assigned) *)
Fixpoint mentions (x : text) (e : expr) {struct e} : bool :=
  let stmts := fix stmts (x : text) (l : list stmt) : bool :=
    match l with [] => false | s :: r => mentions_s x s || stmts x r end in
  let exprs := fix exprs (l : list expr) : bool :=
    match l with [] => false | y :: r => mentions x y || exprs r end in
  match e with
  | EInfix l _ r => mentions x l || mentions x r
  | EPrefix _ r => mentions x r
  | EIf c t alt => mentions x c || stmts x t || match alt with Some b => stmts x b | None => false end
  | EIdent y => text_eqb x y
  | EFunction _ _ body => stmts x body
  | ECall f args => mentions x f || exprs args
  | EAssign l r => mentions x l || mentions x r
  | EArray vs => exprs vs
  | EIndex l i => mentions x l || mentions x i
  | EWhile c b => mentions x c || stmts x b
  | _ => false
  end
with mentions_s (x : text) (s : stmt) {struct s} : bool :=
  match s with
  | SLet _ e | SReturn e | SExpr e => mentions x e
  | SBlock b => (fix stmts (x : text) (l : list stmt) : bool :=
                   match l with [] => false | s :: r => mentions_s x s || stmts x r end) x b
  | SBreak | SContinue => false
  end.

Fixpoint mentions_b (x : text) (l : list stmt) : bool :=
  match l with [] => false | s :: r => mentions_s x s || mentions_b x r end.

(* lp: a stop / volgende of the innermost enclosing loop may be written here *)
Fixpoint f2e (lp : bool) (e : expr) {struct e} : bool :=
  let f2b := fix f2b (lp : bool) (l : list stmt) : bool :=
    match l with [] => true | s :: r => f2s lp s && f2b lp r end in
  match e with
  | EInt z => lit_ok z
  | EBool _ => true
  | EIdent _ => true
  | EAssign l r => match l with EIdent _ => f2e false r | _ => false end
  | EInfix l o r => is_binop o && f2e false l && f2e false r
  | EPrefix o r => is_prefix_op o && f2e false r
  | EIf c t alt => f2e false c && f2b lp t && match alt with Some b => f2b lp b | None => true end
  | EWhile c b => f2e false c && f2b true b
  | _ => false
  end
with f2s (lp : bool) (s : stmt) {struct s} : bool :=
  match s with
  | SLet x e => f2e false e && negb (mentions x e)
  | SExpr e => f2e lp e
  | SBlock b => (fix f2b (lp : bool) (l : list stmt) : bool :=
                   match l with [] => true | s :: r => f2s lp s && f2b lp r end) lp b
  | SBreak | SContinue => lp
  | SReturn _ => false
  end.

Fixpoint f2b (lp : bool) (l : list stmt) : bool :=
  match l with [] => true | s :: r => f2s lp s && f2b lp r end.

(* a top-level program: not inside a loop *)
Definition in_F2 (p : block) : bool := f2b false p.

(* the statement leaves a value that the compiler's `last_instruction_is OPop` test can see:
   an expression statement, an empty block, or a block whose last statement does *)
Fixpoint stmt_pop (s : stmt) {struct s} : bool :=
  match s with
  | SExpr _ => true
  | SBlock b => (fix go (l : list stmt) : bool :=
                   match l with
                   | [] => true
                   | s :: r => match r with [] => stmt_pop s | _ :: _ => go r end
                   end) b
  | _ => false
  end.
Fixpoint ends_pop (l : list stmt) : bool :=
  match l with
  | [] => false
  | s :: r => match r with [] => stmt_pop s | _ :: _ => ends_pop r end
  end.

(* fuel that is certainly enough for the static pass *)
Fixpoint size2_e (e : expr) {struct e} : nat :=
  let stmts := fix stmts (l : list stmt) : nat :=
    match l with [] => 1%nat | s :: r => S (size2_s s + stmts r) end in
  match e with
  | EInfix l _ r => S (size2_e l + size2_e r)
  | EPrefix _ r => S (size2_e r)
  | EAssign l r => S (size2_e l + size2_e r)
  | EIf c t alt => S (size2_e c + stmts t + match alt with Some b => stmts b | None => 0%nat end)
  | EWhile c b => S (size2_e c + stmts b)
  | _ => 1%nat
  end
with size2_s (s : stmt) {struct s} : nat :=
  match s with
  | SLet _ e | SExpr e | SReturn e => S (size2_e e)
  | SBlock b => S ((fix stmts (l : list stmt) : nat :=
                      match l with [] => 1%nat | s :: r => S (size2_s s + stmts r) end) b)
  | SBreak | SContinue => 1%nat
  end.
Fixpoint size2_b (l : list stmt) : nat :=
  match l with [] => 1%nat | s :: r => S (size2_s s + size2_b r) end.
